#!/bin/bash
# tools/neutral3_take.sh <ID>... : store /tmp/n3/<ID>/out/patch_k.diff + notes.md under neutral3/<ID>/ and run all checks on each (private worktrees), 5 at a time
cd /verif
for id in "$@"; do
  mkdir -p neutral3/$id
  cp /tmp/n3/$id/out/patch_*.diff neutral3/$id/ 2>/dev/null
  cp /tmp/n3/$id/out/notes.md neutral3/$id/ 2>/dev/null
done
for id in "$@"; do for f in neutral3/$id/patch_*.diff; do k=$(basename $f .diff | sed 's/patch_//'); echo "$f $id-n$k"; done; done | xargs -P 10 -L1 tools/neutral_check.sh
