#!/venv/bin/python
"""Regenerate /verif/MANIFEST.json from the table below (keeps the file schema-valid and consistent)."""
import json
import os
import subprocess
import sys

VERIF = os.path.dirname(os.path.dirname(os.path.abspath(__file__)))

CLAIMED = {
    'C01': ('structural soundness conditions of the 15 primitive rules and of the step checker',
            'syntax-directed rules over ast + statement CFG (must-pass-through, dominance), local def-use closure, '
            'kind-case pruning of dispatch chains, table/signature agreement',
            'Decides, for every path of the 15 primitive rules and of Theory._check_proof_item, that premise hypotheses reach the '
            'result (K1), destructured components are used or equality-linked (K2), the kinds of term admitted as bound variable '
            'are kinds the hypothesis side condition can see (K3), the post-step type check post-dominates acceptance (K4), '
            'the dispatch table agrees with the rule signatures (K5), and the derived sequent only comes from trusted sources '
            'behind the trust-level gate (K6). It decides these necessary conditions for all inputs at once; it does not decide '
            'the semantic soundness theorem.',
            'semantic soundness of the rules and de Bruijn arithmetic are not decided; name resolution without a type checker'),
    'C02': ('citation, gap, stated-vs-derived and checked-extension discipline of the proof checker',
            'CFG path rules (must-pass-through edges, post-dominance), argument-forwarding check on recursive calls, sibling '
            'exhaustiveness of extension kinds',
            'Decides on every path of the checker: cited steps are read only behind the identifier test and the position guard '
            '(P1); a sorry step cannot complete when gaps are disallowed, is reported otherwise, and the flag reaches all nested '
            'checks (P2); completion only through can_prove or filling an absent statement (P3); checked_extend installs a '
            'proved theorem only after a gap-free check whose conclusion is compared with the statement (P4); ProofTerm.check '
            'reports gaps (P5); extension kinds are exhaustive (P6); check_proof visits all items (P7).',
            'exploration of proof shapes is not done; ItemID.can_depend_on and Proof.find_item are read, not re-verified'),
    'C03': ('identity-token, hash/equality/order field agreement and field-ownership discipline of terms and types',
            'who-may-write (ownership) rule over all attribute stores, commit-last CFG rule for bulk state copies, per-kind '
            'field-set comparison between constructors, __eq__, __hash__ and the term order',
            'Decides that _id is only ever id(self) and is re-established after a bulk state copy (I1); that for each of the 6 term '
            'kinds and 3 type kinds __eq__ compares exactly the structural constructor fields, __hash__ reads no field equality '
            'ignores, never the bound-variable name (I2); that equality-relevant fields are written only by constructors, '
            'hash-invalidating methods and the confirmed construction pipeline (I3); that the ordering compares exactly the '
            'equality fields (I4).',
            'capture-freeness, typing and denotation preservation of substitution are runtime properties and not decided'),
    'C04': ('hypothesis agreement of macro fast paths with their expansions; truncation; trust-level hygiene',
            'family-wide dataflow rule over all Macro.eval overrides, zip length-agreement path rule, who-may-write rule for '
            'trust levels, structural check of the inherited eval/expand',
            'For each of the 105 eval overrides decides that hypotheses of every premise whose proposition is read reach every '
            'constructed Thm (M1: otherwise the evaluation claims a stronger sequent than the expansion, which keeps them by '
            'C01.K1); that comparing zips have a length agreement (M2); that trust levels are literals set in constructors '
            'only (M3); that the default eval is the conclusion of the expansion (M5).',
            'equality of conclusions of eval and expansion for all arguments is not decided'),
    'C18': ('veriT step evaluators: truncating comparisons, premise hypotheses, no unconditional acceptance',
            'family-wide AST/CFG rules over the 85 evaluators and their helpers in smt/veriT (code no baseline test can import)',
            'Decides for every evaluation-side function of smt/veriT that a pairwise comparison over zip() deciding acceptance has '
            'a length agreement on every path (R1), that every constructed result carries the hypotheses of the premises read '
            '(R2), and that no evaluator hands back a clause from its arguments on a path without test or rejecting helper (R3).',
            'logical validity of each Alethe rule shape is not decided'),
}

NOT_APPLICABLE = {
    'C15': 'SAT solver verdicts, resolution certificates and Tseitin equisatisfiability are invariants of the CDCL trail (runtime assignments, levels, learned clauses); no clause of the statement is visible in the shape of the code',
    'C16': 'correctness of Omega elimination, GCD tightening, simplex pivoting and witness reconstruction is numerical; the checker-acceptance clause is decided by the checker at run time',
    'C17': 'order independence and exactness of congruence closure are properties of union-find / use-list states over merge histories; the one structural candidate (explanations only from kernel rules) is contradicted by design (unproved merges are gaps)',
    'C20': 'soundness of wp/VC generation is semantic; the print/re-parse clause cannot be decided from tables because imperative/parser2.py has an ambiguous expression grammar resolved by LALR conflict defaults and Op.__str__ is code, not a table',
}

PENDING = {k: 'check under construction in this build phase (see DESIGN.md section 4); not yet claimed' for k in
           ['C05','C06','C07','C08','C09','C10','C11','C12','C13','C14','C19']}  # properties whose checks are still being built are listed as not applicable until they exist


def main():
    checks = []
    for pid in sorted(CLAIMED):
        short, technique, text, note = CLAIMED[pid]
        checks.append({
            'property_id': pid,
            'quick_cmd': './check %s --tier quick' % pid,
            'thorough_cmd': './check %s --tier thorough' % pid,
            'evidence_file': 'evidence/%s.json' % pid,
            'replay_cmd_template': './check %s --tier quick' % pid,
            'engine': 'sa',
            'level_claimed': {'category': 'other', 'text': text, 'design_ref': 'DESIGN.md section 4 (%s)' % pid},
            'level_note': 'static analysis of the source only; decided part: ' + short + '; ' + note +
                          '; trusted base: CPython ast, the rule tables in /verif/sa/rules',
            'technique': 'static analysis: ' + technique,
        })
    na = dict(NOT_APPLICABLE)
    na.update(PENDING)
    manifest = {
        'version': 1,
        'setup_cmd': '/venv/bin/python -B -c "import ast, json, lark; print(\'sa ready\')"',
        'hooks': {'guard': 'HOLPY_VERIF', 'enable': 'no hooks: the checks read /repo source only',
                  'baseline_off_cmd': 'cd /repo && /venv/bin/python -m pytest -ra -q -p no:cacheprovider --timeout=900 --continue-on-collection-errors',
                  'source_commits': [], 'add_only': True},
        'engines': [{'name': 'sa', 'path': 'sa/', 'serves_properties': sorted(CLAIMED),
                     'kind_free_text': 'repository-specific static analyser: ast module index, statement CFG with short-circuit tests, '
                                       'local def-use closure, import/call graph, literal tables, grammar ladder'}],
        'checks': checks,
        'not_applicable': [{'property_id': k, 'reason': v} for k, v in sorted(na.items())],
        'notes': 'All checks: exit 0 = rules hold (known findings printed as KNOWN-FINDING), 1 = VIOLATION, 2 = ANALYSIS-ERROR '
                 '(anchor vanished / floor not reached / self-test failed). Known findings: known_findings.json. '
                 'Genuine defects repaired in /repo as "fix:" commits are listed there as fixed.',
    }
    with open(os.path.join(VERIF, 'MANIFEST.json'), 'w') as f:
        json.dump(manifest, f, indent=1)
        f.write('\n')
    import jsonschema
    jsonschema.validate(manifest, json.load(open('/root/.vp/MANIFEST.schema.json')))
    ids = {json.loads(l)['id'] for l in open(os.path.join(VERIF, 'properties.jsonl'))}
    covered = set(CLAIMED) | set(na)
    assert covered == ids, (sorted(ids - covered), sorted(covered - ids))
    print('MANIFEST.json written: %d checks, %d not applicable' % (len(checks), len(na)))


if __name__ == '__main__':
    main()
