#!/venv/bin/python
"""Regenerate /verif/MANIFEST.json from the table below (keeps the file schema-valid and consistent)."""
import json
import os
import subprocess
import sys

VERIF = os.path.dirname(os.path.dirname(os.path.abspath(__file__)))

CLAIMED = {
    'C01': ('structural soundness conditions of the 15 primitive rules and of the step checker',
            'syntax-directed rules over ast + statement CFG (must-pass-through, dominance), local def-use closure, '
            'kind-case pruning of dispatch chains, table/signature agreement',
            'Decides, for every path of the 15 primitive rules and of Theory._check_proof_item, that premise hypotheses reach the '
            'result (K1), destructured components are used or equality-linked (K2), the kinds of term admitted as bound variable '
            'are kinds the hypothesis side condition can see (K3), the post-step type check post-dominates acceptance (K4), '
            'the dispatch table agrees with the rule signatures (K5), and the derived sequent only comes from trusted sources '
            'behind the trust-level gate (K6). It decides these necessary conditions for all inputs at once; it does not decide '
            'the semantic soundness theorem.',
            'semantic soundness of the rules and de Bruijn arithmetic are not decided; name resolution without a type checker'),
    'C02': ('citation, gap, stated-vs-derived and checked-extension discipline of the proof checker',
            'CFG path rules (must-pass-through edges, post-dominance), argument-forwarding check on recursive calls, sibling '
            'exhaustiveness of extension kinds',
            'Decides on every path of the checker: cited steps are read only behind the identifier test and the position guard '
            '(P1); a sorry step cannot complete when gaps are disallowed, is reported otherwise, and the flag reaches all nested '
            'checks (P2); completion only through can_prove or filling an absent statement (P3); checked_extend installs a '
            'proved theorem only after a gap-free check whose conclusion is compared with the statement (P4); ProofTerm.check '
            'reports gaps (P5); extension kinds are exhaustive (P6); check_proof visits all items (P7).',
            'exploration of proof shapes is not done; ItemID.can_depend_on and Proof.find_item are read, not re-verified'),
    'C03': ('identity-token, hash/equality/order field agreement and field-ownership discipline of terms and types',
            'who-may-write (ownership) rule over all attribute stores, commit-last CFG rule for bulk state copies, per-kind '
            'field-set comparison between constructors, __eq__, __hash__ and the term order',
            'Decides that _id is only ever id(self) and is re-established after a bulk state copy (I1); that for each of the 6 term '
            'kinds and 3 type kinds __eq__ compares exactly the structural constructor fields, __hash__ reads no field equality '
            'ignores, never the bound-variable name (I2); that equality-relevant fields are written only by constructors, '
            'hash-invalidating methods and the confirmed construction pipeline (I3); that the ordering compares exactly the '
            'equality fields (I4).',
            'capture-freeness, typing and denotation preservation of substitution are runtime properties and not decided'),
    'C04': ('hypothesis agreement of macro fast paths with their expansions; truncation; trust-level hygiene',
            'family-wide dataflow rule over all Macro.eval overrides, zip length-agreement path rule, who-may-write rule for '
            'trust levels, structural check of the inherited eval/expand',
            'For each of the 105 eval overrides decides that hypotheses of every premise whose proposition is read reach every '
            'constructed Thm (M1: otherwise the evaluation claims a stronger sequent than the expansion, which keeps them by '
            'C01.K1); that comparing zips have a length agreement (M2); that trust levels are literals set in constructors '
            'only (M3); that the default eval is the conclusion of the expansion (M5).',
            'equality of conclusions of eval and expansion for all arguments is not decided'),
    'C15': ('certificate and verdict bookkeeping of the CDCL solver, connective / theorem agreement of the Tseitin encoding',
            'pairing and must-pass-through rules over the statement CFG of the nested solver functions, writer / reader layout agreement of '
            'the trail tuples, table agreement between the connective test and the list of expansion theorems',
            'Decides that the certificate of a learned clause starts at the conflict clause and records, with every resolution step, the id of '
            'the clause resolved with (X1); that the learned clause is stored at the index its certificate is recorded under and that '
            'unsatisfiability is reported only behind a recorded empty clause (X2); that unit propagation reports satisfiable only after a pass '
            'with no unsatisfied clause and never passes over one (X3); that trail entries are written and read by one layout and a propagated '
            'literal names the clause that forced it (X4); that every connective treated as logical by the Tseitin encoding has its expansion '
            'theorem and literals keep their sign (X5). Necessary conditions of valid certificates; verdict correctness is not decided.',
            'agreement of the verdict with exhaustive search, termination, equisatisfiability and checker acceptance are run-time properties and not decided'),
    'C16': ('exact arithmetic of the Omega test and the simplex procedures; completeness of the witness extension over the constraints',
            'taint rule for float-producing constructs (true division without a Fraction operand, float(), math functions) over every function of '
            'prover/omega.py, prover/simplex.py and prover/simplex_strict.py, with a table of confirmed exceptions; structural rule on extend_vmap',
            'Decides that the integer and rational decision procedures compute with integers and fractions only (O1, 236 functions; one confirmed '
            'exception: Pair division in simplex_strict) and that extending a witness to an eliminated variable traverses every constraint, treats '
            'both signs of the coefficient and compares the bounds before choosing a value (O2). A necessary condition of correct answers on '
            'large coefficients; agreement with ground truth is not decided.',
            'agreement with ground truth, elimination order, dark shadows, pivoting and termination are numerical and not decided'),
    'C17': ('bookkeeping of the congruence closure that answers and explanations rest on',
            'pairing / must-pass-through rules over the statement CFG of merge and _propagate, key agreement between writer and reader of the '
            'proof table, self-argument rule for the explanation chain',
            'Decides that every union of two classes is recorded in the proof forest under the pending equation that caused it, with the edge '
            'from the first constant to the second (G1); that an application equation is made pending or stays registered in lookup and in the '
            'use lists of both arguments, on every path (G2); that equality is answered from representatives and new constants get an entry in '
            'every table (G3); that the wrapper stores a proof under the pair it merged and extends an explanation chain by exactly the next '
            'step, reversed through symmetric() (G4). These are necessary conditions of the behaviour; the behaviour is not decided.',
            'that equalities are reported exactly when entailed, order independence and checker acceptance of explanations are properties of '
            'run-time union-find states and are not decided'),
    'C18': ('veriT step evaluators: truncating comparisons, premise hypotheses, no unconditional acceptance',
            'family-wide AST/CFG rules over the 85 evaluators and their helpers in smt/veriT (code no baseline test can import); abstract '
            'evaluation of the pattern-checking evaluators over connective patterns, decided by finite truth / small-integer tables',
            'Decides for every evaluation-side function of smt/veriT that a pairwise comparison over zip() deciding acceptance has '
            'a length agreement on every path (R1), that every constructed result carries the hypotheses of the premises read '
            '(R2), and that no evaluator hands back a clause from its arguments on a path without test or rejecting helper (R3).',
            'logical validity is decided (R19, R20) only for the accept sites whose conditions are tests of connectives / arithmetic operators and '
            'comparisons of parts - 86 of 154; la_generic, resolution, congruence, quantifier instantiation and the numeric simplifications are not'),
    'C05': ('type pinning, shape guards, exact arithmetic and zero-divisor tests of the trusted arithmetic evaluators',
            'interprocedural must-pass-through guards (call-site type pinning followed through wrappers and function-valued '
            'arguments), call-graph taint for inexact arithmetic with a sanitiser for exactness assertions, dominance rule for divisors',
            'For each of the 9 trust-level-0 arithmetic macros decides that every call handing a goal-derived term to nat_eval / '
            'int_eval / real_eval / convert_to_poly is reached only on paths that pin the term to that evaluator\'s number type (T1), '
            'that every asserted sequent is behind a shape test (T2), that no float-producing construct is reachable from the '
            'accept decision unless rejected by an exactness assertion (T3), and that every division in the exact evaluators is '
            'dominated by a zero test (T4). One recorded finding (const_inequality falls back to floating point).',
            'that the evaluators compute the right number is not decided; evaluator internals are trusted at the boundary'),
    'C06': ('nat-sensitive Z3 translation branches, side constraints, negated conclusion, solver-before-accept, SymPy verdict discipline',
            'region rules over the branches of the translation functions, dominance / must-pass rules in the accept paths, '
            'who-may-write rule for check_z3, handler rule for untranslatable terms',
            'Decides that each of the 5 translation branches whose meaning differs between nat and int tests the type and builds '
            'the guard (variables, truncated minus, forall, exists, of_nat), that recorded side constraints and only the negated '
            'conclusion reach the solver, that acceptance is preceded by assert solve(...) unless the configuration switches are '
            'off, that check_z3 is only assigned at module level or under __main__, that SymPy verdicts are not structural '
            'disequalities, that untranslatable terms reject, and that SymPy only divides by non-zero constants.',
            'faithfulness of every operator translation and the solvers themselves are not decided'),
    'C07': ('agreement of the printer\'s bracket decisions with the grammar ladder, token agreement, printer memo key',
            'the bracket tests of pprint.get_ast_term are read from its source and evaluated as a small model against the BNF '
            'ladder of the Lark grammar for every (operator, side, child construct) that is type-realisable over the declared '
            'types in library/*.json',
            'Enumerates every (parent operator, operand side, child construct) for which the printer omits brackets and a '
            'well-typed instance exists (545 instances) and decides from the grammar whether the text re-parses to the same '
            'nesting (W1); decides that every operator and binder token maps to a production whose callback builds that constant '
            '(W2) and that every setting read while building the memoised AST is in the memo key (W3). 20 recorded findings, each '
            'reproduced with the real printer and parser.',
            'type-annotation inference, numerals, variant names and line breaking are not decided'),
    'C08': ('annotation preservation, one-type-per-variable recording, declared-type instantiation and the internal-variable escape guard of type inference',
            'control-dependence (must-pass edge) rules on every type store of the inference walk, post-dominance of the restore in the printer\'s annotation search',
            'Decides that every store to a term\'s type is control dependent on that type being absent (U1), that inference cannot '
            'complete with leftover internal variables when forbid_internal is set and that only infer_printed_type relaxes it '
            'and restores what it cleared (U2), that fresh variable types are recorded and looked up (U3), and that constants are '
            'instantiated from their declared type with fresh variables for all its schematic variables (U4).',
            'unification order, occurs check and principality are runtime properties and not decided'),
    'C09': ('copy-on-entry, copy depth and bind-once discipline of the matcher',
            'dominance rule (rebinding before any mutating use, nested closures included), field-coverage comparison of __copy__ '
            'against __init__, control-dependence of binding stores on `key not in inst`',
            'Decides that the three entry points rebind inst to a copy before any statement, nested function or callee can modify '
            'it (N1), that Inst/TyInst copies re-create all mutable fields (N2), and that a schematic variable is bound only when '
            'it has no binding (N3).',
            'that the instantiation maps the pattern to the target, and completeness, are not decided'),
    'C10': ('left-hand-side discipline of conversion fast paths, rewr_conv and oracle steps',
            'return-shape rule over all Conv.eval overrides, must-pass edge rule in rewr_conv, argument-shape rule for oracle proof terms',
            'Decides that every conversion fast path returns Thm(Eq(<the input>, ...)) without hypotheses (V1), that rewr_conv '
            'returns only behind the test that the produced left side equals the input (V2), and that conversions handing an '
            'equation to a trusted macro state it about the input term (V3).',
            'canonicity and idempotence of normal forms are not decided'),
    'C11': ('conservativity side conditions of definitions, writer/reader key agreement of the nine item kinds, item table',
            'must-pass-through rule over the accept paths of Definition.parse (exception handler = rejection), dict-key '
            'dataflow comparison between export_json/parse and get_display/parse_edit including nested records',
            'Decides that every path on which a definition is accepted passes the seven side conditions (equality, head, variable '
            'arguments, distinctness, free variables, type variables, no self-reference), that for each item kind the keys parse '
            'requires are always written and nothing written is ignored, that the editor form carries what parse_edit needs, and '
            'that item_table is exhaustive.',
            'well-typedness of generated extensions and the generated induction / case theorems are not decided'),
    'C12': ('no theory swap inside a build region, validity marker last, per-user forwarding, error reporting, ownership of the global theory',
            'import-graph closure of every function-level import reachable from the loaders joined with the set of modules whose '
            'body loads a theory; commit-last CFG rule; argument-forwarding rule; who-may-write rule',
            'Decides that no lazy import reachable while a theory is being built can run a module body that replaces the global '
            'theory unless it sits between a save and a post-dominating restore (L1), that nothing that can raise follows the '
            'store of the cache timestamp (L2), that username is forwarded on every internal call (L3), that a missing limit and '
            'an import cycle raise (L4), and that theory.thy is assigned only by the confirmed writers (L5).',
            'equality of the resulting theory contents is not decided'),
    'C13': ('copy isolation of proof states, snapshot immutability, total renumbering, exported step keys, argument-signature exhaustiveness',
            'field-coverage and aliasing rule for __copy__, typestate-like rule that history snapshots reach mutating methods only '
            'through copy (mutating set computed by closure), structural renumbering rule, dict-key and signature-set comparison',
            'Decides that ProofState / Proof / ProofItem copies re-create every mutable part (A1), that elements of a snapshot '
            'history reach an editing method only through copy.copy (A2), that line insertion/removal renumbers id, all citations '
            'and nested steps of all following items and re-checks (A3), that exported steps carry the keys importers read (A4), '
            'and that every argument signature of any registered rule has a case in parse_args (A5).',
            'goal preservation and checkability after arbitrary edit sequences are not decided'),
    'C14': ('search / apply / display interface agreement of the 25 proof methods',
            'dict-key dataflow comparison between the suggestions built by search and the keys apply / display_step read, '
            'operation-set comparison resolved through the macro registry',
            'Decides that apply reads unconditionally only declared parameters, keys present in every suggestion, or keys it asks '
            'for (S1), that the preview of a suggestion is computed by a tactic or macro its application also performs with the '
            'same direction flag decoding (S2), and that display_step needs only keys every suggestion carries (S3).',
            'that advertised subgoals equal the real ones is not decided'),
    'C19': ('printer priority table vs parser ladder of the integration calculator',
            'order-isomorphism check between op_priority and the BNF ladder of the Lark grammar, bracket-test direction check in Op.__str__',
            'Decides that the 11 binary operators are ordered the same way by printer priority and grammar level, that equal '
            'priorities share a left-recursive level, and that Op.__str__ brackets equal-priority right operands (E1, E2).',
            'value preservation of calculation rules and normalisation is numerical and not decided'),
    'C20': ('stratification of the concrete syntax of conditions, agreement of the printer\'s brackets with it, shape of the VC generator',
            'both-side-recursion rule over the BNF of the Lark grammar (lark used as grammar loader only), order-isomorphism and recursion-side '
            'check between the printer\'s priority table / bracket conditions and the grammar ladder, dispatch-exhaustiveness and argument-flow '
            'rules over compute_wp and the VC listing',
            'Decides that no operator production of imperative/parser2.py is open on both sides at one level (P1), that the priorities and '
            'bracket conditions of Op.__str__ are order-isomorphic to the grammar levels and bracket the operand on the side the grammar does '
            'not recurse on (P2), and that compute_wp and the listing of verification conditions handle all five command kinds, list every '
            'chain of conditions, compute text and HOL form from one expression, and pass the conditions as the assignment, sequence, '
            'conditional and while rules say (P3).',
            'soundness of the conditions with respect to execution and agreement of symbolic evaluation with an interpreter are semantic and not decided'),
}

NOT_APPLICABLE = {
}

PENDING = {}  # properties whose checks are still being built would be listed here as not applicable

# rules added after the seeded changes (DESIGN.md section 4a); appended to the claim text
ADDED = {
    'C01': 'Also: Thm.substitution collects one type instantiation from hypotheses and proposition before substituting (K8); '
           'memo tables of recursive term helpers are keyed by all recursion parameters (K9).',
    'C02': 'Also: Proof.find_item refuses negative identifier components (P8); a line without a rule completes only without a theorem (P9).',
    'C03': 'Also: memo keys of recursive helpers in kernel/term.py cover every parameter of the recursion (I5).',
    'C04': 'Also: where the fast path and the expansion of a macro both beta-normalise, they do so under the same conditions (M6).',
    'C05': 'Also: coercion branches (of_nat / of_int) delegate to the evaluator of the source type (T5); the Python comparison '
           'in each comparison branch is the operator of that branch (T6).',
    'C06': 'Also: the real-valued alias for of_nat v is used only for variables not bound by a translated quantifier (Z1, sixth instance).',
    'C07': 'Also: every binder-printing branch registers the chosen bound-variable name while its body is printed (W4).',
    'C08': 'Also: unification of two types of different non-internal kinds never succeeds without a union / recursive unify (U5).',
    'C09': 'Also: eta-contraction of an instantiation happens only behind a whole-term freeness test (N4).',
    'C10': 'Also: process-wide memo tables of logic/auto.py are written only under the conditions under which they are read (V4); '
           'no loop of a comparison function used to sort normal forms leaves in its first iteration on every path (V5).',
    'C11': 'Also: the disjointness helper of the self-reference guard answers "disjoint" only for two type constructors (D4).',
    'C12': 'Also: cached theory content is used only through load_theory_cache validation (L6) and imports are refreshed from the file on reload (L7).',
    'C13': 'Also: fields shared between a proof item and its copies (args, th) are replaced, never mutated in place (A6).',
    'C18': 'Also: no floating point in the la_generic evaluators (R4), components cut off by a suffix slice are examined (R5), '
           'containers filled from premises are consulted (R6).',
    'C19': 'Also: a constant that may be a proper fraction never gets a printing priority above that of division (E3).',
}

# rules added after rounds 2 and 3 of seeded changes (DESIGN.md 4a-bis, 4f)
ADDED2 = {'C01': "After rounds 2 and 3: the substitution rule puts only closed terms under binders (K10); the step checker tests a primitive step's argument against the class in the dispatch table (K11); the term predicates the rules rely on traverse every sub-term (K12); abstract_over binds only leaves of the abstracted variable's kind (K13).", 'C02': "And: can_depend_on answers no wherever the identifiers differ before the cited line's last component and yes only after the prefix comparison (P10).", 'C03': 'And: equality consults identity, kind tag and structural fields only (I2 reads-structure-only); abstraction respects the kind distinction equality makes (I6).',
    'C04': 'And: memo guard symmetry for the auto macro (M7); no discarded result of a proof-term combinator (M8); the goal / premise is taken apart only after its head connective was tested (M9); no case accepted by the fast path is impossible for the expansion over their common tests (M10); a constructed result carries the hypotheses of every premise the expansion uses (M11).',
    'C05': 'And: a quotient or inverse is simplified only behind a non-zero test of the evaluated denominator (T7).',
    'C06': 'And: the registered bound name is the name the body is opened with (Z1); the occurrence test that drops vacuous quantifiers before translation traverses every sub-term (Z5).',
    'C07': 'And: no printing function returns a list it keeps while consumers modify printed output in place (W5); binders are bracketed in every operand position (W1 binder children).',
    'C08': 'And: no class-level container of the kernel classes is filled through an instance (U6); the recursions that clear, restore and search annotations traverse every sub-term (U7).',
    'C09': 'And: Type.match_incr completes per kind only behind the equality / constructor tests (N5); a schematic variable is bound only after its type was matched (N6); the occurrence tests of the matcher traverse every sub-term (N7).',
    'C10': 'And: dest_atom and to_exponent_form agree as decision tables (V6); the polynomial normaliser hands the argument of a coercion to the normaliser of the source type (V7).',
    'C11': 'And: an overloaded instance passes a universal is_tconst test (D5); the collection of type variables of a defining equation traverses every sub-term (D6).',
    'C12': 'And: every table of a newly built theory is a fresh object (L8).',
    'C13': "And: citation rewriting descends into subproofs (A7); a method is applied only to facts the goal can depend on, by the checker's predicate (A8).", 'C14': 'Also: a suggestion records the goal and fact order given to its search (S4); a method that asserts the number of facts suggests itself only for that number (S5).',
    'C18': 'And: no state that outlives an evaluation (R7); hand-written walks account for the component they stop at (R8); a premise or literal is taken apart only after its head connective was tested (R9, 124 sites); no contradiction with the expansion over common tests (R10); no unread part next to a doubled comparison (R11); hypotheses of every premise the expansion uses (R12).',
    'C19': "And: a flag collecting 'all side conditions hold' over a loop is only lowered (E4).", 'C15': 'And: unit propagation counts unassigned literals, not variables (X6).',
    'C16': 'And: every result of a dark-shadow sub-search passes a function that turns a contradiction into no conclusion for the mode in force (O3).',
    'C20': 'And: substitution on program expressions rebuilds the same node over all substituted parts (P4).'}


# rules added after round 4 of seeded changes and the second pass over the reported defects (DESIGN.md 4g, 4h)
ADDED3 = {
    'C01': 'And: every recursion through an abstraction passes depth + 1, through a combination the depth unchanged (K14); the scoping predicate and the identifier-equals-position discipline of the checker (K15). An instantiation rule applies to every hypothesis exactly the operation it applies to the conclusion (K16).',
    'C02': 'And: items are checked at the position their identifier names, per block (P11); checked_extend installs a theorem only after its own proof was checked, also through helpers (P4).',
    'C03': 'And: the de Bruijn depth discipline of every depth-carrying recursion over terms (I7). A table of type instantiations is applied only after the last addition to it (I8).',
    'C04': 'And: the expansion reads every argument component the reported result depends on and the premises do not determine (M12); the stated theorems of the library in the decidable fragment hold in every row of their small-domain table (M13, about 780 statements). Theorems about bit0 / bit1 are instantiated with bit strings (M14); a prefix stripped outermost-first is put back by wrapping in reverse (M15).',
    'C06': 'And: after two locals were swapped, the expressions they were bound from are not read again (Z6); every case of fologic.simplify1 / simplify / nnf returns a term with the truth table of the case it matched (Z7). Fresh-name discipline of the translation and an avoid list computed from the translated formulas (Z8).',
    'C09': 'And: the test for bound variables that escape the pattern arguments dominates the abstraction branch (N8). The replacement for a bound variable is chosen against the terms as they are when the binder is opened (N9).',
    'C10': 'And: the clean-up rewrite after normalising one argument is the theorem for that side, read from the library (V8). The order behind the normal forms compares exactly the fields equality compares (V9).',
    'C11': 'And: the side conditions on the variables of a defining equation: subset test with types, no schematic variables (D7). Every extension reaches the handler of its kind unconditionally (D8).',
    'C12': 'And: a cached theory is reused only when the recorded timestamp equals the current one (L9). A position in the item list is never tested by its truth value (L10).',
    'C13': 'And: after find_goal, citations are redirected to the line it returned (A9); renumbering moves the ids of every depth (A10). A proof line is parsed under the variable declarations of the lines before it (A11).',
    'C15': 'And: clauses whose length decides backtracking are free of repeated literals (X7); the working clause list is a position-preserving image of the argument and append-only (X8). The clause under construction in conflict analysis changes only by resolution with a named clause (X9); the auxiliary variables of the Tseitin encoding are chosen by the fresh-name generator against the variables of the formula (X10).',
    'C16': 'And: after every asserted bound the tableau is checked before the next assertion or the result (O4). Every row that enters a constraint database was divided by the non-negative gcd of its coefficients (O5); a bound is stored only after it was compared with the opposite bound (O6); a handler that turns an exception into a verdict names the solver\'s infeasibility exceptions (O7).',
    'C05': 'And: the power of a polynomial decides the exponent 0 before any other case (T8).',
    'C07': 'And: type inference, with which every parser entry point ends, expands its table to a fixpoint (W6).',
    'C08': 'And: the representatives of internal type variables are expanded to a fixpoint (U8).',
    'C14': 'And: renumbering after an insertion or deletion moves the ids of every depth below the changed position (S6); stripped prefixes are put back in order by the expansion that closes trivial subgoals (S7).',
    'C17': 'And: explanation requests are answered for identical terms (G5); stale-after-swap (G6); re-rooting the proof forest reverses every edge of the path (G7). An explanation is stored under the pair it was computed for (G8).',
    'C18': 'And: stale-after-swap (R13); factors and summands are never compared as sets (R14); parallel walkers test both heads (R15); loops over the pairs of a mapping read both components (R16); per-element found-flags are reset per element and the element loop is not left early (R17); variables of stripped quantifiers are examined (R18); for 86 of the 154 accept sites of the rule evaluators the accepted clause is a consequence of the premises in every row of the truth / small-integer table of the parts the tests leave open (R19, sa/propeval.py); every case of get_cnf keeps the truth table (R20). The kind-blind quantifier destructor is never applied to both terms of a comparison (R21); gen_and / gen_or keep the meaning in every quantifier case, decided over a two-element domain (R22, sa/quantdist.py).',
    'C19': 'And: a sum of growing terms takes the greater asymptote, a sum of decaying terms the smaller one (E6, selection tables over the four comparison outcomes). The division of constants answers only after the zero-denominator test (E7).',
    'C20': 'And: the negation used for the exit condition of a loop negates: the node ~e or the dual connective over negated parts (P5). Substitution under a binder refuses capture (P6); the HOL form of each binary operator has the table of that operator over both operands (P7).',
}

# rules of rounds 6 and 7 and of the defects repaired after them (DESIGN.md section 12, 13)
ADDED5 = {
    'C03': 'Round 9: types are instantiated in the pattern, never in a term the replacement worker of Term.subst has produced (I11).',
    'C12': 'Round 9: the import order of a theory is asked for only after its own cache entry was re-validated (L13, dominance).',
    'C01': 'Round 8: a derived sequent is accepted only if each of its hypotheses is among the stated ones (K19, shared with P3).',
    'C06': 'Round 8: every Z3 variable made at the type of a binder is constrained to be non-negative under the natural-number test of its branch (Z12).',
    'C07': 'Round 8: every constant built with an explicit type is unified with the type the theory declares for it, parameters of the builder taken as fixed (W9).',
    'C08': 'Round 8: classes of type variables are joined only through unify, which looks the representatives up first (U11, who-may-call). Round 9: the set the occurs check looks into is closed under the recorded reachability (U12).',
    'C09': 'Round 8: the instantiation is asked about v.name only for a v known to be schematic (N14).',
    'C10': 'Round 8: after a part of the term was normalised, no decision looks at the part as written (V12).',
    'C11': 'Round 8: the self-occurrence test of a definition compares with the name the head constant is built with (D12). Round 9: the type variables of a constructor are parameters of the datatype (third clause of D11).',
    'C13': 'Round 8: after opening quantifiers, lines are counted from the variables opened, not from the names given (A15).',
    'C14': 'Round 8: no normal exit of a step that inserts a line is reachable without the insertion (S12).',
    'C16': 'Round 8 and repairs: a one-term constraint with coefficient zero is decided by its constant (O11); every sub-problem of branch and bound keeps all constraints of its parent (O12).',
    'C17': 'Round 8: of the two halves of an explanation path exactly the second is reversed (G10).',
    'C18': 'Round 8: argument lists walked in parallel are never filed in a dictionary keyed by one component (R26).',
    'C19': 'Round 8: a branch that admits a sum and a difference alike reads the operator again before combining the parts (E11).',
    'C20': 'Round 8: the map from variable names to state indices, read off its syntax tree on a sample of names, is injective (P10).',
}

ADDED4 = {
    'C01': 'Rounds 6-7: a primitive rule takes a premise apart only behind a head test of that proposition (K17); the type of a bound variable is looked up only for an index that is neither negative nor too large (K18).',
    'C02': 'Rounds 6-7: each kind of step takes its justification from the checking theory, the dispatch table or the registered macro (P12).',
    'C03': 'Rounds 6-7: the incremental type matcher behind Term.subst is exact (I9); the type-matching loop of a substitution runs over the schematic variables themselves, not one per name (I10).',
    'C04': 'Rounds 6-7: closing steps run over the same sequence in evaluation and expansion (M16); an invented hypothesis is the assumed one under every assignment of the atomic tests (M17, decision tables); both divide the argument list alike (M18); numerals compared by value are pinned to one type (M19).',
    'C05': 'Rounds 6-7: an exact evaluator\'s result is never used as a truth value (T9); the numeral leaves of nat_eval are non-negative integers (T10).',
    'C06': 'Rounds 6-7: SymPy solution sets are compared as whole sets (S4) and natural-number subtraction is not read as ordinary subtraction (S5); kinds of leaf translated to a Z3 constant of the same name are the kinds binders avoid, one per name (Z9); every operand of the translation is a Z3 term - numerals become Z3 values, no equation between declarations (Z10); one type per variable name (Z11).',
    'C07': 'Rounds 6-7: context managers restore global state in a finally (W7); a numeral is rated an atom only when not negative (W8).',
    'C08': 'Rounds 6-7: context managers restore global state in a finally (U9); the occurs check is made for every member of the class whose reachability set is extended (U10).',
    'C09': 'Rounds 6-7: a passed instantiation is replaced by an empty one only when it is None (N10); nothing that can bind the variable runs between the unbound-test and the store (N11); a part of the target is assigned only after the bound-variable test (N12); stand-ins for bound variables avoid the variables of assigned terms (N13).',
    'C10': 'Rounds 6-7: a sweep hands back a node\'s result only after asking whether it changed the term (V10); a reflexive answer never rests on a comparison between two views of the term (V11).',
    'C11': 'Rounds 6-7: the collectors of constants / variables remember items, not names (D9); a generated predicate variable P :: D => bool is applied only to variables of type D (D10).',
    'C12': 'Rounds 6-7: context managers restore global state in a finally (L11); every item of the file is compared with the limit before anything else decides about it (L12).',
    'C13': 'Rounds 6-7: a tactic states the subgoal with the conversion its macro uses (A12); the introduction tactic makes one assume line per antecedent (A13); line numbers taken before a removal are not used after it, and only gaps are closed (A14).',
    'C14': 'Rounds 6-7: parameters are parsed over the variables of the goal line (S8); a goal found already proved is closed by the line that proves it (S9); the closing walks of apply_tactic / introduction keep their line numbers valid (S10); a step offered from the values of numerals pins their type (S11).',
    'C15': 'Rounds 6-7: backtracking removes every assignment above the level it reports (X11); every clause is examined in propagation (X3); the constants true / false of the Tseitin encoding become unit clauses (X12).',
    'C16': 'Rounds 6-7: a hash-bucket entry is used only after its key was compared (O8); a direct contradiction rests on strict comparisons only (O9); a new row without variables is decided by its constant before it is filed (O10).',
    'C17': 'Rounds 6-7: an entered application equation stays in lookup / use lists (G2); the class list of the surviving representative takes over exactly the re-pointed members (G9).',
    'C18': 'Rounds 6-7: arguments and premises of a reconstructed step come from the step, not from the traversal\'s running state (R23); on every accepting path of a two-sided pattern helper each named part of the right-hand side is constrained (R24); the bind rule tests that the new bound variables are not free on the left (R25).',
    'C19': 'Rounds 6-7: every negative constant exponent takes the reciprocal case in interval arithmetic (E8); a singular end of an interval is approached from inside (E9); an operand of ^ that is a sum, product or quotient stands in its own parentheses, because Python gives ^ a lower precedence (E10).',
    'C20': 'Rounds 6-7: keyword forms printed with bare operands are read with every operand at the widest level (P8).',
}


def main():
    checks = []
    for pid in sorted(CLAIMED):
        short, technique, text, note = CLAIMED[pid]
        if pid in ADDED:
            text = text + ' ' + ADDED[pid]
        if pid in ADDED2:
            text = text + ' ' + ADDED2[pid]
        if pid in ADDED3:
            text = text + ' ' + ADDED3[pid]
        if pid in ADDED4:
            text = text + ' ' + ADDED4[pid]
        if pid in ADDED5:
            text = text + ' ' + ADDED5[pid]
        checks.append({
            'property_id': pid,
            'quick_cmd': './check %s --tier quick' % pid,
            'thorough_cmd': './check %s --tier thorough' % pid,
            'evidence_file': 'evidence/%s.json' % pid,
            'replay_cmd_template': './check %s --tier quick' % pid,
            'engine': 'sa',
            'level_claimed': {'category': 'other', 'text': text, 'design_ref': 'DESIGN.md section 4 (%s)' % pid},
            'level_note': 'static analysis of the source only; decided part: ' + short + '; ' + note +
                          '; trusted base: CPython ast, the rule tables in /verif/sa/rules',
            'technique': 'static analysis: ' + technique,
        })
    na = dict(NOT_APPLICABLE)
    na.update(PENDING)
    manifest = {
        'version': 1,
        'setup_cmd': '/venv/bin/python -B -c "import ast, json, lark; print(\'sa ready\')"',
        'hooks': {'guard': 'HOLPY_VERIF', 'enable': 'no hooks: the checks read /repo source only',
                  'baseline_off_cmd': 'cd /repo && /venv/bin/python -m pytest -ra -q -p no:cacheprovider --timeout=900 --continue-on-collection-errors',
                  'source_commits': [], 'add_only': True},
        'engines': [{'name': 'sa', 'path': 'sa/', 'serves_properties': sorted(CLAIMED),
                     'kind_free_text': 'repository-specific static analyser: ast module index, statement CFG with short-circuit tests, '
                                       'local def-use closure, import/call graph, literal tables, grammar ladder, abstract evaluation of '
                                       'pattern-checking functions over connective patterns with finite truth / small-integer tables; '
                                       'source-to-source normal forms applied before a rule reads a function (helper calls expanded in place, '
                                       'dispatch tables as branches, literal loops unrolled, named conditions read at their tests)'}],
        'checks': checks,
        'not_applicable': [{'property_id': k, 'reason': v} for k, v in sorted(na.items())],
        'notes': 'All checks: exit 0 = rules hold (known findings printed as KNOWN-FINDING), 1 = VIOLATION, 2 = ANALYSIS-ERROR '
                 '(anchor vanished / floor not reached / self-test failed). Known findings: known_findings.json. '
                 'Genuine defects repaired in /repo as "fix:" commits are listed there as fixed.',
    }
    with open(os.path.join(VERIF, 'MANIFEST.json'), 'w') as f:
        json.dump(manifest, f, indent=1)
        f.write('\n')
    import jsonschema
    jsonschema.validate(manifest, json.load(open('/root/.vp/MANIFEST.schema.json')))
    ids = {json.loads(l)['id'] for l in open(os.path.join(VERIF, 'properties.jsonl'))}
    covered = set(CLAIMED) | set(na)
    assert covered == ids, (sorted(ids - covered), sorted(covered - ids))
    print('MANIFEST.json written: %d checks, %d not applicable' % (len(checks), len(na)))


if __name__ == '__main__':
    main()
