#!/bin/bash
# tools/seed_verify.sh <dir with patch.diff and demo.py> [--no-baseline]
# 1. in a scratch worktree of /repo HEAD: demo passes without the patch, fails with it, baseline suite has 0 regressions with it
# 2. applies the patch to /repo itself, runs every quick check (evidence to a scratch dir), undoes the patch
d=$(readlink -f "$1"); shift
wt=$(mktemp -d /tmp/sv_XXXX)
git -C /repo worktree add -q --detach "$wt" HEAD || exit 2
trap 'git -C /repo worktree remove --force "$wt" 2>/dev/null; git -C /repo checkout -q -- . 2>/dev/null' EXIT
cd "$wt"
echo "== demo without patch"
PYTHONPATH="$wt" /venv/bin/python -W ignore "$d/demo.py" >/tmp/sv_demo0.txt 2>&1; r0=$?
echo "   exit $r0"
git apply "$d/patch.diff" || { echo "PATCH DOES NOT APPLY"; exit 2; }
echo "== demo with patch"
PYTHONPATH="$wt" /venv/bin/python -W ignore "$d/demo.py" >/tmp/sv_demo1.txt 2>&1; r1=$?
echo "   exit $r1 : $(tail -1 /tmp/sv_demo1.txt | cut -c1-160)"
if [ "$1" != "--no-baseline" ]; then
  echo "== baseline with patch"
  /verif/tools/baseline.py "$wt" | head -5
fi
cd /verif
echo "== checks on /repo with the patch applied"
git -C /repo apply "$d/patch.diff" || { echo "PATCH DOES NOT APPLY TO /repo"; exit 2; }
ev=$(mktemp -d /tmp/sv_ev_XXXX)
for p in C01 C02 C03 C04 C05 C06 C07 C08 C09 C10 C11 C12 C13 C14 C15 C16 C17 C18 C19 C20; do
  out=$(/verif/check $p --quiet --evidence-dir "$ev" 2>&1); rc=$?
  if [ $rc -ne 0 ]; then echo "   $p rc=$rc"; echo "$out" | grep -v KNOWN-FINDING | grep -v "^VIOLATION" | head -4 | cut -c1-300; fi
done
rm -rf "$ev"
git -C /repo checkout -q -- .
echo "== /repo restored: $(git -C /repo status --short | grep -v '^??' | wc -l) modified files"
echo "SUMMARY demo_without=$r0 demo_with=$r1"
