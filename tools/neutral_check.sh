#!/bin/bash
# tools/neutral_check.sh <patch file> [label]: apply a behaviour-preserving patch to a private worktree of /repo HEAD and run
# all 20 quick checks against it; prints one line per check that does not exit 0 (a false alarm or a brittle anchor).
pf=$(readlink -f "$1"); label=${2:-$pf}
wt=$(mktemp -d /tmp/nc_XXXX)
git -C /repo worktree add -q --detach "$wt" HEAD || exit 2
trap 'git -C /repo worktree remove --force "$wt" 2>/dev/null; rm -rf "$ev"' EXIT
cd "$wt"
git apply "$pf" 2>/dev/null || git apply --3way "$pf" >/dev/null 2>&1 || { echo "$label: PATCH DOES NOT APPLY"; exit 0; }
ev=$(mktemp -d /tmp/nc_ev_XXXX)
out=""
for p in C01 C02 C03 C04 C05 C06 C07 C08 C09 C10 C11 C12 C13 C14 C15 C16 C17 C18 C19 C20; do
  o=$(/verif/check $p --quiet --repo "$wt" --evidence-dir "$ev" 2>&1); rc=$?
  if [ $rc -ne 0 ]; then out="$out\n$label: $p rc=$rc :: $(echo "$o" | grep -v KNOWN-FINDING | grep -v '^VIOLATION' | head -2 | cut -c1-330 | tr '\n' ' ')"; fi
done
if [ -z "$out" ]; then echo "$label: silent"; else echo -e "$label: ALARMS$out"; fi
