#!/bin/bash
# tools/scheck.sh <dir with patch.diff> <CHECK>... : apply a breaking change to the scratch worktree /tmp/cd (at /repo HEAD) and run the given checks
d=$1; shift
[ -d /tmp/cd ] || git -C /repo worktree add -q --detach /tmp/cd HEAD
git -C /tmp/cd reset -q --hard; git -C /tmp/cd checkout -q --detach "$(git -C /repo rev-parse HEAD)"
git -C /tmp/cd apply $d/patch.diff || { echo "patch does not apply"; exit 2; }
for c in "$@"; do /verif/check $c --repo /tmp/cd --quiet --evidence-dir /tmp/cd_ev 2>&1 | grep -v KNOWN-FINDING | cut -c1-500; done
git -C /tmp/cd reset -q --hard
