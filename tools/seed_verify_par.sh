#!/bin/bash
# tools/seed_verify_par.sh <dir with patch.diff and demo.py> <out file>
# Everything in a private scratch worktree of /repo HEAD (never touches /repo itself):
#   demo without the patch, demo with it, baseline suite with it, all checks with --repo <worktree>.
d=$(readlink -f "$1"); out="$2"
wt=$(mktemp -d /tmp/svp_XXXX)
git -C /repo worktree add -q --detach "$wt" HEAD || exit 2
trap 'git -C /repo worktree remove --force "$wt" 2>/dev/null' EXIT
{
cd "$wt"
PYTHONPATH="$wt" /venv/bin/python -W ignore "$d/demo.py" >/dev/null 2>&1; r0=$?
git checkout -q -- . ; git clean -fdq
git apply "$d/patch.diff" 2>/dev/null || git apply --3way "$d/patch.diff" >/dev/null 2>&1 || { echo "PATCH DOES NOT APPLY"; exit 2; }
PYTHONPATH="$wt" /venv/bin/python -W ignore "$d/demo.py" >"$wt/.demo1.txt" 2>&1; r1=$?
echo "demo_without=$r0 demo_with=$r1 : $(tail -1 "$wt/.demo1.txt" | cut -c1-160)"
rm -f "$wt/.demo1.txt"
# files the demo wrote are not part of the change
git status --short | grep '^??' | awk '{print $2}' | xargs -r rm -rf
/verif/tools/baseline.py "$wt" | head -4
cd /verif
ev=$(mktemp -d /tmp/svp_ev_XXXX)
for p in C01 C02 C03 C04 C05 C06 C07 C08 C09 C10 C11 C12 C13 C14 C15 C16 C17 C18 C19 C20; do
  o=$(/verif/check $p --quiet --repo "$wt" --evidence-dir "$ev" 2>&1); rc=$?
  if [ $rc -ne 0 ]; then echo "FIRED $p rc=$rc"; echo "$o" | grep -v KNOWN-FINDING | grep -v "^VIOLATION" | head -4 | cut -c1-260; fi
done
rm -rf "$ev"
echo "DONE"
} > "$out" 2>&1
