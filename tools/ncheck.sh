#!/bin/bash
# tools/ncheck.sh <Cxx> <k> <CHECK>... : apply neutral/<Cxx>/patch_<k>.diff to the scratch worktree /tmp/cd (at /repo HEAD) and run the given checks
p=$1; k=$2; shift; shift
[ -d /tmp/cd ] || git -C /repo worktree add -q --detach /tmp/cd HEAD
git -C /tmp/cd reset -q --hard; git -C /tmp/cd checkout -q --detach "$(git -C /repo rev-parse HEAD)"
git -C /tmp/cd apply /verif/${NDIR:-neutral}/$p/patch_$k.diff || git -C /tmp/cd apply --3way /verif/${NDIR:-neutral}/$p/patch_$k.diff || { echo "patch does not apply"; exit 2; }
for c in "$@"; do /verif/check $c --repo /tmp/cd --quiet --evidence-dir /tmp/cd_ev 2>&1 | grep -v KNOWN-FINDING | cut -c1-400; done
git -C /tmp/cd reset -q --hard
