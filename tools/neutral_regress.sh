#!/bin/bash
# tools/neutral_regress.sh [jobs]: every stored behaviour-preserving patch (${NDIR:-neutral}/<Cxx>/patch_k.diff) applied to a private worktree of
# /repo HEAD, all 20 quick checks run against it.  Prints one line per patch; any line other than "silent" is a false alarm to fix.
j=${1:-10}
cd /verif
ls ${NDIR:-neutral}/*/patch_*.diff | while read f; do p=$(basename $(dirname $f)); k=$(basename $f .diff | sed 's/patch_//'); echo "$f $p-n$k"; done | xargs -P "$j" -L1 tools/neutral_check.sh
