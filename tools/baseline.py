#!/venv/bin/python
"""Run the pinned baseline suite of /repo (guard off) and compare with BASELINE.json stable_pass.
usage: tools/baseline.py [repo_dir]   -> exit 0 iff every stable_pass test passed."""
import json, os, subprocess, sys, tempfile
import xml.etree.ElementTree as ET
repo = sys.argv[1] if len(sys.argv) > 1 else '/repo'
base = json.load(open('/root/.vp/BASELINE.json'))
def _untracked():
    r = subprocess.run(['git', '-C', repo, 'ls-files', '--others', '--exclude-standard'], capture_output=True, text=True)
    return set(r.stdout.split('\n')) - {''}
before = _untracked()
def _modified():
    r = subprocess.run(['git', '-C', repo, 'diff', '--name-only'], capture_output=True, text=True)
    return set(r.stdout.split('\n')) - {''}
mod_before = _modified()
fd, out = tempfile.mkstemp(suffix='.junit.xml'); os.close(fd)
env = dict(os.environ); env.pop('HOLPY_VERIF', None)
subprocess.run(['/venv/bin/python', '-m', 'pytest', '-q', '-p', 'no:cacheprovider', '--timeout=900',
                '--continue-on-collection-errors', '-x' if False else '-q', '--junitxml=' + out, '-n', '8'] if False else
               ['/venv/bin/python', '-m', 'pytest', '-q', '-p', 'no:cacheprovider', '--timeout=900',
                '--continue-on-collection-errors', '--junitxml=' + out],
               cwd=repo, env=env, stdout=subprocess.DEVNULL, stderr=subprocess.DEVNULL)
# the suite writes result files into the tree (summary.txt, integral/examples/*.json): remove what it created
for f in _untracked() - before:
    try:
        os.remove(os.path.join(repo, f))
    except OSError:
        pass
# ... and rewrites tracked result files (library/hoare_test_output.json): restore those it touched
for f in _modified() - mod_before:
    subprocess.run(['git', '-C', repo, 'checkout', '--', f])
passed = set()
for tc in ET.parse(out).getroot().iter('testcase'):
    if not any(ch.tag in ('failure', 'error', 'skipped') for ch in tc):
        passed.add('%s::%s' % (tc.get('classname'), tc.get('name')))
os.remove(out)
missing = [t for t in base['stable_pass'] if t not in passed]
print('stable_pass: %d, passed now: %d, regressions: %d' % (len(base['stable_pass']), len(passed), len(missing)))
for t in missing[:40]:
    print('  REGRESSION', t)
sys.exit(1 if missing else 0)
