#!/bin/bash
# tools/seeds_regress.sh [jobs]  : every stored seeded change is applied to a private scratch worktree of /repo HEAD
# (never to /repo) and all checks are run on it with --repo.  One line per seed: the rules that fire.
# A seed written against an older HEAD may no longer apply (the code it changed was repaired since): APPLYFAIL.
one() {
  d=$(readlink -f "$1"); id=$(basename "$d")
  wt=$(mktemp -d /tmp/sr_XXXX); git -C /repo worktree add -q --detach "$wt" HEAD || exit 2
  if ! git -C "$wt" apply "$d/patch.diff" 2>/dev/null; then
    if ! git -C "$wt" apply --3way "$d/patch.diff" >/dev/null 2>&1; then echo "$id APPLYFAIL"; git -C /repo worktree remove --force "$wt"; return; fi
  fi
  ev=$(mktemp -d /tmp/sr_ev_XXXX); fired=""
  for p in C01 C02 C03 C04 C05 C06 C07 C08 C09 C10 C11 C12 C13 C14 C15 C16 C17 C18 C19 C20; do
    o=$(/verif/check $p --quiet --repo "$wt" --evidence-dir "$ev" 2>&1) || fired="$fired $(echo "$o" | grep -v KNOWN-FINDING | grep -o ' C[0-9][0-9]\.[A-Z][0-9]*' | sort -u | tr -d '\n')$(echo "$o" | grep -q ANALYSIS-ERROR && echo " ERR($p)")"
  done
  echo "$id ->$fired"
  rm -rf "$ev"; git -C /repo worktree remove --force "$wt"
}
export -f one
ls -d /verif/seeded/*/ | xargs -P "${1:-8}" -I{} bash -c 'one {}' | sort
