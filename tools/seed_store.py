#!/venv/bin/python
"""tools/seed_store.py <src dir> <seed id> <property> <initially_detected 0|1> <detected_by,comma> <summary> <needs> [strengthening]
copies patch.diff / demo.py / notes.md into seeded/<seed id>/ and writes meta.json"""
import json, os, shutil, sys
src, sid, prop, init, det, summary, needs = sys.argv[1:8]
strength = sys.argv[8] if len(sys.argv) > 8 else ''
V = os.path.dirname(os.path.dirname(os.path.abspath(__file__)))
d = os.path.join(V, 'seeded', sid)
os.makedirs(d, exist_ok=True)
for f in ('patch.diff', 'demo.py', 'notes.md'):
    shutil.copy(os.path.join(src, f), os.path.join(d, f))
meta = {
    'property': prop, 'summary': summary, 'needs': needs,
    'initially_detected': init == '1', 'detected_by': [x for x in det.split(',') if x],
    'strengthening': strength,
    'kept_because': 'confirmed in a scratch worktree of /repo HEAD: demo exits 0 without and non-zero with the patch; baseline suite 600/600 with the patch (tools/seed_verify.sh)',
    'ran': ['tools/seed_verify.sh seeded/%s' % sid,
            'git -C /repo apply seeded/%s/patch.diff; ./check <all> --quiet; git -C /repo checkout -- .' % sid],
    'origin': 'written by an independent sub-agent that saw only the property text and a scratch worktree (round 2: told which idea round 1 used and asked for a different mechanism)',
}
json.dump(meta, open(os.path.join(d, 'meta.json'), 'w'), indent=1)
print('stored', d)
