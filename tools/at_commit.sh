#!/bin/bash
# tools/at_commit.sh <commit> <PROP>...  : run checks against a scratch worktree of /repo at <commit>
c=$1; shift
d=$(mktemp -d /tmp/wt_XXXX)
git -C /repo worktree add -q --detach "$d" "$c" || exit 2
for p in "$@"; do
  /verif/check "$p" --repo "$d" --evidence-dir "$d/.ev" | grep -v "0 failing" | sed "s#$d/##g"
done
git -C /repo worktree remove --force "$d"
