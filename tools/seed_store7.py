#!/venv/bin/python
"""tools/seed_store7.py <round dir> <PROP> <suffix> <initially_detected 0|1> <detected_by,comma> <summary> <needs> [strengthening]
stores <round dir>/<PROP>/out/{patch.diff,demo.py,notes.md,verify.txt} as seeded/<PROP>-<suffix>/ with meta.json"""
import json, os, shutil, sys
rd, prop, suf, init, det, summary, needs = sys.argv[1:8]
ROUND = '9 (eight properties, 25-minute budget): told the ideas of rounds 1-8 and the kinds of mistake already used' if suf == 'i' else '8: told the ideas of rounds 1-7 and the kinds of mistake already used' if suf == 'h' else '7: told the ideas of rounds 1-6 and the kinds of mistake already used, asked for boundary / asymmetry / swapped-operand / wrong-key kinds'
strength = sys.argv[8] if len(sys.argv) > 8 else ''
V = os.path.dirname(os.path.dirname(os.path.abspath(__file__)))
src = os.path.join(rd, prop, 'out')
d = os.path.join(V, 'seeded', '%s-%s' % (prop, suf))
os.makedirs(d, exist_ok=True)
for f in ('patch.diff', 'demo.py', 'notes.md'):
    shutil.copy(os.path.join(src, f), os.path.join(d, f))
ver = os.path.join(rd, prop, 'verify.txt')
if os.path.exists(ver):
    shutil.copy(ver, os.path.join(d, 'verify_at_arrival.txt'))
meta = {
    'property': prop, 'summary': summary, 'needs': needs,
    'initially_detected': init == '1', 'detected_by': [x for x in det.split(',') if x],
    'strengthening': strength,
    'kept_because': 'confirmed in a private scratch worktree of /repo HEAD: demo exits 0 without and non-zero with the patch; baseline suite 600/600 with the patch (tools/seed_verify_par.sh; its output at arrival is verify_at_arrival.txt)',
    'ran': ['tools/seed_verify_par.sh <dir> <out>  (private worktree of /repo HEAD: demo without / with the patch, baseline suite, all 20 checks with --repo)'],
    'origin': 'written by an independent sub-agent that saw only the property text and a scratch worktree (round %s)' % ROUND,
}
json.dump(meta, open(os.path.join(d, 'meta.json'), 'w'), indent=1)
print('stored', d)
