import ast, os
F={'T','var_T','fun','arg','body','ty','n','name','var_name'}
for root, dirs, files in os.walk('.'):
    dirs[:] = [d for d in dirs if d not in ('node_modules','.git','tests')]
    for fn in files:
        if not fn.endswith('.py'): continue
        p=os.path.join(root,fn)
        try: tree=ast.parse(open(p,encoding='utf-8').read())
        except Exception: continue
        class V(ast.NodeVisitor):
            def __init__(s): s.stack=[]
            def visit_ClassDef(s,n): s.stack.append(n.name); s.generic_visit(n); s.stack.pop()
            def visit_FunctionDef(s,n): s.stack.append(n.name); s.generic_visit(n); s.stack.pop()
            def chk(s,t,n):
                if isinstance(t, ast.Attribute) and t.attr in ('T','var_T','fun','arg','body'):
                    recv=ast.unparse(t.value)
                    if recv=='self' and s.stack and s.stack[-1]=='__init__': return
                    print(p, '.'.join(s.stack), n.lineno, ast.unparse(n)[:80])
                elif isinstance(t,(ast.Tuple,ast.List)):
                    for e in t.elts: s.chk(e,n)
            def visit_Assign(s,n):
                for t in n.targets: s.chk(t,n)
                s.generic_visit(n)
            def visit_AugAssign(s,n): s.chk(n.target,n); s.generic_visit(n)
        V().visit(tree)
