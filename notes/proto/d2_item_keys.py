import ast
src=open('/repo/server/items.py',encoding='utf-8').read(); tree=ast.parse(src)
classes={c.name:c for c in tree.body if isinstance(c, ast.ClassDef)}
def meth(c,name):
    # resolve through single inheritance
    while c is not None:
        for f in c.body:
            if isinstance(f, ast.FunctionDef) and f.name==name: return f,c
        b=[ast.unparse(x) for x in c.bases]
        c=classes.get(b[0]) if b else None
    return None,None
def keys_read(f, pname):
    ks=set()
    for n in ast.walk(f):
        if isinstance(n, ast.Subscript) and isinstance(n.value, ast.Name) and n.value.id==pname and isinstance(n.slice, ast.Constant): ks.add(n.slice.value)
        if isinstance(n, ast.Compare) and isinstance(n.left, ast.Constant) and isinstance(n.comparators[0], ast.Name) and n.comparators[0].id==pname: ks.add(n.left.value)
    return ks
def keys_emitted(f):
    ks=set()
    rets=[r.value for r in ast.walk(f) if isinstance(r, ast.Return) and r.value is not None]
    for n in ast.walk(f):
        if isinstance(n, ast.Dict) and any(isinstance(k, ast.Constant) and k.value=='ty' for k in n.keys):
            ks|={k.value for k in n.keys if isinstance(k, ast.Constant)}
        if isinstance(n, ast.Assign) and isinstance(n.targets[0], ast.Subscript) and isinstance(n.targets[0].value, ast.Name) and n.targets[0].value.id=='res' and isinstance(n.targets[0].slice, ast.Constant):
            ks.add(n.targets[0].slice.value)
    return ks
def allkeys(c, name, fn):
    # include super() chain
    ks=set(); cur=c
    while cur is not None:
        for f in cur.body:
            if isinstance(f, ast.FunctionDef) and f.name==name:
                ks|=fn(f)
                if 'super()' not in ast.unparse(f): return ks
        b=[ast.unparse(x) for x in cur.bases]; cur=classes.get(b[0]) if b else None
    return ks
tbl=[n for n in tree.body if isinstance(n, ast.Assign) and getattr(n.targets[0],'id','')=='item_table'][0]
for k,v in zip(tbl.value.keys, tbl.value.values):
    c=classes[v.id]
    pr=allkeys(c,'parse', lambda f: keys_read(f, f.args.args[1].arg))
    ex=allkeys(c,'export_json', keys_emitted)
    gd=allkeys(c,'get_display', keys_emitted)
    pe=allkeys(c,'parse_edit', lambda f: keys_read(f, f.args.args[1].arg))
    print(k.value, v.id, 'parse-export:', sorted(pr^(ex-{'ty'})), '| edit reads not displayed:', sorted((pe|pr)-gd-{'steps','proof','num_gaps'}) )
