import ast, sys
from lark import Lark
src=open('/repo/syntax/parser.py',encoding='utf-8').read()
tree=ast.parse(src)
g=None
for n in tree.body:
    if isinstance(n, ast.Assign) and getattr(n.targets[0],'id',None)=='grammar':
        g=n.value.value
L=Lark(g, start='term', parser='lalr')
terms={t.name:t.pattern for t in L.terminals}
for r in L.rules:
    exp=[ (s.name if not s.is_term else repr(terms[s.name].value if hasattr(terms[s.name],'value') else terms[s.name])) for s in r.expansion]
    print(r.origin.name, '->', exp, 'alias=',r.alias, 'opts=', r.options.expand1 if r.options else None)
