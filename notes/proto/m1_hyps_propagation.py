import ast, os, sys
R='/repo'
def derived_names(fn, seeds):
    """flow-insensitive closure: names assigned from expressions mentioning a derived name"""
    der=set(seeds); changed=True
    def mentions(e):
        return any(isinstance(x, ast.Name) and x.id in der for x in ast.walk(e))
    def targets(t):
        if isinstance(t, ast.Name): yield t.id
        elif isinstance(t,(ast.Tuple,ast.List)):
            for e in t.elts: yield from targets(e)
        elif isinstance(t, ast.Starred): yield from targets(t.value)
    while changed:
        changed=False
        for n in ast.walk(fn):
            pairs=[]
            if isinstance(n, ast.Assign): pairs=[(t,n.value) for t in n.targets]
            elif isinstance(n, ast.AugAssign): pairs=[(n.target,n.value)]
            elif isinstance(n,(ast.For,ast.comprehension)): pairs=[(n.target,n.iter)]
            elif isinstance(n, ast.withitem) and n.optional_vars is not None: pairs=[(n.optional_vars,n.context_expr)]
            for t,v in pairs:
                if mentions(v):
                    for nm in targets(t):
                        if nm not in der: der.add(nm); changed=True
    return der
def analyse(path):
    tree=ast.parse(open(path,encoding='utf-8').read())
    out=[]
    for cls in ast.walk(tree):
        if not isinstance(cls, ast.ClassDef): continue
        if not any(ast.unparse(b).split('.')[-1]=='Macro' for b in cls.bases): continue
        for f in cls.body:
            if not (isinstance(f, ast.FunctionDef) and f.name=='eval'): continue
            params=[a.arg for a in f.args.args]
            if len(params)<3: out.append((cls.name,f.lineno,'ARITY',params)); continue
            P=params[2]
            der=derived_names(f,{P})
            # does it consult .prop/.concl/.lhs... of premise-derived values (excluding .hyps-only)
            consult=False; hypsnames=set()
            for n in ast.walk(f):
                if isinstance(n, ast.Attribute) and n.attr in ('prop','concl','lhs','rhs','th','assums'):
                    if any(isinstance(x, ast.Name) and x.id in der for x in ast.walk(n.value)): consult=True
            if not consult:
                # premise used at all?
                used=any(isinstance(x, ast.Name) and x.id==P and isinstance(x.ctx, ast.Load) for x in ast.walk(f))
                out.append((cls.name,f.lineno,'IGNORES-PREMISES' if not used else 'NO-PROP-READ',None)); continue
            # names derived from .hyps of premise-derived
            hseed=set()
            def is_hyps_expr(e):
                return any(isinstance(x, ast.Attribute) and x.attr=='hyps' and any(isinstance(y, ast.Name) and y.id in der for y in ast.walk(x.value)) for x in ast.walk(e))
            hder=set(); ch=True
            while ch:
                ch=False
                for n in ast.walk(f):
                    if isinstance(n, ast.Assign):
                        if is_hyps_expr(n.value) or any(isinstance(x, ast.Name) and x.id in hder for x in ast.walk(n.value)):
                            for t in n.targets:
                                if isinstance(t, ast.Name) and t.id not in hder: hder.add(t.id); ch=True
                    if isinstance(n,(ast.For,)):
                        if is_hyps_expr(n.iter):
                            if isinstance(n.target, ast.Name) and n.target.id not in hder: hder.add(n.target.id); ch=True
                    if isinstance(n, ast.Expr) and isinstance(n.value, ast.Call) and isinstance(n.value.func, ast.Attribute) and n.value.func.attr in('append','extend','add') and isinstance(n.value.func.value, ast.Name):
                        if any(is_hyps_expr(a) or any(isinstance(x, ast.Name) and x.id in hder for x in ast.walk(a)) for a in n.value.args):
                            if n.value.func.value.id not in hder: hder.add(n.value.func.value.id); ch=True
            bad=[]
            for r in ast.walk(f):
                if isinstance(r, ast.Return) and r.value is not None:
                    for c in ast.walk(r.value):
                        if isinstance(c, ast.Call) and ast.unparse(c.func) in ('Thm',):
                            rest=c.args[1:]
                            ok=any(is_hyps_expr(a) or any(isinstance(x, ast.Name) and x.id in hder for x in ast.walk(a)) for a in rest)
                            if not ok: bad.append((r.lineno, ast.unparse(c)[:60]))
            out.append((cls.name,f.lineno,'BAD' if bad else 'ok',bad))
    return out
tot=0
for root, dirs, files in os.walk(R):
    dirs[:] = [d for d in dirs if d not in ('node_modules','.git','tests')]
    for fn in files:
        if fn.endswith('.py'):
            p=os.path.join(root,fn)
            try: res=analyse(p)
            except SyntaxError: continue
            for r in res:
                tot+=1
                if r[2] not in ('ok','IGNORES-PREMISES'): print(p[len(R)+1:], *r)
print('evals', tot)
