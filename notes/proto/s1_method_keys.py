import ast, os
for root, dirs, files in os.walk('.'):
    dirs[:] = [d for d in dirs if d not in ('node_modules','.git','tests')]
    for fn in files:
        if not fn.endswith('.py'): continue
        p=os.path.join(root,fn)
        try: tree=ast.parse(open(p,encoding='utf-8').read())
        except Exception: continue
        for cls in ast.walk(tree):
            if not isinstance(cls, ast.ClassDef): continue
            reg=[ast.unparse(d.args[0]) for d in cls.decorator_list if isinstance(d, ast.Call) and 'register_method' in ast.unparse(d.func)]
            if not reg: continue
            sig=None
            for a in ast.walk(cls):
                if isinstance(a, ast.Assign) and ast.unparse(a.targets[0])=='self.sig': sig=ast.unparse(a.value)
            fs={f.name:f for f in cls.body if isinstance(f, ast.FunctionDef)}
            emitted=set(); always=None
            if 'search' in fs:
                for d in ast.walk(fs['search']):
                    if isinstance(d, ast.Dict):
                        ks={k.value for k in d.keys if isinstance(k, ast.Constant)}
                        emitted|=ks
            req=set(); opt=set()
            if 'apply' in fs:
                f=fs['apply']; dp=f.args.args[3].arg if len(f.args.args)>3 else None
                for s in ast.walk(f):
                    if isinstance(s, ast.Subscript) and isinstance(s.value, ast.Name) and s.value.id==dp and isinstance(s.slice, ast.Constant):
                        req.add(s.slice.value)
                    if isinstance(s, ast.Compare) and isinstance(s.left, ast.Constant) and any(isinstance(o,(ast.In,ast.NotIn)) for o in s.ops) and isinstance(s.comparators[0], ast.Name) and s.comparators[0].id==dp:
                        opt.add(s.left.value)
            sigset=set(ast.literal_eval(sig)) if sig else set()
            missing = req - opt - sigset - emitted
            print(p, reg[0], 'sig=',sig, 'emit=',sorted(emitted), 'req=',sorted(req), 'opt=',sorted(opt), 'MISSING' if missing else '', sorted(missing))
