import ast
for path in ['/repo/server/method.py','/repo/prover/z3wrapper.py','/repo/imperative/imp.py','/repo/data/expr.py','/repo/data/nat.py','/repo/data/real.py']:
    tree=ast.parse(open(path,encoding='utf-8').read())
    for cls in ast.walk(tree):
        if not isinstance(cls, ast.ClassDef): continue
        reg=[ast.unparse(d.args[0]) for d in cls.decorator_list if isinstance(d, ast.Call) and 'register_method' in ast.unparse(d.func)]
        if not reg: continue
        fs={f.name:f for f in cls.body if isinstance(f, ast.FunctionDef)}
        dicts=[]
        for d in ast.walk(fs['search']):
            if isinstance(d, ast.Dict): dicts.append({k.value for k in d.keys if isinstance(k, ast.Constant)})
        rets=[ast.unparse(r.value) for r in ast.walk(fs['search']) if isinstance(r, ast.Return) and r.value is not None]
        nonempty = any(r!='[]' for r in rets)
        always = set.intersection(*dicts) if dicts else set()
        f=fs.get('display_step'); req=set(); opt=set()
        if f:
            dp=f.args.args[2].arg
            for s in ast.walk(f):
                if isinstance(s, ast.Subscript) and isinstance(s.value, ast.Name) and s.value.id==dp and isinstance(s.slice, ast.Constant): req.add(s.slice.value)
                if isinstance(s, ast.Compare) and isinstance(s.left, ast.Constant) and isinstance(s.comparators[0], ast.Name) and s.comparators[0].id==dp: opt.add(s.left.value)
        miss = req-opt-always-{'method_name','goal_id'}
        print(reg[0], 'search-nonempty' if nonempty else 'search-empty', 'always=',sorted(always), 'display-req=',sorted(req-opt), 'MISSING' if (miss and nonempty) else '', sorted(miss) if nonempty else '')
