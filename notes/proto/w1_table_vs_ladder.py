import ast, sys
from lark import Lark
R='/repo/'
# --- operator table
src=open(R+'syntax/operator.py',encoding='utf-8').read(); tree=ast.parse(src)
consts={'LEFT':0,'RIGHT':1,'CONST':0,'UNARY':1,'BINARY':2}
rows=[]
for n in ast.walk(tree):
    if isinstance(n, ast.Assign) and getattr(n.targets[0],'id','')=='op_data_raw':
        for c in n.value.elts:
            kw={k.arg:(consts[k.value.id] if isinstance(k.value, ast.Name) else k.value.value) for k in c.keywords}
            row=dict(fun=c.args[0].value, prio=c.args[1].value, assoc=kw.get('assoc'), arity=kw.get('arity',2), ascii=kw['ascii_op'], uni=kw.get('unicode_op',kw['ascii_op']), key=kw.get('key',c.args[0].value))
            rows.append(row)
# --- grammar
psrc=open(R+'syntax/parser.py',encoding='utf-8').read(); ptree=ast.parse(psrc)
g=[n.value.value for n in ptree.body if isinstance(n, ast.Assign) and getattr(n.targets[0],'id','')=='grammar'][0]
L=Lark(g, start='term', parser='lalr')
terms={t.name:t.pattern.value for t in L.terminals if hasattr(t.pattern,'value')}
# chain levels: follow unit productions from term
unit={}
prods=[]
for r in L.rules:
    o=r.origin.name; exp=[(s.name, s.is_term) for s in r.expansion]
    if len(exp)==1 and not exp[0][1]: unit.setdefault(o,[]).append(exp[0][0])
    prods.append((o,exp,r.alias))
level={}; cur='term'; i=0
order=[]
while True:
    order.append(cur)
    nxt=[u for u in unit.get(cur,[])]
    if not nxt: break
    cur=nxt[0]
# order: loosest ... tightest ; level = index from tightest
order=order[::-1]
lev={nt:i for i,nt in enumerate(order)}
print('ladder (tightest first):', order)
binp={}; unp={}
for o,exp,alias in prods:
    if o not in lev: continue
    if len(exp)==3 and exp[1][1] and not exp[0][1] and not exp[2][1]:
        tok=terms.get(exp[1][0]); binp.setdefault(tok,[]).append((o,exp[0][0],exp[2][0],alias))
    if len(exp)==2 and exp[0][1] and not exp[1][1]:
        tok=terms.get(exp[0][0]); unp.setdefault(tok,[]).append((o,exp[1][0],alias))
# map rows to productions
def prod_of(row):
    if row['arity']==2:
        a=binp.get(row['ascii']); u=binp.get(row['uni'])
        return a,u
    if row['arity']==1:
        return unp.get(row['ascii'].strip()), unp.get(row['uni'].strip())
    return None,None
info={}
for row in rows:
    a,u=prod_of(row)
    if row['arity']==0: continue
    if not a or not u or a!=u: print('TOKEN-MISMATCH', row['key'], a, u)
    if a: info[row['key']]=(row,a[0])
# printer model
def omits(P, side, q, ckind):
    # P row (binary); child priority q; returns True if printer omits brackets
    p=P['prio']
    if side=='L':
        br = (P['assoc']==0 and q<p) or (P['assoc']==1 and q<=p)
    else:
        br = (P['assoc']==0 and q<=p) or (P['assoc']==1 and q<p)
    return not br
children=[(k,r['prio'],'UNARY' if r['arity']==1 else 'BINARY', lev[pr[0]]) for k,(r,pr) in info.items()]
children.append(('FUN_APPL',95,'FUN_APPL',lev['comb']))
children.append(('ATOM',100,'ATOM',lev['atom'] if 'atom' in lev else 0))
children.append(('BINDER',10,'BINDER',0))  # binders are atoms in grammar but extend to the right
viol=[]
for k,(P,pr) in info.items():
    if P['arity']==2:
        o,l,r_,alias=pr
        for side,nt in (('L',l),('R',r_)):
            for ck,q,kind,cl in children:
                if ck=='BINDER': continue
                if omits(P,side,q,kind):
                    ok = cl <= lev[nt]
                    # same production on assoc side: need recursion
                    if ok and ck==k and cl==lev[nt] and False: pass
                    if not ok: viol.append((k,side,ck,q,P['prio'],nt,cl,lev[nt]))
    else:
        o,argnt,alias=pr
        for ck,q,kind,cl in children:
            if ck=='BINDER': continue
            br = q < P['prio'] or kind=='FUN_APPL'
            if not br and not (cl <= lev[argnt]): viol.append((k,'ARG',ck,q,P['prio'],argnt,cl,lev[argnt]))
print(len(viol),'untyped violating (parent, side, child) triples')
from collections import defaultdict
d=defaultdict(list)
for v in viol: d[(v[0],v[1])].append(v[2])
for k,v in sorted(d.items()): print(k, v)
