import ast, os, sys
mods={}
for root, dirs, files in os.walk('.'):
    dirs[:] = [d for d in dirs if d not in ('node_modules','.git')]
    for f in files:
        if f.endswith('.py'):
            p=os.path.join(root,f)[2:]
            m=p[:-3].replace('/','.')
            if m.endswith('.__init__'): m=m[:-9]
            mods[m]=p
def resolve(name):
    # return list of repo modules imported by 'import name' 
    res=[]
    parts=name.split('.')
    for i in range(1,len(parts)+1):
        pre='.'.join(parts[:i])
        if pre in mods: res.append(pre)
    return res
top={}; lazy={}; modlevel_load={}
for m,p in mods.items():
    try: tree=ast.parse(open(p,encoding='utf-8').read())
    except Exception as e: continue
    t=set(); l={}
    class V(ast.NodeVisitor):
        def __init__(s): s.fn=[]
        def visit_FunctionDef(s,n):
            s.fn.append(n.name); s.generic_visit(n); s.fn.pop()
        visit_AsyncFunctionDef=visit_FunctionDef
        def visit_Lambda(s,n): s.fn.append('<lambda>'); s.generic_visit(n); s.fn.pop()
        def add(s,names):
            for nm in names:
                for r in resolve(nm):
                    if s.fn: l.setdefault('.'.join(s.fn),set()).add(r)
                    else: t.add(r)
        def visit_Import(s,n): s.add([a.name for a in n.names])
        def visit_ImportFrom(s,n):
            if n.level: return
            base=n.module or ''
            s.add([base]+[base+'.'+a.name for a in n.names])
        def visit_Call(s,n):
            if not s.fn:
                src=ast.unparse(n.func)
                if src.endswith('load_theory') or src.endswith('set_context'):
                    modlevel_load.setdefault(m,[]).append((n.lineno, ast.unparse(n)))
            s.generic_visit(n)
    V().visit(tree)
    top[m]=t; lazy[m]=l
print('module-level loads:'); 
for k,v in modlevel_load.items(): print(' ',k,v)
# transitive closure of top-level imports
def closure(m, seen=None):
    seen=seen if seen is not None else set()
    if m in seen: return seen
    seen.add(m)
    for x in top.get(m,()): closure(x,seen)
    return seen
bad=set(modlevel_load)
print('lazy imports whose closure hits a module-level load:')
for m,l in sorted(lazy.items()):
    if '.tests' in m or m.startswith('paraverifier') : continue
    for fn,ims in sorted(l.items()):
        for im in sorted(ims):
            hit=closure(im)&bad
            if hit: print(' ',m,fn,'->',im,'hits',sorted(hit))
