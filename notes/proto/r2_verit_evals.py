import ast,sys
src=open('smt/veriT/verit_macro.py',encoding='utf-8').read()
tree=ast.parse(src)
n=0
for cls in tree.body:
    if not isinstance(cls, ast.ClassDef): continue
    reg=[ast.unparse(d.args[0]) for d in cls.decorator_list if isinstance(d, ast.Call) and 'register_macro' in ast.unparse(d.func)]
    if not reg: continue
    ev=[f for f in cls.body if isinstance(f, ast.FunctionDef) and f.name=='eval']
    gp=[f for f in cls.body if isinstance(f, ast.FunctionDef) and f.name=='get_proof_term']
    level=[ast.unparse(a.value) for a in ast.walk(cls) if isinstance(a, ast.Assign) and ast.unparse(a.targets[0])=='self.level']
    if not ev:
        print(reg[0], cls.lineno, 'NO-EVAL', 'gpt' if gp else 'NO-GPT', level); continue
    f=ev[0]
    rets=[ast.unparse(r.value) for r in ast.walk(f) if isinstance(r, ast.Return) and r.value is not None]
    usesprev = any(isinstance(x, ast.Name) and x.id in ('prevs','pts') for x in ast.walk(f))
    hyps = 'hyps' in ast.unparse(f)
    n+=1
    print(reg[0], cls.lineno, 'prevs' if usesprev else '-', 'hyps' if hyps else 'NOHYPS', level, '|', ' ;; '.join(r[:70] for r in rets))
print(n)
