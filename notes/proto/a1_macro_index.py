import ast, sys, os
rows=[]
for root, dirs, files in os.walk('.'):
    dirs[:] = [d for d in dirs if d not in ('node_modules','.git','app') or d=='app']
    for f in files:
        if not f.endswith('.py'): continue
        p=os.path.join(root,f)
        try: tree=ast.parse(open(p,encoding='utf-8').read())
        except Exception as e:
            print('PARSEFAIL',p,e); continue
        for node in ast.walk(tree):
            if isinstance(node, ast.ClassDef):
                regs=[]
                for d in node.decorator_list:
                    if isinstance(d, ast.Call) and getattr(d.func,'id',getattr(d.func,'attr',None))=='register_macro':
                        regs.append(d.args[0].value if isinstance(d.args[0],ast.Constant) else ast.unparse(d.args[0]))
                if not regs: continue
                meths=[n.name for n in node.body if isinstance(n, ast.FunctionDef)]
                level=None; sig=None; limit=None
                for n in ast.walk(node):
                    if isinstance(n, ast.Assign):
                        for t in n.targets:
                            if isinstance(t, ast.Attribute) and isinstance(t.value, ast.Name) and t.value.id=='self':
                                if t.attr=='level': level=ast.unparse(n.value)
                                if t.attr=='sig': sig=ast.unparse(n.value)
                                if t.attr=='limit': limit=ast.unparse(n.value)
                bases=[ast.unparse(b) for b in node.bases]
                rows.append((p,node.lineno,regs[0],node.name,bases,level,sig,limit,[m for m in meths if m in('eval','get_proof_term','can_eval','expand')]))
for r in sorted(rows): print(r)
print(len(rows))
