"""Inputs on which the UNMODIFIED project already violates C18 (each clause printed as
ACCEPTED is not valid).  Run as: cd <checkout> && PYTHONPATH=<checkout> /venv/bin/python preexisting.py"""
import sys, types, os, warnings, io, contextlib
warnings.simplefilter("ignore")
R = os.getcwd(); sys.path.insert(0, R)
smt = types.ModuleType("smt"); smt.__path__ = [R + "/smt"]; sys.modules["smt"] = smt
v = types.ModuleType("smt.veriT"); v.__path__ = [R + "/smt/veriT"]; sys.modules["smt.veriT"] = v
from logic import basic
basic.load_theory("smt")
from logic import logic
from kernel.type import IntType, RealType, BoolType, TFun
from kernel.term import Var, Int, Real, Eq, Not, Or, And, Implies, Forall, Exists, less, less_eq, greater, true, false
from kernel.theory import get_macro
from kernel.thm import Thm
from smt.veriT import verit_macro, la_generic

def try_(name, args, prevs=(), why=""):
    buf = io.StringIO()
    try:
        with contextlib.redirect_stdout(buf):
            th = get_macro(name).eval(args, list(prevs))
        print("ACCEPTED %-28s %s    [%s]" % (name, th, why))
    except Exception as e:
        print("refused  %-28s %s: %s" % (name, type(e).__name__, e))

xi, yi = Var("x", IntType), Var("y", IntType)
a, b = Var("a", IntType), Var("b", IntType)
xr, yr = Var("x", RealType), Var("y", RealType)
P = Var("P", TFun(IntType, BoolType)); P2 = Var("P2", TFun(IntType, IntType, BoolType))
p, q, r, c = [Var(n, BoolType) for n in "pqrc"]

# 1. la_generic, reals: a strict literal with coefficient 0 still makes the comparison non-strict
try_("verit_la_generic", (Not(less(RealType)(yr, Real(0))), less(RealType)(xr, Real(0)), less(RealType)(Real(0), xr),
     [Real(0), Real(1), Real(1)]), why="false at y = -1, x = 0")
# 2. unary_minus_simplify tests is_minus (binary) where --t = t needs is_uminus
try_("verit_unary_minus_simplify", (Eq(-(a - b), b),), why="false at a = 1, b = 0")
# 3. qnt_simplify: the bound variable may still occur in the 'simplified' right side
try_("verit_qnt_simplify", (Eq(Forall(xi, greater(IntType)(xi, Int(0))), greater(IntType)(xi, Int(0))),), why="false at x = 1")
# 4. qnt_rm_unused: strip_quant mixes forall and exists
try_("verit_qnt_rm_unused", (Eq(Forall(xi, P(xi)), Exists(xi, P(xi))),), why="false for P = (x = 0)")
# 5. onepoint (forall): the equation for x is only looked for, its other side is not compared with ctx[x]
try_("verit_onepoint", (Eq(Forall(xi, Implies(Eq(xi, Int(1)), P(xi))), Implies(Eq(Int(5), Int(1)), P(Int(5)))), {"x": Int(5)}),
     why="lhs is P 1, rhs is true")
# 6. onepoint (exists): 'found' is not reset per variable
try_("verit_onepoint", (Eq(Exists(xi, Exists(yi, And(Eq(xi, Int(1)), P2(xi, yi)))), And(Eq(Int(1), Int(1)), P2(Int(1), Int(7)))),
     {"x": Int(1), "y": Int(7)}), why="lhs is EX y. P2 1 y, rhs is P2 1 7")
# 7. ac_simp: compare_ac descends into tm2.arg1/arg of a plus (times) without testing that tm2 is a plus (times)
try_("verit_ac_simp", (Eq(And(p, Eq(xi + yi, Int(0))), And(p, Eq(xi - yi, Int(0)))),), why="false at p, x = 1, y = -1")
# 8. qnt_cnf: get_cnf turns ~(if P then Q else R) into (P & ~Q) | (~P & R); the last conjunct must be ~R
ite = logic.mk_if(p, q, r)
try_("verit_qnt_cnf", (Or(Not(Not(ite)), Or(p, r)),), why="false at p = q = r = false")
# 9. implies_simplify case 9 matches ((P --> Q) --> Q) --> C  for an arbitrary C
try_("verit_implies_simplify", (Eq(Implies(Implies(Implies(p, q), q), c), Or(p, q)),), why="false at p = true, c = false")
# 10. qnt_cnf: the variables quantified in the conclusion are not compared with anything: y is free in the premise
Pxy = Var("P2", TFun(IntType, IntType, BoolType))
try_("verit_qnt_cnf", (Or(Not(Forall(xi, Pxy(xi, yi))), Forall(yi, Pxy(xi, yi))),), why="premise !x. P x y has y free; take P x y := (y = 0), y = 0")
# 11. div_simplify: t / t = 1 accepted for every t, also t = 0 (HOL: 0 / 0 = 0)
try_("verit_div_simplify", (Eq(xr / xr, Real(1)),), why="false at x = 0")
# valid instances must still be accepted
print("--- valid instances")
try_("verit_unary_minus_simplify", (Eq(-(-a), a),), why="valid")
try_("verit_implies_simplify", (Eq(Implies(Implies(p, q), q), Or(p, q)),), why="valid")
try_("verit_qnt_simplify", (Eq(Forall(xi, true), true),), why="valid")
try_("verit_qnt_simplify", (Eq(Forall(xi, greater(IntType)(yi, Int(0))), greater(IntType)(yi, Int(0))),), why="valid: x does not occur")
try_("verit_onepoint", (Eq(Forall(xi, Implies(Eq(xi, Int(1)), P(xi))), Implies(Eq(Int(1), Int(1)), P(Int(1)))), {"x": Int(1)}), why="valid")
try_("verit_onepoint", (Eq(Exists(xi, Exists(yi, And(Eq(xi, Int(1)), And(Eq(yi, Int(7)), P2(xi, yi))))), And(Eq(Int(1), Int(1)), And(Eq(Int(7), Int(7)), P2(Int(1), Int(7))))),
     {"x": Int(1), "y": Int(7)}), why="valid")
try_("verit_ac_simp", (Eq(And(p, And(q, p)), And(p, q)),), why="valid")
try_("verit_qnt_cnf", (Or(Not(Forall(xi, And(P(xi), q))), Forall(xi, P(xi))),), why="valid")
try_("verit_qnt_cnf", (Or(Not(Not(ite)), Or(Not(p), Not(q))),), why="valid: ~ite gives (~p | ~q)")
try_("verit_div_simplify", (Eq(Real(3) / Real(3), Real(1)),), why="valid")
try_("verit_div_simplify", (Eq(xr / Real(1), xr),), why="valid")
try_("verit_qnt_rm_unused", (Eq(Forall(xi, Forall(yi, P(xi))), Forall(xi, P(xi))),), why="valid: y unused")
try_("verit_qnt_rm_unused", (Eq(Exists(xi, Exists(yi, P(yi))), Exists(yi, P(yi))),), why="valid: x unused")
try_("verit_qnt_rm_unused", (Eq(Forall(xi, greater(IntType)(yi, Int(0))), greater(IntType)(yi, Int(0))),), why="valid: all removed")
