"""Triage of C07.W1 reports: build each (parent, side, child) term with the kernel API at the reported
types, print it, parse the text back in a context declaring its variables, compare.
run: PYTHONPATH=/repo /venv/bin/python notes/triage/t08_w1_pairs.py"""
import warnings; warnings.simplefilter('ignore')
from kernel.type import TFun, BoolType, TVar, TConst, NatType
from kernel.term import Var, Const, Not
from logic import basic, context
from syntax import parser, printer
basic.load_theory('real')
B = BoolType
A = TVar('a')
def setT(T): return TConst('set', T)
def listT(T): return TConst('list', T)
def binop(name, T1, T2, R): return Const(name, TFun(T1, T2, R))
def un(name, T, R): return Const(name, TFun(T, R))
a, b, c = Var('a', B), Var('b', B), Var('c', B)
S = Var('S', setT(B)); T2 = Var('T', setT(B))
l = Var('l', listT(B))
xs, ys, x = Var('xs', listT(A)), Var('ys', listT(A)), Var('x', A)
SS = Var('SS', setT(setT(A))); SSS = Var('SSS', setT(setT(setT(A))))
m, n = Var('m', NatType), Var('n', NatType)
ge = binop('greater_eq', B, B, B); gt = binop('greater', B, B, B)
le_n = binop('less_eq', NatType, NatType, B); lt_n = binop('less', NatType, NatType, B)
ge_n = binop('greater_eq', NatType, NatType, B); gt_n = binop('greater', NatType, NatType, B)
mem = binop('member', B, setT(B), B)
subset = binop('subset', setT(B), setT(B), B)
cases = {
 ('uminus','arg','neg'): un('uminus', B, B)(Not(a)),
 ('greater_eq','left','neg'): ge(Not(a), b),
 ('greater_eq','left','greater_eq'): ge(ge(a, b), c),
 ('greater_eq','left','greater'): ge(gt(a, b), c),
 ('greater_eq','right','neg'): ge(a, Not(b)),
 ('greater','left','neg'): gt(Not(a), b),
 ('greater','left','greater'): gt(gt(a, b), c),
 ('greater','right','neg'): gt(a, Not(b)),
 ('append','right','cons'): binop('append', listT(A), listT(A), listT(A))(xs, binop('cons', A, listT(A), listT(A))(x, ys)),
 ('cons','left','neg'): binop('cons', B, listT(B), listT(B))(Not(a), l),
 ('member','left','neg'): mem(Not(a), S),
 ('member','left','less_eq'): mem(le_n(m, n), S),
 ('member','left','less'): mem(lt_n(m, n), S),
 ('member','left','greater_eq'): mem(ge_n(m, n), S),
 ('member','left','greater'): mem(gt_n(m, n), S),
 ('member','left','member'): mem(mem(a, S), T2),
 ('member','left','subset'): mem(subset(S, T2), Var('U', setT(B))),
 ('Union','arg','uminus'): un('Union', setT(setT(A)), setT(A))(un('uminus', setT(setT(A)), setT(setT(A)))(SS)),
 ('Inter','arg','uminus'): un('Inter', setT(setT(A)), setT(A))(un('uminus', setT(setT(A)), setT(setT(A)))(SS)),
 ('Inter','arg','Union'): un('Inter', setT(setT(A)), setT(A))(un('Union', setT(setT(setT(A))), setT(setT(A)))(SSS)),
}
vars = {'a':'bool','b':'bool','c':'bool','S':'bool set','T':'bool set','U':'bool set','l':'bool list',
        'xs':"'a list",'ys':"'a list",'x':"'a",'SS':"'a set set",'SSS':"'a set set set",'m':'nat','n':'nat'}
context.set_context('real', vars=vars)
for k, t in cases.items():
    t.checked_get_type()
    s = printer.print_term(t)
    try:
        t2 = parser.parse_term(s)
        verdict = 'round-trip OK' if t2 == t else 'DIFFERENT TERM: %r' % printer.print_term(t2)
    except Exception as e:
        verdict = 'DOES NOT PARSE (%s)' % type(e).__name__
    print('%-36s %-22s %s' % (k, s, verdict))
