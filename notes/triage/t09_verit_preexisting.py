"""Pre-existing veriT evaluation holes reported by the seeding sub-agents (ite_intro, let, la_generic with a
zero coefficient on a strict literal).  run: /venv/bin/python notes/triage/t09_verit_preexisting.py [repo]"""
import sys, types, warnings
warnings.simplefilter('ignore')
R = sys.argv[1] if len(sys.argv) > 1 else '/repo'
sys.path.insert(0, R)
m = types.ModuleType('smt'); m.__path__ = [R + '/smt']; sys.modules['smt'] = m
v = types.ModuleType('smt.veriT'); v.__path__ = [R + '/smt/veriT']; sys.modules['smt.veriT'] = v
from smt.veriT import verit_macro, la_generic
from logic import basic; basic.load_theory('smt')
from kernel.term import *; from kernel.type import *; from kernel import term as T; from kernel.proofterm import ProofTerm
P, Q, x = Var('P', BoolType), Var('Q', BoolType), Var('x', RealType)
def attempt(label, f):
    try: print('%-26s ACCEPTED  %s' % (label, f()))
    except Exception as e: print('%-26s rejected  %s %s' % (label, type(e).__name__, str(e)[:60]))
attempt('ite_intro P <--> Q', lambda: ProofTerm('verit_ite_intro', (Eq(P, Q),)).th)
attempt('la_generic zero coeff', lambda: ProofTerm('verit_la_generic', (T.less_eq(RealType)(x, Real(5)), T.less(RealType)(Real(1), Real(1)), [Real(0), Real(1)])).th)
a, b, xi = Var('a', IntType), Var('b', IntType), Var('x', IntType)
last = ProofTerm('verit_refl', (Eq(xi, b), {'x': b}))
attempt('let without premise', lambda: ProofTerm('verit_let', (Eq(T.Let(xi, a, xi), b),), [last]).th)
last2 = ProofTerm('verit_refl', (Eq(xi, a), {'x': a}))
attempt('let, justified (x = a)', lambda: ProofTerm('verit_let', (Eq(T.Let(xi, a, xi), a),), [last2]).th)
