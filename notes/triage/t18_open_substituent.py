"""Triage of C01.K10: primitive rules put a caller-supplied term under the binders of the premise without
testing that it is closed; a loose bound variable is captured.  get_type() does "minimal type checking" and
does not visit argument positions, so h (Bound 0) passes it.
 (1) a gap-free primitive-rule proof in EmptyTheory of  |- !y. (%w. h w) a = h y   (false: take h = identity)
 (2) forall_elim is not affected: subst_bound lifts the loose index, the result stays open, and the type check
     that follows every step refuses it.
Before the fix (1) is accepted; after it, refused.
run: /venv/bin/python notes/triage/t18_open_substituent.py [repo_dir]"""
import sys
sys.path.insert(0, sys.argv[1] if len(sys.argv) > 1 else '/repo')
from kernel.type import BoolType as B, TFun
from kernel.term import Var, SVar, Abs, Bound, Comb, Inst, Forall, Or, Not
from kernel.thm import Thm
from kernel.proof import Proof
from kernel import theory
from logic import basic
theory.thy = theory.EmptyTheory()
a, y, h = Var('a', B), Var('y', B), Var('h', TFun(B, B))
x = SVar('x', B)
prf = Proof()
prf.add_item(0, 'beta_conv', args=Comb(Abs('w', B, x), a))          # |- (%w. ?x) a = ?x
prf.add_item(1, 'forall_intr', args=y, prevs=[0])                   # |- !y. (%w. ?x) a = ?x
prf.add_item(2, 'substitution', args=Inst(x=h(Bound(0))), prevs=[1])
try:
    print('(1) substitution  ACCEPTED', theory.check_proof(prf, no_gaps=True))
except Exception as e:
    print('(1) substitution  rejected', type(e).__name__)
basic.load_theory('logic_base')
xv, w, v = Var('x', B), Var('w', B), Var('v', B)
valid = Thm(Forall(xv, Or(Forall(w, xv), Forall(v, Not(xv)))))      # a valid statement (x does not depend on w, v)
r = Thm.forall_elim(h(Bound(0)), valid)
try:
    r.check_thm_type()
    print('(2) forall_elim   result passes the type check')
except Exception as e:
    print('(2) forall_elim   result is open: %s, refused by the type check after the step (%s)' % (r.prop.is_open(), type(e).__name__))
print('(3) closed terms still accepted:', Thm.forall_elim(h(a), valid))
