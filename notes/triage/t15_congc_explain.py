"""Triage of C17.G4: CongClosureHOL.explain raised on every explanation that crosses a merged equation against
its direction (`pt.transitive(pt, eq_pt.symmetric())`).  Before the fix: EXC lines; after: every line OK.
run: /venv/bin/python notes/triage/t15_congc_explain.py [repo_dir]"""
import sys
sys.path.insert(0, sys.argv[1] if len(sys.argv) > 1 else '/repo')
from kernel.type import TVar, TFun
from kernel.term import Var, Eq
from prover.congc import CongClosureHOL
T = TVar('a')
a, b, c, d = [Var(n, T) for n in 'abcd']
f = Var('f', TFun(T, T))
for merges, q in [([(a, b), (b, c)], (a, c)), ([(a, b), (b, c)], (c, a)), ([(b, a), (c, b)], (a, c)), ([(a, b), (c, b)], (a, c)),
                  ([(a, b), (c, d), (b, d)], (a, c)), ([(b, a)], (f(a), f(b)))]:
    cc = CongClosureHOL()
    for s, t in merges:
        cc.merge(s, t)
    label = '%s |= %s' % (', '.join('%s = %s' % m for m in merges), '%s = %s' % q)
    try:
        pt = cc.explain(*q)
        print('%-40s %s' % (label, 'OK ' + str(pt.th) if pt.th.prop == Eq(*q) else 'WRONG ' + str(pt.th)))
    except Exception as e:
        print('%-40s EXC %s %s' % (label, type(e).__name__, e))
