from kernel.type import TVar, TFun, BoolType, NatType, RealType, TyInst
from kernel.term import *
from kernel.thm import Thm
from kernel.proof import Proof, ProofItem
from kernel import theory, extension
from logic import basic, context
from syntax import parser
basic.load_theory('real')
# C02 circular proof
prf = Proof()
prf.items.append(ProofItem(1, 'subst_type', args=TyInst(), prevs=[0], th=Thm(false)))
try:
    print('circular accepted:', theory.check_proof(prf, no_gaps=True))
except Exception as e: print('rejected', type(e), e)
# C02 checked_extend with gap / wrong statement
prf2 = Proof(); prf2.add_item(0, 'sorry', th=Thm(false))
thy = theory.thy
rep = thy.checked_extend([extension.Theorem('bogus', Thm(false), prf2)])
print('checked_extend with sorry proof: axioms reported =', rep.get_axioms(), 'installed:', thy.has_theorem('bogus'))
prf3 = Proof(); prf3.add_item(0, 'reflexive', args=true)
rep = thy.checked_extend([extension.Theorem('bogus2', Thm(false), prf3)])
print('checked_extend with unrelated proof: installed:', thy.get_theorem('bogus2'))
# C11 definition c = ~c
from server import items
it = items.parse_item({'ty':'def','name':'cbad','type':'bool','prop':'cbad <--> ~cbad'})
print('def c=~c error:', it.error)
it = items.parse_item({'ty':'def','name':'cpoly','type':'bool','prop':"cpoly <--> (!x::'a. !y::'a. x = y)"})
print('def poly error:', it.error)
it = items.parse_item({'ty':'def','name':'fz','type':'nat => nat','prop':"fz 0 = 1"})
print('def f 0 = 1 error:', it.error)
# C06
from prover import z3wrapper
context.set_context('real', vars={})
print('z3 ?n::nat. n < 0 :', z3wrapper.solve(parser.parse_term('?n::nat. n < 0')))
print('z3 ~(!n::nat. n >= 0) :', z3wrapper.solve(parser.parse_term('~(!n::nat. n >= 0)')))
from prover import sympywrapper
context.set_context('real', vars={'x':'real'})
g = parser.parse_term('~((x + 1) * (x + 1) = x * x + 2 * x + 1)')
print('sympy neq:', sympywrapper.solve_goal(g))
from integral import inequality
context.set_context('transcendentals', vars={})
g = parser.parse_term('~(sin pi = 0)')
try: print('const_inequality ~(sin pi = 0):', inequality.ConstInequalityMacro().eval(g, []))
except Exception as e: print('rej', repr(e))
g = parser.parse_term('(1::real) + 1 / 10 ^ (20::nat) <= 1')
try: print('const_inequality :', inequality.ConstInequalityMacro().eval(g, []))
except Exception as e: print('rej', repr(e))
