"""C11: a datatype constructor whose type mentions a type variable that is not a parameter of the datatype.
datatype big = Mk 'a   gives  Mk :: 'a => big  injective at every type, also at  big set : Cantor.
Before the fix: the item is accepted (error None).  After: refused."""
from logic import basic
from server import items
basic.load_theory('set')
it = items.parse_item({'ty': 'type.ind', 'name': 'c11big', 'args': [], 'constrs': [
    {'name': 'C11Mk', 'args': ['x'], 'type': "'a => c11big"}]})
print('error:', it.error)
assert it.error is not None, "constructor with a type variable outside the parameters accepted"
it2 = items.parse_item({'ty': 'type.ind', 'name': 'c11ok', 'args': ['a'], 'constrs': [
    {'name': 'C11Ok', 'args': ['x'], 'type': "'a => 'a c11ok"}]})
assert it2.error is None, it2.error
print('ok')
