"""Triage of C20.P1 for imperative/parser.py (the parser that builds HOL terms for eval_Sem / vcg): same
ambiguous expression and condition levels as parser2 had; every operator groups to the right.
Before the fix: 2 * 3 + 4 is read as 2 * (3 + 4), A & B | C as A & (B | C).  After: (2 * 3) + 4, (A & B) | C.
run: /venv/bin/python notes/triage/t21_imperative_parser.py [repo_dir]"""
import sys
sys.path.insert(0, sys.argv[1] if len(sys.argv) > 1 else '/repo')
from logic import basic
basic.load_theory('hoare')
from imperative import parser
for s in ('a := 2 * 3 + 4', 'a := 2 + 3 * 4', 'a := 1 + 2 + 3'):
    print('%-18s -> %r' % (s, parser.com_parser.parse(s)))
for s in ('a == 0 & b == 0 | c == 0', 'a == 0 | b == 0 & c == 0'):
    print('%-28s -> %s' % (s, parser.cond_parser.parse(s)))
