"""Simplex: 0 * x >= 5 is a constraint (an unsatisfiable one); 2x >= 1 after x >= 0 must not crash."""
import sys
from prover.simplex import Simplex, Jar, GreaterEq, LessEq, UNSATException, AssertUpperException, AssertLowerException
bad = 0
def run(title, ineqs, satisfiable):
    global bad
    s = Simplex(); s.add_ineqs(*ineqs) if False else None
    try:
        s = Simplex(); s.add_ineqs(*ineqs); s.handle_assertion(); got = 'SAT %s' % {k: v for k, v in s.mapping.items() if not k.startswith('$')}
    except (UNSATException, AssertUpperException, AssertLowerException) as e:
        got = 'UNSAT'
    except Exception as e:
        got = 'CRASH %s' % type(e).__name__
    ok = got.startswith('SAT') == satisfiable and not got.startswith('CRASH')
    print('%-34s -> %-28s %s' % (title, got, '' if ok else '<-- WRONG'))
    bad += not ok
run('0*x >= 5, x >= 0', [GreaterEq([Jar(0, "x")], 5), GreaterEq([Jar(1, "x")], 0)], False)
run('0*x <= -1', [LessEq([Jar(0, "x")], -1)], False)
run('0*x >= -1, x >= 2', [GreaterEq([Jar(0, "x")], -1), GreaterEq([Jar(1, "x")], 2)], True)
run('x >= 0, 2x >= 1', [GreaterEq([Jar(1, "x")], 0), GreaterEq([Jar(2, "x")], 1)], True)
run('x <= 3, 2x <= 1', [LessEq([Jar(1, "x")], 3), LessEq([Jar(2, "x")], 1)], True)
sys.exit(1 if bad else 0)
