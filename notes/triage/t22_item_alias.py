# Triage of C02.P11 (reported by a seeding sub-agent, reproduced): one ProofItem object placed at two positions; before the
# fix: ACCEPTED |- false; after: rejected. run: PYTHONPATH=/repo /venv/bin/python notes/triage/t22_item_alias.py
from kernel.type import BoolType
from kernel.term import Const, Eq, false
from kernel.thm import Thm
from kernel.proof import Proof, ProofItem
from kernel import theory
from kernel.theory import CheckProofException

theory.thy = theory.EmptyTheory()
X = ProofItem(2, "equal_elim", prevs=[1, 0], th=Thm(false))
R = ProofItem(1, "reflexive", args=false, th=Thm(Eq(false, false)))
prf = Proof()
prf.items = [X, R, X]
try:
    th = theory.check_proof(prf, no_gaps=True)
    print("ACCEPTED:", th)
except CheckProofException as e:
    print("rejected:", e.str)
