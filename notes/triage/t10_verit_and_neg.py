"""Triage of C18.R8 (AndNegMacro.eval): reported by a seeding sub-agent, reproduced here against the real code.
run: /venv/bin/python notes/triage/t10_verit_and_neg.py [repo_dir]   (before the fix: both ACCEPTED)"""
import sys, types, warnings
warnings.simplefilter('ignore')
R = sys.argv[1] if len(sys.argv) > 1 else '/repo'
sys.path.insert(0, R)
smt = types.ModuleType('smt'); smt.__path__ = [R + '/smt']; sys.modules['smt'] = smt
v = types.ModuleType('smt.veriT'); v.__path__ = [R + '/smt/veriT']; sys.modules['smt.veriT'] = v
from smt.veriT import verit_macro as vm
from kernel.type import BoolType
from kernel.term import Var, Not, And, false
from logic import basic
basic.load_theory('smt')
P, Q, R_ = (Var(n, BoolType) for n in 'PQR')

def attempt(label, f):
    try:
        print('%-40s ACCEPTED  %s' % (label, f()))
    except Exception as e:
        print('%-40s rejected  %s' % (label, type(e).__name__))

attempt('and_neg (false,)', lambda: vm.AndNegMacro().eval((false,), []))
attempt('and_neg (P & Q, ~P)', lambda: vm.AndNegMacro().eval((And(P, Q), Not(P)), []))
attempt('and_neg (P & Q, ~P, ~Q)  [valid]', lambda: vm.AndNegMacro().eval((And(P, Q), Not(P), Not(Q)), []))
attempt('and_neg (P & Q & R, ~P, ~Q, ~R)  [valid]', lambda: vm.AndNegMacro().eval((And(P, Q, R_), Not(P), Not(Q), Not(R_)), []))
attempt('and_neg (P & (Q & R), ~P, ~(Q & R))  [valid]', lambda: vm.AndNegMacro().eval((And(P, And(Q, R_)), Not(P), Not(And(Q, R_))), []))
