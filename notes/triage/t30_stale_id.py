"""apply_tactic: ids of the new lines are used after replace_id has renumbered the block."""
from kernel import theory
from logic import basic, context
from server import method, server
context.set_context('logic_base', vars={'A': 'bool', 'B': 'bool'})
state = server.parse_init_state("(A --> A) --> (A --> A) & B")
res = state.search_method('1', [])
rs = [r for r in res if r.get('theorem') == 'conjI']
method.apply_method(state, dict(rs[0]))
print(state.prf)
try:
    print('full check:', state.check_proof(), 'gaps', [str(g) for g in state.rpt.gaps])
    gaps = [str(g) for g in state.rpt.gaps]
    assert any(g.endswith('|- B') or 'B' == g.split('|- ')[-1] for g in gaps), "goal B lost: " + str(gaps)
    print("OK")
except Exception as e:
    print('FAILED:', type(e).__name__, str(e)[:200]); raise SystemExit(1)
