"""C20: Forall.subst captured a variable of the substituted expression: the weakest precondition of
`x := k` for the postcondition `forall k. x <= k` came out as `forall k. k <= k` (valid), although the
postcondition is false after the assignment.  Run: cd <checkout> && PYTHONPATH=<checkout> /venv/bin/python t24..."""
from imperative import expr
from imperative.parser2 import cond_parser, com_parser
c = com_parser.parse("x := k")
post = cond_parser.parse("forall k. x <= k")
try:
    pre = c.compute_wp(post)
    print("precondition:", pre)
    assert str(pre) != "forall k. k <= k", "the bound variable captured the assigned expression"
except NotImplementedError:
    print("refused (capture)")
# a substitution that does not touch the bound variable still works
c2 = com_parser.parse("x := y + 1")
print(c2.compute_wp(post))
