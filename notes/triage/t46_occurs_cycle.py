import signal
from logic import basic, context
from kernel.term import Var, Comb
from syntax import infertype
basic.load_theory('nat')
context.set_context('nat')
signal.alarm(10)
x,y,z = Var('x',None),Var('y',None),Var('z',None)
from kernel.term import Const
t = Comb(Comb(Const('conj',None), Comb(Comb(Const('conj',None), Comb(Var('x',None),Var('y',None))), Comb(Var('y',None),Var('z',None)))), Comb(Var('z',None),Var('x',None)))
try:
    print(infertype.type_infer(t))
except infertype.TypeInferenceException as e:
    print("TIE", e.err[:80])
