from kernel.type import TVar, TFun, BoolType, NatType, RealType
from kernel.term import *
from kernel.thm import Thm
from kernel.proof import Proof
from kernel import theory
from logic import basic
basic.load_theory('real')
# C01: forall_intr over svar in hyps
x = SVar('x', NatType)
th = Thm.assume(Eq(x, Nat(0)))
print('assume:', th)
th2 = Thm.forall_intr(x, th)
print('forall_intr svar:', th2)
# via checker
prf = Proof()
prf.add_item(0, 'assume', args=Eq(x, Nat(0)))
prf.add_item(1, 'forall_intr', args=x, prevs=[0])
print(theory.check_proof(prf, no_gaps=True))
# C03: id reuse
a = Term(Var('x', NatType))
hits = 0
for i in range(1000):
    b = Var('y%d' % i, NatType)
    if a == b:
        hits += 1
        print('EQ!', repr(a), repr(b)); break
print('hits', hits)
# C05 nat_eval on real goal
from data import nat, real, integer
g = Eq(Real(3) - Real(5), Real(0))
print(nat.nat_eval_macro().eval(g, []))
prf = Proof()
prf.add_item(0, 'nat_eval', args=g)
print('checked:', theory.check_proof(prf, no_gaps=True))
