from kernel.type import *
from kernel.term import *
from logic import basic, context
from syntax import parser, printer
context.set_context('list', vars={'xs':"'a list",'ys':"'a list",'a':"'a", 'b':'bool','l':'bool list','S':'bool set','T':'bool set', 'm':'nat','n':'nat', 'A':'nat set','B':'nat set', 'U':'nat set set'})
for src in ['xs @ (a # ys)', '(~b) # l', '(m <= n) Mem S', '(b Mem S) Mem T', '(A Sub B) Mem T', '(xs @ ys) @ xs', 'a # (xs @ ys)', '(A Un B) Un A', 'A Un (B Un A)', '(A Int B) Un A', 'A Int (B Un A)']:
    try:
        t = parser.parse_term(src); s = printer.print_term(t)
        try:
            t2 = parser.parse_term(s); ok = (t == t2)
        except Exception as e: ok = 'REPARSE-FAIL %s' % type(e).__name__
        print('%-22s => %-22s %s' % (src, s, ok))
    except Exception as e: print(src, 'ERR', type(e).__name__, str(e)[:80])
