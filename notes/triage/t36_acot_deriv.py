"""deriv of acot: Python's ^ binds looser than +, so Const(1) + x ^ Const(2) is (1 + x)^2."""
import math, sys
from integral import parser, rules
from integral.expr import eval_expr
e = parser.parse_expr("acot(x)")
from integral.context import Context
d = rules.deriv("x", e, Context())
print('D x. acot(x) =', d)
x0 = 2.0
got = eval_expr(d.subst("x", parser.parse_expr("2")))
want = -1.0 / (1 + x0 * x0)
print('at x = 2: %s, expected %s' % (got, want))
sys.exit(0 if abs(float(got) - want) < 1e-9 else 1)
