"""Triage of C18.R9 (premise / literal taken apart without a test of its head connective): one invalid step
per flagged evaluator, run against the real code.  Before the fixes every line prints ACCEPTED with an
invalid sequent (a falsifying assignment is given in the comment); after them: rejected.
run: /venv/bin/python notes/triage/t11_verit_shapes.py [repo_dir]"""
import sys, types, warnings
warnings.simplefilter('ignore')
R = sys.argv[1] if len(sys.argv) > 1 else '/repo'
sys.path.insert(0, R)
smt = types.ModuleType('smt'); smt.__path__ = [R + '/smt']; sys.modules['smt'] = smt
v = types.ModuleType('smt.veriT'); v.__path__ = [R + '/smt/veriT']; sys.modules['smt.veriT'] = v
from smt.veriT import verit_macro as vm
from kernel.type import BoolType, TFun, TConst
from kernel.term import Var, Not, And, Or, Eq, Implies
from kernel.thm import Thm
from logic import basic
basic.load_theory('smt')
A, B, P, Q, X, Y, Z = (Var(n, BoolType) for n in 'ABPQXYZ')
T = TConst('nat')
x, y = Var('x', T), Var('y', T)
p = Var('p', TFun(T, BoolType))
n_acc = 0

def attempt(label, f):
    global n_acc
    try:
        r = f()
        n_acc += 1
        print('%-34s ACCEPTED  %s' % (label, r))
    except Exception as e:
        print('%-34s rejected  %s' % (label, type(e).__name__))

attempt('not_or premise P & (A | B)', lambda: vm.NotOrMacro().eval([Not(A)], [Thm(And(P, Or(A, B)))]))                # P=A=T
attempt('not_or goal Q & A', lambda: vm.NotOrMacro().eval([And(Q, A)], [Thm(Not(Or(A, B)))]))                        # A=B=F
attempt('not_and premise P | (A & B)', lambda: vm.NotAndMacro().eval([Not(A), Not(B)], [Thm(Or(P, And(A, B)))]))      # A=B=T
attempt('not_not X | Y | Z | P', lambda: vm.NotNotMacro().eval([Or(X, Or(Y, Or(Z, P))), P]))                          # all F
attempt('implies premise A | B', lambda: vm.VeritImpliesMacro().eval([Not(A), B], [Thm(Or(A, B))]))                   # A=T, B=F
attempt('and_pos Q | (A & B)', lambda: vm.VeriTAndPos().eval([Or(Q, And(A, B)), A]))                                   # all F
attempt('or_pos Q & (A | B)', lambda: vm.VeriTOrPos().eval([And(Q, Or(A, B)), A, B]))                                  # all F
attempt('not_equiv2 premise X & (A | B)', lambda: vm.VeriTNotEquiv1().eval([Not(A), Not(B)], [Thm(And(X, Or(A, B)))]))   # (class name reused for not_equiv2) X=A=B=T
attempt('not_equiv2 literals Q & A, P & B', lambda: vm.VeriTNotEquiv1().eval([And(Q, A), And(P, B)], [Thm(Not(Eq(A, B)))]))   # A=T, B=F, Q=F
attempt('equiv2 premise A | B', lambda: vm.Equiv1Macro().eval([A, Not(B)], [Thm(Or(A, B))]))             # equiv2 (class name reused): A=F, B=T
attempt('equiv_pos1 ~(A | B)', lambda: vm.EquivPos1().eval([Not(Or(A, B)), A, Not(B)]))                               # A=F, B=T
attempt('equiv_pos1 Q & (A <-> B)', lambda: vm.EquivPos1().eval([And(Q, Eq(A, B)), A, Not(B)]))                       # Q=F, A=F, B=T
attempt('equiv_pos2 ~(A | B)', lambda: vm.EquivPos2().eval([Not(Or(A, B)), Not(A), B]))                               # A=T, B=F
attempt('eq_congruent_pred Q & x = y', lambda: vm.EqCongurentPredMacro().eval([And(Q, Eq(x, y)), Not(p(x)), p(y)], []))   # Q=F, x != y, p x, ~p y
# the two classes whose names are reused are reached through the macro registry
from kernel import theory
attempt('not_equiv1 premise ~(A & B)  [registry]', lambda: theory.get_macro('verit_not_equiv1').eval([A, B], [Thm(Not(And(A, B)))]))   # A=B=F
attempt('equiv1 premise A | B  [registry]', lambda: theory.get_macro('verit_equiv1').eval([Not(A), B], [Thm(Or(A, B))]))              # A=T, B=F
print('accepted:', n_acc)
print('--- valid instances (must be ACCEPTED before and after)')
attempt('not_or', lambda: vm.NotOrMacro().eval([Not(A)], [Thm(Not(Or(A, B)))]))
attempt('not_and', lambda: vm.NotAndMacro().eval([Not(A), Not(B)], [Thm(Not(And(A, B)))]))
attempt('not_not', lambda: vm.NotNotMacro().eval([Not(Not(Not(P))), P]))
attempt('implies', lambda: vm.VeritImpliesMacro().eval([Not(A), B], [Thm(Implies(A, B))]))
attempt('and_pos', lambda: vm.VeriTAndPos().eval([Not(And(A, B)), A]))
attempt('or_pos', lambda: vm.VeriTOrPos().eval([Not(Or(A, B)), A, B]))
attempt('not_equiv1', lambda: theory.get_macro('verit_not_equiv1').eval([A, B], [Thm(Not(Eq(A, B)))]))
attempt('not_equiv2', lambda: theory.get_macro('verit_not_equiv2').eval([Not(A), Not(B)], [Thm(Not(Eq(A, B)))]))
attempt('equiv1', lambda: theory.get_macro('verit_equiv1').eval([Not(A), B], [Thm(Eq(A, B))]))
attempt('equiv2', lambda: theory.get_macro('verit_equiv2').eval([A, Not(B)], [Thm(Eq(A, B))]))
attempt('equiv_pos1', lambda: vm.EquivPos1().eval([Not(Eq(A, B)), A, Not(B)]))
attempt('equiv_pos2', lambda: vm.EquivPos2().eval([Not(Eq(A, B)), Not(A), B]))
attempt('eq_congruent_pred', lambda: vm.EqCongurentPredMacro().eval([Not(Eq(x, y)), Not(p(x)), p(y)], []))
