"""Triage of C20.P4: ArrayElt.subst / Field.subst return self, so an assignment to the index variable (or to
the array variable) leaves array accesses in the postcondition untouched.
{?} i := i + 1 {a[i] == 0}: the precondition must be a[i + 1] == 0; before the fix it is a[i] == 0, and the
triple {a[i] == 0} i := i + 1 {a[i] == 0} gets the trivial condition a[i] == 0 --> a[i] == 0.
run: /venv/bin/python notes/triage/t20_array_subst.py [repo_dir]"""
import sys
sys.path.insert(0, sys.argv[1] if len(sys.argv) > 1 else '/repo')
from imperative import parser2
c = parser2.com_parser.parse("i := i + 1")
post = parser2.cond_parser.parse("a[i] == 0")
print('wp(i := i + 1, a[i] == 0)        =', c.compute_wp(post))
c2 = parser2.com_parser.parse("a := b")
post2 = parser2.cond_parser.parse("a.length == n & a[0] == 1")
print('wp(a := b, a.length == n & a[0] == 1) =', c2.compute_wp(post2))
