"""Triage of C18.R10 / C04.M10 (verit_eq_simplify): reported by a seeding sub-agent, reproduced here.
Alethe eq_simplify: (t = t) <-> true; (t1 = t2) <-> false for different numerals; ~(t = t) <-> false.
run: /venv/bin/python notes/triage/t13_verit_eq_simplify.py [repo_dir]"""
import sys, types, warnings
warnings.simplefilter('ignore')
R = sys.argv[1] if len(sys.argv) > 1 else '/repo'
sys.path.insert(0, R)
smt = types.ModuleType('smt'); smt.__path__ = [R + '/smt']; sys.modules['smt'] = smt
v = types.ModuleType('smt.veriT'); v.__path__ = [R + '/smt/veriT']; sys.modules['smt.veriT'] = v
from smt.veriT import verit_macro as vm
from kernel.type import IntType
from kernel.term import Var, Not, Eq, false, true, Int
from logic import basic
basic.load_theory('smt')
x, y = Var('x', IntType), Var('y', IntType)

def attempt(label, f):
    try:
        print('%-46s ACCEPTED  %s' % (label, f()))
    except Exception as e:
        print('%-46s rejected  %s' % (label, type(e).__name__))

m = vm.EqSimplifyMacro()
attempt('~(x = y) <--> false        (invalid: x != y)', lambda: m.eval([Eq(Not(Eq(x, y)), false)]))
attempt('(x = y) <--> false         (invalid: x = y)', lambda: m.eval([Eq(Eq(x, y), false)]))
attempt('(1 + 1 = 2) <--> false     (invalid)', lambda: m.eval([Eq(Eq(Int(1) + Int(1), Int(2)), false)]))
attempt('~(x = x) <--> false        [valid]', lambda: m.eval([Eq(Not(Eq(x, x)), false)]))
attempt('(1 = 2) <--> false         [valid]', lambda: m.eval([Eq(Eq(Int(1), Int(2)), false)]))
attempt('(x = x) <--> true          [valid]', lambda: m.eval([Eq(Eq(x, x), true)]))
