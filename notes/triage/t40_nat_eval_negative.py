"""nat_eval: -(3::nat) is not a numeral of a natural number."""
import sys
from logic import basic
basic.load_theory('real')
from kernel.term import Nat, Eq, Not
from kernel.type import NatType
from kernel import term, theory
from kernel.proofterm import ProofTerm
bad = 0
neg3 = term.uminus(NatType)(Nat(3))
for goal in [Eq(term.plus(NatType)(neg3, Nat(3)), Nat(0)), Eq(neg3, Nat(0))]:
    try:
        th = theory.get_macro('nat_eval').eval(goal, [])
        print('accepted:', th); bad += 1
    except Exception as e:
        print('refused :', goal, '(%s)' % type(e).__name__)
for goal in [Eq(term.plus(NatType)(Nat(2), Nat(3)), Nat(5)), Eq(term.minus(NatType)(Nat(2), Nat(3)), Nat(0))]:
    print('still accepted:', theory.get_macro('nat_eval').eval(goal, []))
sys.exit(1 if bad else 0)
