"""Triage of the veriT evaluation findings (F18a zip truncation, F18b dropped hypotheses) against the
real code.  smt.veriT is shadowed by the PyPI package `smt`; module stubs make it importable here.
run: /venv/bin/python notes/triage/t07_verit_eval.py [repo_dir]"""
import sys, types, warnings
warnings.simplefilter('ignore')
R = sys.argv[1] if len(sys.argv) > 1 else '/repo'
sys.path.insert(0, R)
smt = types.ModuleType('smt'); smt.__path__ = [R + '/smt']; sys.modules['smt'] = smt
v = types.ModuleType('smt.veriT'); v.__path__ = [R + '/smt/veriT']; sys.modules['smt.veriT'] = v
from smt.veriT import verit_macro as vm
from kernel.type import BoolType, TFun, TConst
from kernel.term import Var, Not, And, Or, Eq, Implies, Const
from kernel.thm import Thm
from logic import basic
from data import list as hol_list
basic.load_theory('smt')
a, b, c, h = (Var(n, BoolType) for n in 'abch')
T = TConst('nat')
x1, x2, x3, y1, y2, z3 = (Var(n, T) for n in ('x1', 'x2', 'x3', 'y1', 'y2', 'z3'))

def attempt(label, f):
    try:
        print('%-28s ACCEPTED  %s' % (label, f()))
    except Exception as e:
        print('%-28s rejected  %s %s' % (label, type(e).__name__, e))

# F18a: not(a & b) gives not(a) alone
attempt('not_and truncation', lambda: vm.NotAndMacro().eval([Not(a)], [Thm(Not(And(a, b)))]))
# F18a: third argument pair never compared
p = Var('p', TFun(T, T, T, BoolType))
attempt('eq_congruent_pred truncation', lambda: vm.EqCongurentPredMacro().eval(
    [Not(Eq(x1, y1)), Not(Eq(x2, y2)), Not(p(x1, x2, x3)), p(y1, y2, z3)], []))
# F18a: distinct [x1,x2,x3] identified with distinct [x1,x2]
d = lambda *xs: Const('distinct', TFun(hol_list.ListType(T), BoolType))(hol_list.mk_literal_list(list(xs), T))
attempt('compare_sym_tm distinct', lambda: vm.compare_sym_tm(d(x1, x2, x3), d(x1, x2)))
# F18b: hypotheses of the premise dropped
attempt('not_implies1 hyps', lambda: vm.NotImplies1Macro().eval([a], [Thm(Not(Implies(a, b)), h)]))
attempt('not_implies2 hyps', lambda: vm.NotImplies2Macro().eval([Not(b)], [Thm(Not(Implies(a, b)), h)]))
attempt('imp_to_or hyps', lambda: vm.ImpEqToMacro().eval([Not(a), Or(Not(a), b)], [Thm(b, a, h)]))
attempt('subproof hyps', lambda: vm.SubProofMacro().eval([Not(a), b], [Thm(a, a), Thm(b, a, h)]))
