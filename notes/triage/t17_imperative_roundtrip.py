"""Triage of C20.P1 / P2: conditions are printed by Op.__str__ and read by parser2.cond_parser.
Before the fixes the expression grammar was ambiguous (every operator grouped to the right, whatever its
precedence) and the printer bracketed only sums under products: DIFF lines.  After: all SAME.
run: /venv/bin/python notes/triage/t17_imperative_roundtrip.py [repo_dir]"""
import sys
sys.path.insert(0, sys.argv[1] if len(sys.argv) > 1 else '/repo')
from imperative import parser2, expr as E
a, b, c = E.Var('a'), E.Var('b'), E.Var('c')
print('reading:')
for s in ('a * b + c == 0', 'a - b - c == 0', '-a + b == 0'):
    print('  %-18s -> %r' % (s, parser2.cond_parser.parse(s)))
A, B, C = E.Op('==', a, b), E.Op('<', a, c), E.Op('<=', b, c)
tests = [E.Op('==', E.Op('-', E.Op('-', a, b), c), E.Const(0)), E.Op('==', E.Op('-', a, E.Op('+', b, c)), E.Const(0)),
         E.Op('==', E.Op('+', E.Op('*', a, b), c), E.Const(0)), E.Op('==', E.Op('-', E.Op('+', a, b)), E.Const(0)),
         E.Op('-->', E.Op('-->', A, B), C), E.Op('&', E.Op('|', A, B), C), E.Op('&', E.Op('&', A, B), C), E.Op('~', E.Op('&', A, B)),
         E.Op('-->', A, E.Op('-->', B, C)), E.Op('|', A, E.Op('&', B, C))]
print('printing and reading back:')
n_bad = 0
for t in tests:
    s = str(t)
    try:
        r = parser2.cond_parser.parse(s)
    except Exception as e:
        r = 'EXC ' + type(e).__name__
    same = r == t
    n_bad += not same
    print('  %-34s %s' % (s, 'SAME' if same else 'DIFF  printed from %r, read as %r' % (t, r)))
print('different:', n_bad)
