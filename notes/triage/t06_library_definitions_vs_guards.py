import json, os
from logic import basic
from kernel import theory
from kernel.term import Const
from server import items
basic.load_metadata()
names = sorted(basic.theory_cache['master'], key=lambda n: basic.theory_cache['master'][n]['order'])
bad = []
ndef = 0
for name in names:
    try:
        cache = basic.load_theory_cache(name)
    except Exception as e:
        print('LOADFAIL', name, type(e).__name__, str(e)[:60]); continue
    for it in cache['content']:
        if it.ty == 'def' and it.error is None:
            ndef += 1
            f, args = it.prop.lhs.strip_comb()
            nonvar = [a for a in args if not a.is_var()]
            rhs = it.prop.rhs
            selfref = [c for c in rhs.get_consts() if c.name == it.name]
            Ttv = set(it.type.get_tvars())
            rtv = set()
            def coll(t):
                if t.is_var() or t.is_const():
                    rtv.update(t.T.get_tvars())
                elif t.is_comb(): coll(t.fun); coll(t.arg)
                elif t.is_abs(): rtv.update(t.var_T.get_tvars()); coll(t.body)
            coll(rhs)
            extra = rtv - Ttv
            if nonvar or selfref or extra:
                bad.append((name, it.name, 'nonvar' if nonvar else '', 'selfref' if selfref else '', 'extra-tvars %s' % extra if extra else ''))
print('definitions', ndef)
for b in bad: print(b)
