"""C15: tseitin.encode named its auxiliary variables x1, x2, ... without looking at the atoms of the formula:
for a & ~x1 (an atom called x1) the CNF was unsatisfiable although the formula is satisfiable."""
import itertools
from kernel.type import BoolType
from kernel.term import Var, And, Not
from logic import basic
from prover import tseitin, sat
basic.load_theory('sat')
a, x1 = Var('a', BoolType), Var('x1', BoolType)
t = And(a, Not(x1))
pt = tseitin.encode(t)
cnf = tseitin.convert_cnf(pt.prop)
res = sat.solve_cnf(cnf)
print('hyps:', [str(h) for h in pt.hyps])
print('cnf verdict:', res[0])
assert res[0] == 'satisfiable', "a & ~x1 is satisfiable, its Tseitin CNF is not"
