"""The constants true and false are not atoms: the CNF of `false` must be unsatisfiable."""
import itertools, sys
from kernel.type import BoolType
from kernel.term import Var, And, Or, Not, Implies, Eq, true, false
from logic import basic
basic.load_theory('sat')
from prover import tseitin, sat, proofrec

def value(t, env):
    if t == true: return True
    if t == false: return False
    if t.is_var(): return env[t.name]
    if t.is_not(): return not value(t.arg, env)
    if t.is_conj(): return value(t.arg1, env) and value(t.arg, env)
    if t.is_disj(): return value(t.arg1, env) or value(t.arg, env)
    if t.is_implies(): return (not value(t.arg1, env)) or value(t.arg, env)
    if t.is_equals(): return value(t.arg1, env) == value(t.arg, env)
    raise ValueError(t)

a, b = Var('a', BoolType), Var('b', BoolType)
bad = 0
for F in [false, And(a, false), Not(true), Or(a, true), Implies(false, a), And(a, Not(a)), Eq(a, false), And(Eq(a, true), Not(a)), Or(And(a, true), b)]:
    vs = sorted(v.name for v in F.get_vars())
    satisfiable = any(value(F, dict(zip(vs, vals))) for vals in itertools.product([False, True], repeat=len(vs)))
    cnf = tseitin.convert_cnf(tseitin.encode(F).prop)
    res, _ = sat.solve_cnf(cnf)
    ok = (res == 'satisfiable') == satisfiable
    print('%-22s formula %-13s cnf %-13s %s' % (F, 'satisfiable' if satisfiable else 'unsatisfiable', res, '' if ok else '  <-- NOT EQUISATISFIABLE'))
    bad += not ok
for F in [Implies(false, a), Or(a, true), Not(And(a, false))]:
    try:
        th = proofrec.solve_cnf(F).th
        ok = th.prop == F and not th.hyps
        print('solve_cnf(%s) -> %s' % (F, th))
    except Exception as e:
        ok = False
        print('solve_cnf(%s) FAILED: %s %s' % (F, type(e).__name__, e))
    bad += not ok
sys.exit(1 if bad else 0)
