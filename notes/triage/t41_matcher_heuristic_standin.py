from kernel.type import TFun, STVar, NatType
from kernel.term import Term, Var, SVar, Const, Abs, Bound, Inst
from logic import basic, context
from logic.matcher import first_order_match, MatchException

def show(pat, t):
    try:
        res = first_order_match(pat, t)
    except MatchException:
        print("no match:", pat, "~", t); return
    got = pat.subst_type(res.tyinst).subst(res).beta_norm()
    print("pat: %s | t: %s | inst: [%s] | instantiated pat: %s | %s" % (
        pat, t, res, got, "OK" if got == t.beta_norm() else "WRONG"))

context.set_context('nat', vars={"x": "nat", "F": "(nat => nat) => nat", "g": "nat => nat => nat", "r": "nat => nat"},
                    svars={"y": "nat", "f": "nat => nat", "m": "nat => nat"})
# 1. stand-in for the bound variable is chosen without looking at what is already instantiated
show(Term("?y + F (%x. ?y)"), Term("x + F (%z. z)"))
# 2. heuristic branch lets the bound variable escape through t.fun
show(Term("%x. ?f (?m x + 1)"), Term("%x. g x (r x + 1)"))
# 3. heuristic branch with a head variable applied to two arguments
nat = NatType
a, b, c = STVar('a'), STVar('b'), STVar('c')
f = SVar('f', TFun(a, b, c))
h = Var('h', TFun(nat, nat, nat, nat))
show(f(SVar('x', a), SVar('y', b)), h(Var('c', nat), Var('d', nat)))
