"""C16: branch_and_bound pruned a branch on *any* exception (bare except): an internal KeyError was taken for
"this branch has no rational solution", and 2x >= 5 was answered "no integer solution" although x = 3 works."""
from prover.simplex import Simplex, GreaterEq, LessEq, Jar, branch_and_bound, IntSimplexTree
s = Simplex()
s.add_ineqs(GreaterEq([Jar(2, 'x')], 5))
try:
    r = branch_and_bound(s, [], [])
except KeyError as e:
    print('internal error surfaces (no verdict):', repr(e))
else:
    print('result:', r if not isinstance(r, IntSimplexTree) else 'UNSAT tree')
    assert not isinstance(r, IntSimplexTree), "2x >= 5 has the integer solution x = 3"
