"""nat_const_ineq / nat_const_less_eq: evaluation must not claim a statement about other number types."""
import sys
from logic import basic
basic.load_theory('real')
from kernel.term import Int, Real, Nat, Eq, Not
from kernel import theory
bad = 0
for name, goal in [('nat_const_ineq', Not(Eq(Real(2), Real(3)))), ('nat_const_ineq', Not(Eq(Int(2), Int(3)))), ('nat_const_less_eq', Real(2) <= Real(3)),
                   ('nat_const_ineq', Not(Eq(Nat(2), Nat(3)))), ('nat_const_less_eq', Nat(2) <= Nat(3))]:
    m = theory.get_macro(name)
    try:
        ev = m.eval(goal, [])
    except AssertionError:
        print('%-18s %-22s evaluation refuses' % (name, goal)); continue
    try:
        ex = m.get_proof_term(goal, []).th
    except Exception as e:
        ex = 'EXCEPTION ' + type(e).__name__
    ok = not isinstance(ex, str) and ev == ex
    print('%-18s %-22s evaluation %s ; expansion %s%s' % (name, goal, ev, ex, '' if ok else '   <-- DIFFERENT'))
    bad += not ok
sys.exit(1 if bad else 0)
