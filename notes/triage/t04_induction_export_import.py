from logic import basic, context
from kernel import theory
from syntax import parser, printer
from server import server, method
context.set_context('nat', vars={'n':'nat'})
state = server.parse_init_state('n + 0 = n')
method.apply_method(state, {'method_name':'induction','goal_id':'0','theorem':'nat_induct','var':'n'})
lines = state.export_proof()
for l in lines[:6]: print(l['id'], l['rule'], '|', l['args'])
try:
    st2 = server.parse_proof(lines); print('reimport ok')
except Exception as e:
    print('reimport failed:', type(e).__name__, e)
