from kernel.type import TVar, TFun, BoolType, NatType, RealType, TConst
from kernel.term import *
from logic import basic, context
from syntax import parser, printer
basic.load_theory('set')
a = Var('a', BoolType); S = Var('S', TConst('set', BoolType))
context.set_context('real', vars={'a':'bool','S':'bool set', 'm':'nat','n':'nat','f':'nat=>nat'})
if True:
    t = Const('member', TFun(BoolType, TConst('set',BoolType), BoolType))(Not(a), S)
    s = printer.print_term(t); print(s)
    t2 = parser.parse_term(s); print(repr(t2)); print(t2 == t)
    for src in ['(m - n) - n', 'm - (n - n)', '(m ^ n) ^ n', 'm ^ (n ^ n)', '-(m::int)', '(m + n) * n', 'f (m) + n', '(a & a) & a', '(a --> a) --> a', '(a <--> a) <--> a', 'a <--> (a <--> a)','(m = n) = (n = m)', '~(m < n)', '~a <--> a', '(~a) <--> a']:
        t = parser.parse_term(src); s = printer.print_term(t); t2 = parser.parse_term(s)
        print(src, '=>', s, t == t2)
