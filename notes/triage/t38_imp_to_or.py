"""imp_to_or: the expansion must prove the sequent the evaluation reports."""
import sys, types, os; R = os.getcwd(); sys.path.insert(0, R)
smt = types.ModuleType('smt'); smt.__path__ = [R + '/smt']; sys.modules['smt'] = smt
v = types.ModuleType('smt.veriT'); v.__path__ = [R + '/smt/veriT']; sys.modules['smt.veriT'] = v
from logic import basic; basic.load_theory('smt')
from smt.veriT import verit_macro
from kernel.type import BoolType
from kernel.term import Var, Or, Not
from kernel.thm import Thm
from kernel.proofterm import ProofTerm
from kernel import theory
a, b, c = [Var(n, BoolType) for n in 'abc']
prem = ProofTerm.sorry(Thm(c, a, b))
goal = Or(Not(a), Not(b), c)
args = [Not(a), Not(b), goal]
m = theory.get_macro('imp_to_or')
ev = m.eval(args, [prem.th])
try:
    ex = m.get_proof_term(args, [prem]).th
except Exception as e:
    ex = 'EXCEPTION %s %s' % (type(e).__name__, e)
print('evaluation:', ev); print('expansion :', ex)
sys.exit(0 if ev == ex else 1)
