"""A loop followed by another command: the ';' of the sequence must not land on the text of a verification condition."""
import sys
from logic import basic
basic.load_theory('hoare')
from imperative import parser2, expr
from kernel.type import NatType
prog = parser2.com_parser.parse("while (0 < a) { [0 <= a] a := a - 1 }; b := a")
prog.pre = [expr.true]
prog.compute_wp(parser2.cond_parser.parse("b == 0"))
vcs = prog.get_vcs({'a': 'int', 'b': 'int'})
bad = 0
for s in vcs:
    try:
        parser2.cond_parser.parse(s); print('re-parses :', s)
    except Exception as e:
        print('DOES NOT RE-PARSE:', repr(s)); bad += 1
print('\n'.join(prog.print_com({'a': 'int', 'b': 'int'})))
sys.exit(1 if bad else 0)
