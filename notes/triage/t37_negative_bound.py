"""Bound(-1): Python indexes the list of binder types from the end, so the term type-checks and is 'closed'."""
import sys
from kernel.type import BoolType, TFun
from kernel.term import Var, Bound, Abs, Comb
from kernel.thm import Thm
from kernel.proof import Proof
from kernel.theory import EmptyTheory
from kernel import theory as T
thy = EmptyTheory()
bad = 0
t = Abs('x', BoolType, Abs('y', BoolType, Bound(-1)))
a = Var('a', BoolType)
try:
    print('type of %%x. %%y. Bound(-1):', t.checked_get_type(), ' is_open:', t.is_open()); bad += 1
except Exception as e:
    print('refused:', type(e).__name__, e)
prf = Proof()
prf.add_item(0, 'beta_conv', args=Comb(t, a))
try:
    with T.fresh_theory():
        T.thy = thy
        th = thy.check_proof(prf, no_gaps=True)
    print('checker accepted', th); bad += 1
except Exception as e:
    print('checker refused:', type(e).__name__, str(e)[:80])
sys.exit(1 if bad else 0)
