import sys, types, os; R = os.getcwd(); sys.path.insert(0, R)
smt = types.ModuleType('smt'); smt.__path__ = [R + '/smt']; sys.modules['smt'] = smt
v = types.ModuleType('smt.veriT'); v.__path__ = [R + '/smt/veriT']; sys.modules['smt.veriT'] = v
from logic import basic; basic.load_theory('smt')
from smt.veriT import verit_macro, la_generic, proof_rec, command
from kernel.term import Var, Eq, Not, Or, And, Int, Real, IntType, RealType, BoolType, true, false
from kernel.type import TFun, TConst
from kernel import term as T
from kernel.proofterm import ProofTerm
from kernel import theory
from logic import logic

def ev(name, args, prevs=()):
    return theory.get_macro(name).eval(args, prevs)

# 1. la_generic zero coefficients (real)
x = Var('x', RealType); y = Var('y', RealType)
try:
    print('la_generic zero coeffs:', ev('verit_la_generic', (T.less_eq(RealType)(x, Real(0)), T.less_eq(RealType)(y, Real(0)), [Real(0), Real(0)])))
except Exception as e:
    print('la_generic rejected:', type(e), e)
try:
    print('la_generic zero coeff strict:', ev('verit_la_generic', (T.less_eq(RealType)(x, Real(0)), T.less(RealType)(y, y), [Real(0), Real(1)])))
except Exception as e:
    print('la_generic rejected:', type(e), e)

# 2. ite_simplify case 7 without r_P check
P = Var('P', BoolType); Q = Var('Q', BoolType)
a = Var('a', IntType); b = Var('b', IntType); c = Var('c', IntType)
g = Eq(logic.mk_if(P, logic.mk_if(P, a, b), c), logic.mk_if(Q, a, c))
try:
    print('ite_simplify:', ev('verit_ite_simplify', (g,)))
except Exception as e:
    print('ite_simplify rejected:', type(e), e)

# 3. bind: variable of rhs free in lhs
from kernel.term import Forall, Exists, Implies
xi = Var('x', IntType); yi = Var('y', IntType)
le = T.less_eq(IntType)
try:
    p_refl = ProofTerm('verit_refl', (Eq(xi, yi), {'x': yi}), [])
    p_cong = ProofTerm('verit_cong', (Eq(le(xi, yi), le(yi, yi)),), [p_refl])
    print('premise of bind:', p_cong.th)
    p_bind = ProofTerm('verit_bind', (Eq(Forall(xi, le(xi, yi)), Forall(yi, le(yi, yi))), {'x': yi}), [p_cong])
    print('bind:', p_bind.th)
except Exception as e:
    print('bind rejected:', type(e), e)
