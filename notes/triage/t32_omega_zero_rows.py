"""Rows without variables are constraints too: 0 <= -2 is false."""
from prover import omega
import sys
bad = 0
for m, want in [([[0, -2], [1, -1]], 'UNSAT'), ([[0, 0, -1], [1, 0, 0]], 'UNSAT'), ([[0, 3], [1, -1]], 'SAT'), ([[0, -1]], 'UNSAT'), ([[0, 1]], 'SAT')]:
    try:
        r = omega.solve_matrix(m)
        got = r[0]
    except Exception as e:
        got = 'EXC ' + type(e).__name__
    print(m, '->', got, '(want %s)' % want)
    if got != want:
        bad += 1
sys.exit(1 if bad else 0)
