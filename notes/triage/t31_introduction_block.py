"""introduction: find_goal is run on every line of the new block (assume lines, the closing intros line), and the block is
modified while it is iterated."""
from logic import basic, context
from server import method, server
import sys
bad = 0
for title, steps in [
  ("B3 introduction removes the last line of the subproof", [
    {'method_name': 'cut', 'goal_id': '0', 'goal': 'A --> B'},
    {'method_name': 'cut', 'goal_id': '1', 'goal': 'A --> B'},
    {'method_name': 'introduction', 'goal_id': '1', 'names': ''}]),
  ("B4 introduction replaces assume A by a fact |- A", [
    {'method_name': 'cut', 'goal_id': '0', 'goal': 'A'},
    {'method_name': 'cut', 'goal_id': '1', 'goal': 'A --> B'},
    {'method_name': 'introduction', 'goal_id': '1', 'names': ''}])]:
    context.set_context('logic_base', vars={'A': 'bool', 'B': 'bool', 'C': 'bool'})
    state = server.parse_init_state("C")
    try:
        for s in steps:
            method.apply_method(state, dict(s))
        print(state.prf)
        print(title, '->', state.check_proof())
    except Exception as e:
        print(title, '-> FAILED', type(e).__name__, str(e)[:120].replace('\n', ' / ')); bad += 1
sys.exit(1 if bad else 0)
