"""Triage of C16.O1: the Omega test divided integers through floating point and the simplex branch-and-bound
tested integrality through float().  A factoid [a1..an, c] means a.x + c >= 0.
Before the fixes: the large instance is answered SAT with a witness that violates a constraint, and the
half-integral vertex counts as integer.  After: satisfies all / False.
run: /venv/bin/python notes/triage/t16_omega_float.py [repo_dir]"""
import sys
sys.path.insert(0, sys.argv[1] if len(sys.argv) > 1 else '/repo')
from prover.omega import solve_matrix
from prover.simplex import Simplex, Jar, GreaterEq, LessEq

def check(label, matrix):
    status, res = solve_matrix(matrix)
    if status == 'SAT':
        bad = [f for f in matrix if sum(c * res.get(i, 0) for i, c in enumerate(f[:-1])) + f[-1] < 0]
        print('%-32s %s %s -> %s' % (label, status, dict(res), 'satisfies all' if not bad else 'VIOLATES %s' % bad))
    else:
        print('%-32s %s' % (label, status))

for A in (100, 2 ** 60 + 1):
    check('x = A, A <= 3y <= A + 2; A = %d' % A, [[1, 0, -A], [-1, 0, A], [-1, 3, 0], [1, -3, 2]])
for N in (7, 2 ** 60 + 1):
    s = Simplex()
    s.add_ineqs(GreaterEq([Jar(2, 'x'), Jar(1, 'y')], N), LessEq([Jar(2, 'x'), Jar(1, 'y')], N), GreaterEq([Jar(1, 'y')], 0), LessEq([Jar(1, 'y')], 0))
    s.handle_assertion()
    print('2x = %d: x = %s, all_integer -> %s' % (N, s.mapping['x'], s.all_integer()))
