"""Z3 bridge: comparisons decided by Python instead of the solver; one constant for two variables. SymPy: nat arithmetic."""
import sys
from fractions import Fraction
from kernel.type import TFun, NatType, IntType, RealType, BoolType
from kernel.term import Var, Eq, Not, Or, Nat, Int, Real, Const
from kernel import term
from logic import basic
basic.load_theory('real')
from prover import z3wrapper, sympywrapper
from syntax import parser
from logic import context
bad = 0
def z3case(title, t, valid):
    global bad
    got = z3wrapper.solve(t)
    flag = '' if (not got or valid) else '   <-- INVALID GOAL ACCEPTED'
    print('z3   %-45s valid=%-5s accepted=%-5s%s' % (title, valid, got, flag))
    bad += bool(flag)
context.set_context('real', vars={'f': 'nat => nat', 'g': 'nat => nat', 'x': 'int'})
z3case('~((2::real) / 6 = 1 / 3)', parser.parse_term('~((2::real) / 6 = 1 / 3)'), False)
z3case('(2::real) / 6 = 1 / 3', parser.parse_term('(2::real) / 6 = 1 / 3'), True)
z3case('~(f = g)', parser.parse_term('~(f = g)'), False)
xi, xn = Var('x', IntType), Var('x', NatType)
z3case('(x::int) >= 0 | (x::nat) > 5', Or(term.greater_eq(IntType)(xi, Int(0)), term.greater(NatType)(xn, Nat(5))), False)
def spcase(title, t, valid):
    global bad
    got = sympywrapper.solve_goal(t)
    flag = '' if (not got or valid) else '   <-- INVALID GOAL ACCEPTED'
    print('sympy %-44s valid=%-5s accepted=%-5s%s' % (title, valid, got, flag))
    bad += bool(flag)
spcase('~((2::nat) - 3 = 0)', parser.parse_term('~((2::nat) - 3 = 0)'), False)
spcase('(2::nat) - 3 < 0', parser.parse_term('(2::nat) - 3 < 0'), False)
spcase('(2::real) - 3 < 0', parser.parse_term('(2::real) - 3 < 0'), True)
sys.exit(1 if bad else 0)
