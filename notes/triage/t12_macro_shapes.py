"""Triage of C04.M9: fast paths of imp_conj / imp_disj / prove_avalI read their goal by position without a
test of its head.  Before the fixes (0987e0d, b2c2d35): ACCEPTED with an invalid sequent; after: rejected.
run: cd /repo && /venv/bin/python /verif/notes/triage/t12_macro_shapes.py"""
import sys
sys.path.insert(0, sys.argv[1] if len(sys.argv) > 1 else '/repo')
from kernel.type import BoolType
from kernel.term import Var, And, Or, Implies
from logic import basic, logic
basic.load_theory('logic')
A, B = Var('A', BoolType), Var('B', BoolType)
for label, f in (('imp_conj  A & B | A          (A = F)', lambda: logic.imp_conj_macro().eval(Or(And(A, B), A), [])),
                 ('imp_disj  A & (A | B)        (A = F)', lambda: logic.imp_disj_macro().eval(And(A, Or(A, B)), [])),
                 ('imp_conj  A & B --> A   [valid]', lambda: logic.imp_conj_macro().eval(Implies(And(A, B), A), [])),
                 ('imp_disj  A --> A | B   [valid]', lambda: logic.imp_disj_macro().eval(Implies(A, Or(A, B)), []))):
    try:
        print('%-40s ACCEPTED %s' % (label, f()))
    except Exception as e:
        print('%-40s rejected %s' % (label, type(e).__name__))
