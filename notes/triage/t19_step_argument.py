# Triage of C01.K11 (reported by a seeding sub-agent, reproduced): before the fix a two-step proof of |- false is accepted;
# after it: CheckProofException. run: cd /repo && PYTHONPATH=/repo /venv/bin/python /verif/notes/triage/t19_step_argument.py
"""Pre-existing (independent of the seeded change): check_proof does not check
that the `args` of a primitive step fit the rule's signature.  For a rule whose
signature is None (no argument), a Thm object passed as `args` is forwarded as
the first *premise* of the rule, so a fabricated theorem enters the proof."""
from kernel.type import BoolType
from kernel.term import Var, Const, Eq
from kernel.thm import Thm
from kernel.proof import Proof
from kernel import theory

p = Var("p", BoolType)
false = Const("false", BoolType)
fake = Thm(Eq(Eq(p, p), false))          # never derived: |- (p = p) = false

prf = Proof()
prf.add_item(0, "reflexive", args=p)                     # |- p = p
prf.add_item(1, "equal_elim", args=fake, prevs=[0])      # equal_elim(fake, |- p = p)
with theory.fresh_theory():
    res = theory.check_proof(prf, no_gaps=True)
print(prf)
assert not (len(res.hyps) == 0 and res.prop == false), "accepted: %s" % res
