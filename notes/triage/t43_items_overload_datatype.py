"""Inputs on which the UNMODIFIED project already violates C11."""
from kernel import theory
from logic import basic
from server import items
from syntax.settings import global_setting


def fresh():
    basic.load_theory('list')
    it = items.parse_item({'ty': 'def.ax', 'name': 'cc', 'type': "'a => bool", 'overloaded': True})
    theory.thy.unchecked_extend(it.get_extension())


def accept(label, data):
    it = items.parse_item(data)
    print("%s: error=%s" % (label, it.error))
    if it.error is None:
        exts = it.get_extension()
        theory.thy.unchecked_extend(exts)
        for e in exts:
            try:
                print("     ", e)
            except Exception as ex:
                print("      %s: cannot even be printed (%s)" % (e.name, type(ex).__name__))
    return it


print("A. two overloaded definitions that refer to each other")
fresh()
accept("A1", {'ty': 'def', 'name': 'cc', 'type': 'nat => bool', 'prop': 'cc (x::nat) <--> ~(cc true)'})
accept("A2", {'ty': 'def', 'name': 'cc', 'type': 'bool => bool', 'prop': 'cc (x::bool) <--> cc (0::nat)'})
print("   => cc true <--> cc 0 <--> ~(cc true)")

print("B. the same overloaded instance defined twice")
fresh()
accept("B1", {'ty': 'def', 'name': 'cc', 'type': 'nat => bool', 'prop': 'cc (x::nat) <--> true'})
accept("B2", {'ty': 'def', 'name': 'cc', 'type': 'nat => bool', 'prop': 'cc (x::nat) <--> false'})
print("   nat_cc_def now:", theory.thy.get_theorem('nat_cc_def', svar=False))

print("C. overlapping overloaded instances ('a list and nat list)")
fresh()
accept("C1", {'ty': 'def', 'name': 'cc', 'type': "'a list => bool", 'prop': "cc (x::'a list) <--> true"})
accept("C2", {'ty': 'def', 'name': 'cc', 'type': "nat list => bool", 'prop': "cc (x::nat list) <--> false"})

print("D. datatype constructor whose result type is not the datatype")
basic.load_theory('nat')
it = accept("D", {'ty': 'type.ind', 'name': 'wr', 'args': [], 'constrs': [
    {'name': 'wrA', 'args': [], 'type': 'wr'},
    {'name': 'wrB', 'args': ['n'], 'type': 'nat => nat'}]})
for e in it.get_extension():
    if e.is_theorem():
        try:
            e.th.check_thm_type()
        except Exception as ex:
            print("   ill-typed:", e.name, ex)

print("E. datatype with more argument names than argument types")
basic.load_theory('nat')
it = accept("E", {'ty': 'type.ind', 'name': 'ac', 'args': [], 'constrs': [
    {'name': 'acA', 'args': ['n', 'm'], 'type': 'nat => ac'}]})
try:
    with global_setting(unicode=True, highlight=False):
        it.get_display()
except Exception as ex:
    print("   get_display:", type(ex).__name__, ex)

print("F. editor form of a datatype parsed in a theory that does not yet have the type")
basic.load_theory('nat')
it = items.parse_item({'ty': 'type.ind', 'name': 'tr', 'args': ['a'], 'constrs': [
    {'name': 'trA', 'args': [], 'type': "'a tr"}]})
print("   parse_item error:", it.error, "| parse alone added the type to the theory:", theory.thy.has_type_sig('tr'))
with global_setting(unicode=True, highlight=False):
    ed = it.get_display()
basic.load_theory('nat')
try:
    items.parse_edit(ed)
except Exception as ex:
    print("   parse_edit:", type(ex).__name__, ex.__dict__)

print("G. inductive predicate with a negative premise (outside the 'definition' clause)")
basic.load_theory('nat')
accept("G", {'ty': 'def.pred', 'name': 'pp', 'type': 'bool', 'rules': [{'name': 'pp_intro', 'prop': '~pp --> pp'}]})
