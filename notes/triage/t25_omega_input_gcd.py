"""C16: omega.solve_matrix inserted the input rows as they came; one_var_analysis assumes unit coefficients.
Rows [c0 .. cn-1, const] mean 0 <= sum ci*xi + const."""
from prover import omega
def holds(rows, vm):
    return all(sum(c * vm.get(i, 0) for i, c in enumerate(r[:-1])) + r[-1] >= 0 for r in rows)
bad = 0
for rows, truth in (([[3, 5]], 'SAT'), ([[1, 1], [-3, -2]], 'SAT'), ([[2, -1], [-2, 1]], 'UNSAT'), ([[2, 0], [-2, 0]], 'SAT'), ([[4, -2], [-4, 3]], 'UNSAT')):
    res, val = omega.solve_matrix(rows)
    ok = (res == truth) and (res != 'SAT' or holds(rows, val))
    print(rows, '->', res, val if res == 'SAT' else '', 'ok' if ok else 'WRONG (expected %s)' % truth)
    bad += not ok
assert bad == 0
