"""Triage of C18.R11 (verit_connective_def): (P <--> Q) <--> (P --> Q) & (R --> P) accepted for any R: the
antecedent of the second implication is unpacked and never compared (its consequent is compared twice).
run: /venv/bin/python notes/triage/t14_verit_connective_def.py [repo_dir]"""
import sys, types, warnings
warnings.simplefilter('ignore')
R_ = sys.argv[1] if len(sys.argv) > 1 else '/repo'
sys.path.insert(0, R_)
smt = types.ModuleType('smt'); smt.__path__ = [R_ + '/smt']; sys.modules['smt'] = smt
v = types.ModuleType('smt.veriT'); v.__path__ = [R_ + '/smt/veriT']; sys.modules['smt.veriT'] = v
from smt.veriT import verit_macro as vm
from kernel.type import BoolType
from kernel.term import Var, And, Eq, Implies
from logic import basic
basic.load_theory('smt')
P, Q, R = (Var(n, BoolType) for n in 'PQR')
for label, goal in (('(P <-> Q) <-> (P --> Q) & (R --> P)   (invalid: P=Q=T, R=F... take P=F,Q=T,R=F)', Eq(Eq(P, Q), And(Implies(P, Q), Implies(R, P)))),
                    ('(P <-> Q) <-> (P --> Q) & (Q --> P)   [valid]', Eq(Eq(P, Q), And(Implies(P, Q), Implies(Q, P))))):
    try:
        print('%-80s ACCEPTED %s' % (label, vm.ConnectiveDefMacro().eval([goal])))
    except Exception as e:
        print('%-80s rejected %s' % (label, type(e).__name__))
