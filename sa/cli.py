"""./check <ID> [--tier quick|thorough] [--repo DIR] [--evidence-dir DIR] [--list]

exit 0: all rule instances hold (or only listed known findings fail)
exit 1: VIOLATION (an unlisted failing instance)
exit 2: ANALYSIS-ERROR (anchor vanished / floor not reached / analyser crashed / self-test failed)
"""
import argparse
import importlib
import os
import sys
import time
import traceback

from . import core
from .core import AnalysisError

PROPERTIES = ['C01', 'C02', 'C03', 'C04', 'C05', 'C06', 'C07', 'C08', 'C09', 'C10', 'C11', 'C12',
              'C13', 'C14', 'C15', 'C16', 'C17', 'C18', 'C19', 'C20']


def run_rules(prop, root):
    from . import repo as repomod
    mod = importlib.import_module('sa.rules.' + prop.lower())
    r = repomod.load(root)
    results = mod.rules(r)
    # A rule that matched fewer instances than confirmed by hand means "the code no longer has the shape this rule reads":
    # an analysis error - unless a rule already reports a violation that is not a listed finding.  A changed tree that both
    # breaks a rule and drops an instance is reported as the violation it is, not as "cannot judge".
    known, _ = core.load_known_findings()
    unlisted = any((not i.ok) and (prop, i.rule, i.key) not in known for res in results for i in res.instances)
    if not unlisted:
        for res in results:
            res.check_floor()
    return mod, r, results


def main(argv=None):
    ap = argparse.ArgumentParser()
    ap.add_argument('prop')
    ap.add_argument('--tier', default=os.environ.get('VERIF_TIER') or 'quick', choices=['quick', 'thorough'])
    ap.add_argument('--repo', default=core.REPO)
    ap.add_argument('--evidence-dir', default=None)
    ap.add_argument('--quiet', action='store_true')
    ap.add_argument('--json', action='store_true', help='print failing instance keys as JSON (self-test use)')
    args = ap.parse_args(argv)
    prop = args.prop.upper()
    t0 = time.time()
    if prop not in PROPERTIES:
        print('ANALYSIS-ERROR property=%s: not a claimed property (see MANIFEST not_applicable)' % prop)
        return 2
    try:
        mod, r, results = run_rules(prop, args.repo)
        if args.json:
            import json
            failing = [i.as_dict() for res in results for i in res.instances if not i.ok]
            print(json.dumps({'failing': failing,
                              'counts': {res.rule: len(res.instances) for res in results}}))
            return 0
        extra = {
            'modules_parsed': len(r.modules),
            'parse_errors': r.parse_errors,
            'not_decided': getattr(mod, 'NOT_DECIDED', ''),
        }
        selftest = None
        rc_self = 0
        failing_unlisted = False
        if args.tier == 'thorough':
            known, _ = core.load_known_findings()
            failing_unlisted = any((not i.ok) and (prop, i.rule, i.key) not in known
                                   for res in results for i in res.instances)
            if not failing_unlisted:
                from . import selftest as st
                selftest = st.run_matrix(prop, args.repo, results)
                if selftest.get('errors'):
                    rc_self = 2
        rc = core.finish(prop, args.tier, results, t0, extra_cov=extra,
                         assumptions=getattr(mod, 'ASSUMPTIONS', []), selftest=selftest,
                         evidence_dir=args.evidence_dir, quiet=args.quiet)
        if rc == 0 and rc_self:
            for e in selftest['errors']:
                print('ANALYSIS-ERROR property=%s self-test: %s' % (prop, e))
            return 2
        if selftest is not None and not args.quiet:
            print('%s self-test: %d breaking edits applied, %d fired; %d neutral edits applied, %d silent; %d skipped' % (
                prop, selftest['breaking_applied'], selftest['breaking_fired'],
                selftest['neutral_applied'], selftest['neutral_silent'], selftest['skipped']))
            seeds = selftest.get('seeds') or []
            if seeds:
                print('%s seeded changes: %s' % (prop, ', '.join('%s %s' % (x['id'], x['status']) for x in seeds)))
        return rc
    except AnalysisError as e:
        print('ANALYSIS-ERROR property=%s: %s' % (prop, e))
        return 2
    except Exception:
        traceback.print_exc()
        print('ANALYSIS-ERROR property=%s: analyser raised (traceback above)' % prop)
        return 2


if __name__ == '__main__':
    sys.exit(main())
