"""A8: a reader for the HOL type strings found in library/*.json and a first-order unifier.

Types are tuples: ('v', name) for type variables, ('c', name, (args...)) for constructors.
"""
import json
import os
import re

TOKEN = re.compile(r"\s*(=>|⇒|\(|\)|,|\?'[A-Za-z_][A-Za-z0-9_]*|'[A-Za-z_][A-Za-z0-9_]*|[A-Za-z_][A-Za-z0-9_]*)")


class TypeSyntaxError(Exception):
    pass


def tokenize(s):
    pos = 0
    out = []
    s = s.strip()
    while pos < len(s):
        m = TOKEN.match(s, pos)
        if not m:
            raise TypeSyntaxError('cannot tokenize %r at %d' % (s, pos))
        out.append(m.group(1))
        pos = m.end()
    return out


def parse_type(s):
    toks = tokenize(s)
    pos = [0]

    def peek():
        return toks[pos[0]] if pos[0] < len(toks) else None

    def take():
        t = peek()
        pos[0] += 1
        return t

    def fun():
        left = app()
        if peek() in ('=>', '⇒'):
            take()
            right = fun()
            return ('c', 'fun', (left, right))
        return left

    def app():
        t = peek()
        if t == '(':
            take()
            items = [fun()]
            while peek() == ',':
                take()
                items.append(fun())
            if take() != ')':
                raise TypeSyntaxError('expected ) in %r' % s)
            if len(items) > 1:
                nm = take()
                if nm is None or not re.match(r'[A-Za-z_]', nm):
                    raise TypeSyntaxError('constructor expected after tuple in %r' % s)
                cur = ('c', nm, tuple(items))
            else:
                cur = items[0]
        elif t is not None and (t.startswith("'") or t.startswith("?'")):
            take()
            cur = ('v', t.lstrip('?'))
        elif t is not None and re.match(r'[A-Za-z_]', t):
            take()
            cur = ('c', t, ())
        else:
            raise TypeSyntaxError('unexpected token %r in %r' % (t, s))
        while peek() is not None and re.match(r'[A-Za-z_]', peek()):
            cur = ('c', take(), (cur,))
        return cur

    res = fun()
    if pos[0] != len(toks):
        raise TypeSyntaxError('trailing tokens in %r' % s)
    return res


BOOL = ('c', 'bool', ())


def show(t):
    if t[0] == 'v':
        return t[1]
    if t[1] == 'fun':
        a, b = t[2]
        sa = show(a)
        if a[0] == 'c' and a[1] == 'fun':
            sa = '(' + sa + ')'
        return sa + ' => ' + show(b)
    if not t[2]:
        return t[1]
    if len(t[2]) == 1:
        inner = show(t[2][0])
        if t[2][0][0] == 'c' and t[2][0][1] == 'fun':
            inner = '(' + inner + ')'
        return inner + ' ' + t[1]
    return '(' + ', '.join(show(x) for x in t[2]) + ') ' + t[1]


def rename(t, suffix):
    if t[0] == 'v':
        return ('v', t[1] + suffix)
    return ('c', t[1], tuple(rename(a, suffix) for a in t[2]))


def walk(t, subst):
    while t[0] == 'v' and t[1] in subst:
        t = subst[t[1]]
    return t


def occurs(v, t, subst):
    t = walk(t, subst)
    if t[0] == 'v':
        return t[1] == v
    return any(occurs(v, a, subst) for a in t[2])


def unify(a, b, subst):
    """Extends subst (dict) in place; returns True on success."""
    a, b = walk(a, subst), walk(b, subst)
    if a == b:
        return True
    if a[0] == 'v':
        if occurs(a[1], b, subst):
            return False
        subst[a[1]] = b
        return True
    if b[0] == 'v':
        return unify(b, a, subst)
    if a[1] != b[1] or len(a[2]) != len(b[2]):
        return False
    return all(unify(x, y, subst) for x, y in zip(a[2], b[2]))


def strip_fun(t):
    args = []
    while t[0] == 'c' and t[1] == 'fun':
        args.append(t[2][0])
        t = t[2][1]
    return args, t


class Signature:
    """Declared types of constants, read from library/*.json (all theories together)."""

    def __init__(self, root):
        self.general = {}      # name -> general type
        self.overloaded = set()
        self.instances = {}    # name -> [types] (every declaration with a 'type')
        self.files = 0
        libdir = os.path.join(root, 'library')
        for fn in sorted(os.listdir(libdir)):
            if not fn.endswith('.json'):
                continue
            try:
                with open(os.path.join(libdir, fn), encoding='utf-8') as f:
                    data = json.load(f)
            except (ValueError, OSError):
                continue
            if not isinstance(data, dict) or 'content' not in data:
                continue
            self.files += 1
            for it in data['content']:
                ty = it.get('ty', '')
                if ty in ('def.ax', 'def', 'def.ind', 'def.pred') and 'type' in it and 'name' in it:
                    self._add(it['name'], it['type'], it.get('overloaded', False))
                if ty == 'type.ind':
                    for c in it.get('constrs', []):
                        if 'type' in c and 'name' in c:
                            self._add(c['name'], c['type'], False)
        # constants of the empty theory
        a = ('v', "'a")
        for nm, t in (('equals', ('c', 'fun', (a, ('c', 'fun', (a, BOOL))))),
                      ('implies', ('c', 'fun', (BOOL, ('c', 'fun', (BOOL, BOOL))))),
                      ('all', ('c', 'fun', (('c', 'fun', (a, BOOL)), BOOL)))):
            self.general.setdefault(nm, t)
            self.instances.setdefault(nm, [t])

    def _add(self, name, tstr, overloaded):
        try:
            t = parse_type(tstr)
        except TypeSyntaxError:
            return
        if overloaded:
            # the declaration carrying the flag gives the general type, wherever the file sorts
            self.overloaded.add(name)
            self.general[name] = t
        self.instances.setdefault(name, []).append(t)
        if name not in self.general:
            self.general[name] = t

    def usable_types(self, name):
        """Types at which the constant may be used in a well-typed term over the library: the
        declared concrete instances of an overloaded constant, the general type otherwise."""
        if name not in self.instances:
            return []
        if name in self.overloaded:
            inst = [t for t in self.instances[name] if t != self.general[name]]
            return inst or [self.general[name]]
        return [self.general[name]]
