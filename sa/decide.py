"""Decision tables of loop-free dispatch functions: the function's if/elif chain over atomic tests is
evaluated, from its CFG, for every assignment of truth values to the atoms; each assignment ends in one
return statement.  Two sibling functions can then be compared as boolean functions, whatever the way
the conditions are written (merged branches, reordered tests, De Morgan)."""
import ast
import itertools
import re

from .core import need
from .astutil import src


def _norm(expr, rename):
    txt = src(expr, 400)
    for a, b in rename.items():
        txt = re.sub(r'\b%s\b' % re.escape(a), b, txt)     # whole-identifier replacement
    return txt


def atoms_of(cfg, rename=None):
    rename = rename or {}
    return sorted({_norm(n.ast, rename) for n in cfg.nodes if n.kind == 'test'})


def decision_table(cfg, atoms, classify, rename=None, what='function'):
    """dict: tuple of truth values (in the order of `atoms`) -> classify(return ast node) ;
    'raise' for paths that end in an exception, 'fall' for falling off the end"""
    rename = rename or {}
    need(len(atoms) <= 12, '%s: too many atomic tests for a decision table (%d)' % (what, len(atoms)))
    table = {}
    for values in itertools.product((False, True), repeat=len(atoms)):
        env = dict(zip(atoms, values))
        n = cfg.entry
        steps = 0
        out = None
        while True:
            steps += 1
            need(steps < 10000, '%s: decision walk does not terminate (loop?)' % what)
            if n is cfg.exit:
                out = out or 'fall'
                break
            if n is cfg.raise_exit:
                out = 'raise'
                break
            if n.kind == 'test':
                a = _norm(n.ast, rename)
                need(a in env, '%s: test `%s` is not one of the atoms' % (what, a))
                lab = 'true' if env[a] else 'false'
                nxt = [b for b, l in n.succ if l == lab]
                need(len(nxt) == 1, '%s: test node without a unique %s successor' % (what, lab))
                n = nxt[0]
                continue
            need(n.kind in ('entry', 'stmt', 'join'), '%s: node kind %s not supported in a decision table' % (what, n.kind))
            if n.kind == 'stmt' and isinstance(n.ast, ast.Return):
                out = classify(n.ast)
            nxt = [b for b, l in n.succ if l != 'exc']
            need(len(nxt) == 1, '%s: statement with %d successors in a decision table' % (what, len(nxt)))
            n = nxt[0]
        table[values] = out
    return table
