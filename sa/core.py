"""Verdict plumbing shared by all rules: instances, rule results, known findings,
evidence files and the exit-code protocol (DESIGN.md section 3).

Nothing in here looks at holpy; see repo.py / cfg.py / flow.py for the analyses.
"""
import json
import os
import sys
import time

VERIF = os.path.dirname(os.path.dirname(os.path.abspath(__file__)))
REPO = os.environ.get('HOLPY_REPO', '/repo')


class AnalysisError(Exception):
    """An anchor a rule is defined over cannot be found, or a rule matched fewer
    instances than its confirmed floor.  Reported as ANALYSIS-ERROR, exit 2."""


class Instance:
    """One decided obligation of one rule.

    key      -- stable construct key 'file :: qualified name :: role' (never a line number)
    ok       -- verdict
    detail   -- what was found / what is missing (one line)
    loc      -- 'file:line' for diagnostics only
    nontrivial -- verdict needed a path / dataflow / table-comparison argument
    """
    __slots__ = ('rule', 'key', 'ok', 'detail', 'loc', 'nontrivial')

    def __init__(self, rule, key, ok, detail='', loc='', nontrivial=True):
        self.rule = rule
        self.key = key
        self.ok = bool(ok)
        self.detail = detail
        self.loc = loc
        self.nontrivial = nontrivial

    def as_dict(self):
        return {'rule': self.rule, 'key': self.key, 'ok': self.ok,
                'detail': self.detail, 'loc': self.loc}


class RuleResult:
    """All instances of one rule, with the floor the rule must reach."""

    def __init__(self, rule, title, floor=1):
        self.rule = rule
        self.title = title
        self.floor = floor
        self.instances = []
        self.info = {}

    def add(self, key, ok, detail='', loc='', nontrivial=True):
        self.instances.append(Instance(self.rule, key, ok, detail, loc, nontrivial))

    def check_floor(self):
        if len(self.instances) < self.floor:
            raise AnalysisError('%s: matched %d instances, confirmed floor is %d (%s)' % (
                self.rule, len(self.instances), self.floor, self.title))


def need(cond, msg):
    """Anchor assertion: a vanished anchor is an analysis error, never a pass."""
    if not cond:
        raise AnalysisError(msg)
    return cond


def load_known_findings():
    path = os.path.join(VERIF, 'known_findings.json')
    with open(path) as f:
        data = json.load(f)
    known = {}
    for e in data.get('findings', []):
        known[(e['property'], e['rule'], e['key'])] = e
    return known, data.get('fixed', [])


def write_json(path, obj):
    os.makedirs(os.path.dirname(path), exist_ok=True)
    tmp = path + '.tmp%d' % os.getpid()
    with open(tmp, 'w') as f:
        json.dump(obj, f, indent=1, sort_keys=False)
        f.write('\n')
    os.replace(tmp, path)


def finish(prop, tier, results, t0, extra_cov=None, assumptions=None, selftest=None,
           evidence_dir=None, quiet=False):
    """Turn rule results into stdout lines, evidence file and exit code."""
    out = sys.stdout
    known, fixed = load_known_findings()
    evidence_dir = evidence_dir or os.path.join(VERIF, 'evidence')
    all_inst = [i for r in results for i in r.instances]
    failing = [i for i in all_inst if not i.ok]
    unlisted = [i for i in failing if (prop, i.rule, i.key) not in known]
    listed = [i for i in failing if (prop, i.rule, i.key) in known]

    rules_cov = []
    for r in results:
        rules_cov.append({'rule': r.rule, 'title': r.title, 'instances': len(r.instances),
                          'floor': r.floor,
                          'failing': sum(1 for i in r.instances if not i.ok),
                          'info': r.info})
    samples = []
    for r in results:
        for i in r.instances[:3]:
            samples.append(i.as_dict())
    for i in failing:
        d = i.as_dict()
        if d not in samples:
            samples.append(d)
    cov = {
        'explanation': ('static analysis of /repo source (ast, statement CFG with short-circuit '
                        'tests, local def-use closure, import/call graph, literal tables, grammar '
                        'ladder); every instance below is a rule obligation decided on the current '
                        'working tree without importing or running holpy'),
        'evaluations': len(all_inst),
        'distinct_nontrivial': len({(i.rule, i.key) for i in all_inst if i.nontrivial}),
        'rule': ('instances are enumerated from the repository (tables, class families, call sites); '
                 'non-trivial = verdict needed a path, dataflow or table-agreement argument, not a '
                 'mere existence check'),
        'samples': samples,
        'rules': rules_cov,
        'instances': [i.as_dict() for i in all_inst],
        'known_findings_reported': [i.key for i in listed],
        'trusted_base': ['CPython ast', 'lark-parser 0.12 grammar loader (BNF expansion only)',
                         'rule tables under /verif/sa/rules'],
        'exhaustive': True,
    }
    if extra_cov:
        cov.update(extra_cov)
    if selftest is not None:
        cov['selftest'] = selftest
    ev = {
        'property_id': prop, 'tier': tier,
        'seed': int(os.environ.get('VERIF_SEED', '0') or 0),
        'level': 'other', 'coverage': cov,
        'assumptions': assumptions or [],
        'wall_s': round(time.time() - t0, 3),
        'violations': len(unlisted),
    }
    write_json(os.path.join(evidence_dir, prop + '.json'), ev)

    if not quiet:
        for r in results:
            out.write('%s %-8s %3d instances (floor %d), %d failing  -- %s\n' % (
                prop, r.rule, len(r.instances), r.floor,
                sum(1 for i in r.instances if not i.ok), r.title))
    for i in listed:
        e = known[(prop, i.rule, i.key)]
        out.write('KNOWN-FINDING: property=%s %s %s -- %s\n' % (prop, i.rule, i.key, e.get('what', i.detail)))
    if unlisted:
        vpath = os.path.join(evidence_dir, prop + '.violation.json')
        write_json(vpath, {'property': prop, 'violations': [i.as_dict() for i in unlisted]})
        out.write('VIOLATION property=%s replay=%s\n' % (prop, vpath))
        for i in unlisted:
            out.write('  %s %s %s -- %s\n' % (i.loc, i.rule, i.key, i.detail))
        return 1
    else:
        vpath = os.path.join(evidence_dir, prop + '.violation.json')
        if os.path.exists(vpath):
            os.remove(vpath)
    return 0
