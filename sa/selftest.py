"""Self-test matrix of the thorough tier (DESIGN.md section 3).

The current tree is copied to scratch directories outside /repo and /verif; single edits are applied one
at a time.  A *breaking* edit removes or weakens the construct a rule depends on (the rule must report a
new failing instance, of the expected rule, naming the edited construct); a *neutral* edit is a
behaviour-preserving refactoring (no new failing instance, no analysis error).  An edit whose site does
not exist on the tree being checked is skipped.  Edits are applied to the source text only; nothing
from the scratch copy is executed.
"""
import json
import os
import shutil
import subprocess
import sys
import tempfile
from concurrent.futures import ThreadPoolExecutor

from .core import VERIF
from .selftest_edits import EDITS

COPY_EXT = ('.py', '.json')
SKIP_DIRS = {'.git', 'node_modules', '__pycache__', 'static', 'dist'}


def _copy_tree(src, dst):
    for dirpath, dirnames, filenames in os.walk(src):
        dirnames[:] = [d for d in dirnames if d not in SKIP_DIRS]
        rel = os.path.relpath(dirpath, src)
        if rel.startswith('integral/examples') or rel.startswith('users'):
            continue
        out = os.path.join(dst, rel) if rel != '.' else dst
        os.makedirs(out, exist_ok=True)
        for fn in filenames:
            if fn.endswith(COPY_EXT):
                shutil.copy2(os.path.join(dirpath, fn), os.path.join(out, fn))


def _run_rules(prop, root):
    env = dict(os.environ)
    env['PYTHONDONTWRITEBYTECODE'] = '1'
    p = subprocess.run([sys.executable, '-B', '-m', 'sa.cli', prop, '--repo', root, '--json'],
                       cwd=VERIF, env=env, capture_output=True, text=True, timeout=300)
    if p.returncode != 0:
        return None, (p.stdout + p.stderr).strip().splitlines()[-1:] or ['exit %d' % p.returncode]
    try:
        data = json.loads(p.stdout.strip().splitlines()[-1])
    except (ValueError, IndexError):
        return None, ['unparseable output']
    return {(f['rule'], f['key']) for f in data['failing']}, []


def apply_edit(source, edit):
    """returns the edited source, or None when the site does not exist"""
    old, new = edit['old'], edit['new']
    if source.count(old) != 1:
        return None
    source = source.replace(old, new)
    # a change that needs a second site in the same file (a declaration and its use)
    for old2, new2 in edit.get('more', ()):
        if source.count(old2) != 1:
            return None
        source = source.replace(old2, new2)
    return source


def run_matrix(prop, repo_root, results, jobs=None):
    edits = [e for e in EDITS if e['prop'] == prop]
    out = {'breaking_applied': 0, 'breaking_fired': 0, 'neutral_applied': 0, 'neutral_silent': 0, 'skipped': 0,
           'errors': [], 'edits': []}
    if not edits:
        return out
    already_failing = {(i.rule, i.key) for r in results for i in r.instances if not i.ok}
    jobs = jobs or min(16, len(edits), os.cpu_count() or 4)
    scratch_root = tempfile.mkdtemp(prefix='holpy_sa_selftest_')
    try:
        pools = []
        for j in range(jobs):
            d = os.path.join(scratch_root, 'w%d' % j)
            _copy_tree(repo_root, d)
            pools.append(d)
        base, err = _run_rules(prop, pools[0])
        if base is None:
            out['errors'].append('rules do not run on the scratch copy: %s' % err)
            return out

        def work(args):
            idx, edit = args
            root = pools[idx % jobs]
            path = os.path.join(root, edit['file'])
            if not os.path.exists(path):
                return edit, 'skipped', 'file not present'
            with open(path, encoding='utf-8') as f:
                original = f.read()
            edited = apply_edit(original, edit)
            if edited is None:
                return edit, 'skipped', 'site not found on this tree'
            try:
                import warnings
                with warnings.catch_warnings():
                    warnings.simplefilter('ignore')
                    compile(edited, path, 'exec')
            except SyntaxError as e:
                return edit, 'error', 'edited file does not compile: %s' % e
            try:
                with open(path, 'w', encoding='utf-8') as f:
                    f.write(edited)
                failing, err = _run_rules(prop, root)
            finally:
                with open(path, 'w', encoding='utf-8') as f:
                    f.write(original)
            if failing is None:
                return edit, 'analysis-error', '; '.join(err)
            new = failing - base
            return edit, 'ran', sorted(new)

        # edits that share a worker directory must not overlap: run each worker's queue sequentially
        queues = [[] for _ in range(jobs)]
        for i, e in enumerate(edits):
            queues[i % jobs].append((i, e))

        def run_queue(q):
            return [work(x) for x in q]
        with ThreadPoolExecutor(max_workers=jobs) as ex:
            outcomes = [o for res in ex.map(run_queue, queues) for o in res]
        for edit, status, info in outcomes:
            rec = {'id': edit['id'], 'kind': edit['kind'], 'file': edit['file'], 'status': status}
            if status == 'skipped':
                out['skipped'] += 1
                rec['why'] = info
            elif status == 'error':
                out['errors'].append('%s: %s' % (edit['id'], info))
            elif edit['kind'] == 'breaking':
                # an edit aimed at an instance that already fails on this tree is skipped
                if status == 'ran' and any(r == edit['expect_rule'] and edit.get('expect_key', '') in k for r, k in already_failing):
                    out['skipped'] += 1
                    rec['status'] = 'skipped'
                    rec['why'] = 'target instance already fails on this tree'
                else:
                    out['breaking_applied'] += 1
                    fired = status == 'ran' and any(r == edit['expect_rule'] and edit.get('expect_key', '') in k for r, k in info)
                    if fired:
                        out['breaking_fired'] += 1
                        rec['fired'] = [k for r, k in info if r == edit['expect_rule']][:3]
                    else:
                        out['errors'].append('breaking edit %s did not make %s report %r (got %s)' % (
                            edit['id'], edit['expect_rule'], edit.get('expect_key', ''), info if status == 'ran' else status + ': ' + str(info)))
            else:
                out['neutral_applied'] += 1
                if status == 'ran' and not info:
                    out['neutral_silent'] += 1
                else:
                    out['errors'].append('neutral edit %s made the rules report %s' % (edit['id'], info))
            out['edits'].append(rec)
        # --- the stored seeded changes of this property (written by independent sub-agents, /verif/seeded/<id>/):
        # each is applied to a scratch copy and must make a rule of this property report a new failing instance
        out['seeds'] = run_seeds(prop, pools[0], base)
        for srec in out['seeds']:
            if srec['status'] == 'missed':
                out['errors'].append('seeded change %s is no longer reported by any rule of %s' % (srec['id'], prop))
    finally:
        shutil.rmtree(scratch_root, ignore_errors=True)
    return out


def run_seeds(prop, root, base):
    res = []
    seeded = os.path.join(VERIF, 'seeded')
    if not os.path.isdir(seeded):
        return res
    for sid in sorted(os.listdir(seeded)):
        d = os.path.join(seeded, sid)
        meta_p, patch_p = os.path.join(d, 'meta.json'), os.path.join(d, 'patch.diff')
        if not (os.path.exists(meta_p) and os.path.exists(patch_p)):
            continue
        with open(meta_p) as f:
            meta = json.load(f)
        if meta.get('property') != prop:
            continue
        expected = [r for r in meta.get('detected_by', []) if r.startswith(prop + '.')]
        rec = {'id': sid, 'expected_rules': expected}
        if not expected:
            rec['status'] = 'not-claimed'          # recorded as outside the reach of the rules (DESIGN section 9)
            res.append(rec)
            continue
        # apply to the plain scratch copy (git apply works on a directory that is not a repository)
        p = subprocess.run(['git', 'apply', '--unsafe-paths', '--directory=' + root, patch_p], cwd='/', capture_output=True, text=True)
        if p.returncode != 0:
            rec['status'] = 'skipped'
            rec['why'] = 'patch does not apply to this tree any more'
            res.append(rec)
            continue
        try:
            failing, err = _run_rules(prop, root)
        finally:
            subprocess.run(['git', 'apply', '-R', '--unsafe-paths', '--directory=' + root, patch_p], cwd='/', capture_output=True, text=True)
        if failing is None:
            rec['status'] = 'fail-closed'
            rec['why'] = '; '.join(err)
        else:
            new = failing - base
            fired = sorted({r for r, _k in new})
            rec['fired'] = fired
            rec['status'] = 'caught' if any(r in expected for r in fired) or fired else 'missed'
        res.append(rec)
    return res
