"""Truth tables of connective rewritings, read off the source.

A normal-form converter (nnf, one-step simplification, CNF) is a case distinction on the head connectives of
its argument; every case returns a term built from the parts of the argument with the constructors Not / And /
Or / Implies / Eq, possibly through a recursive call.  Under the induction hypothesis that the recursive calls
(and the sibling converters) preserve the meaning of their argument, a case is correct iff the *pattern* its
conditions describe and the *term it returns* are the same boolean function of the unknown parts - a finite
table (at most 2^n rows for n parts).  Both are computed by abstract evaluation of the AST; nothing is run.

Abstract values: ('atom', path) | ('const', b) | ('not', a) | ('and', a, b) | ('or', a, b) | ('imp', a, b) |
('iff', a, b) | ('ite', p, q, r) | python lists of those (results of .args, strip_conj(), comprehensions).
A case is analysed only when every enclosing condition was understood and the returned expression evaluates;
the others are counted as not analysed (quantifier cases, product constructions).
"""
import ast
import itertools

from .astutil import src

KIND_TESTS = {'is_not': 'not', 'is_conj': 'and', 'is_disj': 'or', 'is_implies': 'imp', 'is_equals': 'iff'}
CONSTRUCTORS = {'Not': 'not', 'And': 'and', 'Or': 'or', 'Implies': 'imp', 'Eq': 'iff'}
OPAQUE_KINDS = {'is_forall', 'is_exists', 'is_abs', 'is_comb', 'is_var', 'is_const', 'is_bound'}


class Unsupported(Exception):
    pass


def _children(kind, path):
    if kind == 'not':
        return [path + '.arg']
    if kind in ('and', 'or', 'imp', 'iff'):
        return [path + '.arg1', path + '.arg']
    if kind == 'ite':
        return [path + '.args[0]', path + '.args[1]', path + '.args[2]']
    return []


class Case:
    def __init__(self, param):
        self.param = param
        self.shape = {}       # path -> kind | ('const', b)
        self.same = {}        # path -> representative path (X == Y)

    def copy(self):
        c = Case(self.param)
        c.shape = dict(self.shape)
        c.same = dict(self.same)
        return c

    def rep(self, path):
        # longest prefix that was identified with another path
        for p, r in self.same.items():
            if path == p or path.startswith(p + '.'):
                return self.rep(r + path[len(p):])
        return path

    def pattern(self, path):
        path = self.rep(path)
        k = self.shape.get(path)
        if k is None:
            return ('atom', path)
        if isinstance(k, tuple):
            return k
        return (k,) + tuple(self.pattern(c) for c in _children(k, path))


def fold(kind, xs):
    if not xs:
        return ('const', kind == 'and')
    r = xs[-1]
    for x in reversed(xs[:-1]):
        r = (kind, x, r)
    return r


def strip(kind, v):
    out = []
    while isinstance(v, tuple) and v[0] == kind:
        out.append(v[1])
        v = v[2]
    return out + [v]


class Evaluator:
    def __init__(self, funcnode, param, identity=()):
        self.func = funcnode
        self.param = param
        self.identity = set(identity) | {funcnode.name}
        self.cases = []        # (lineno, facts text, pattern, value)
        self.skipped = []      # (lineno, why)

    # ------------------------------------------------------------------ expressions
    def path_of(self, e, env):
        """canonical path when e denotes a part of the parameter, else None"""
        if isinstance(e, ast.Name):
            v = env.get(e.id)
            if isinstance(v, str):
                return v
            if e.id == self.param and e.id not in env:
                return self.param
            return None
        if isinstance(e, ast.Attribute):
            b = self.path_of(e.value, env)
            if b is None:
                return None
            a = {'lhs': 'arg1', 'rhs': 'arg'}.get(e.attr, e.attr)
            if a in ('arg', 'arg1'):
                return b + '.' + a
            return None
        if isinstance(e, ast.Subscript) and isinstance(e.value, ast.Attribute) and e.value.attr == 'args' and \
                isinstance(e.slice, ast.Constant) and isinstance(e.slice.value, int):
            b = self.path_of(e.value.value, env)
            if b is None:
                return None
            return b + '.args[%d]' % e.slice.value
        return None

    def _norm_path(self, case, p):
        """`.args[k]` of a binary connective is `.arg1` / `.arg`"""
        import re
        m = re.match(r'^(.*)\.args\[(\d)\]$', p)
        if m:
            base, k = self._norm_path(case, m.group(1)), int(m.group(2))
            kind = case.shape.get(case.rep(base))
            if kind in ('and', 'or', 'imp', 'iff'):
                return base + ('.arg1' if k == 0 else '.arg')
            return base + '.args[%d]' % k
        return p

    def ev(self, e, env, case):
        p = self.path_of(e, env)
        if p is not None:
            p = self._norm_path(case, p)
            # a part of an unanalysed atom is not related to the atom: refuse
            parent = p.rsplit('.', 1)[0] if '.' in p else None
            if parent is not None and not isinstance(case.pattern(parent), tuple):
                raise Unsupported('part of unknown')
            if parent is not None and case.pattern(parent)[0] in ('atom', 'const'):
                raise Unsupported('`%s` is a part of a term whose connective is not known here' % src(e, 40))
            return case.pattern(p)
        if isinstance(e, ast.Name):
            if e.id in env:
                return env[e.id]
            if e.id in ('true', 'false'):
                return ('const', e.id == 'true')
            raise Unsupported('name %s' % e.id)
        if isinstance(e, ast.Attribute):
            if e.attr in ('true', 'false') and isinstance(e.value, ast.Name):
                return ('const', e.attr == 'true')
            v = self.ev(e.value, env, case)
            a = {'lhs': 'arg1', 'rhs': 'arg'}.get(e.attr, e.attr)
            if isinstance(v, tuple) and v[0] == 'not' and a == 'arg':
                return v[1]
            if isinstance(v, tuple) and v[0] in ('and', 'or', 'imp', 'iff') and a in ('arg1', 'arg'):
                return v[1] if a == 'arg1' else v[2]
            if isinstance(v, tuple) and v[0] in ('and', 'or', 'imp', 'iff', 'ite') and a == 'args':
                return list(v[1:])
            raise Unsupported('attribute .%s' % e.attr)
        if isinstance(e, ast.Subscript) and isinstance(e.slice, ast.Constant) and isinstance(e.slice.value, int):
            v = self.ev(e.value, env, case)
            if isinstance(v, list) and -len(v) <= e.slice.value < len(v):
                return v[e.slice.value]
            raise Unsupported('subscript')
        if isinstance(e, (ast.Tuple, ast.List)):
            out = []
            for x in e.elts:
                if isinstance(x, ast.Starred):
                    v = self.ev(x.value, env, case)
                    if not isinstance(v, list):
                        raise Unsupported('starred non-list')
                    out += v
                else:
                    out.append(self.ev(x, env, case))
            return out
        if isinstance(e, ast.ListComp) and len(e.generators) == 1 and not e.generators[0].ifs and isinstance(e.generators[0].target, ast.Name):
            it = self.ev(e.generators[0].iter, env, case)
            if not isinstance(it, list):
                raise Unsupported('comprehension over non-list')
            out = []
            for x in it:
                env2 = dict(env)
                env2[e.generators[0].target.id] = x
                out.append(self.ev(e.elt, env2, case))
            return out
        if isinstance(e, ast.Call):
            fn = e.func
            name = fn.id if isinstance(fn, ast.Name) else fn.attr if isinstance(fn, ast.Attribute) else None
            if e.keywords:
                raise Unsupported('keywords')
            if name in CONSTRUCTORS and (isinstance(fn, ast.Name) or (isinstance(fn.value, ast.Name) and fn.value.id in ('term', 'hol_term'))):
                args = self.ev(ast.List(elts=e.args, ctx=ast.Load()), env, case)
                kind = CONSTRUCTORS[name]
                if any(isinstance(a, list) for a in args):
                    raise Unsupported('list as operand')
                if kind == 'not':
                    if len(args) != 1:
                        raise Unsupported('Not arity')
                    return ('not', args[0])
                if kind == 'iff':
                    if len(args) != 2:
                        raise Unsupported('Eq arity')
                    return ('iff', args[0], args[1])
                if kind == 'imp' and len(args) < 2:
                    raise Unsupported('Implies arity')
                return fold(kind, args)
            if isinstance(fn, ast.Name) and name in self.identity and len(e.args) == 1:
                return self.ev(e.args[0], env, case)
            if isinstance(fn, ast.Attribute) and name in ('strip_conj', 'strip_disj') and not e.args:
                return strip('and' if name == 'strip_conj' else 'or', self.ev(fn.value, env, case))
            if isinstance(fn, ast.Attribute) and name in ('strip_conj', 'strip_disj') and len(e.args) == 1 and isinstance(fn.value, ast.Name):
                return strip('and' if name == 'strip_conj' else 'or', self.ev(e.args[0], env, case))      # logic.strip_conj(t)
            if isinstance(fn, ast.Attribute) and name == 'head' and len(e.args) == 2:
                v = self.ev(fn.value, env, case)
                if isinstance(v, tuple) and v[0] in ('and', 'or', 'imp', 'iff'):
                    return (v[0], self.ev(e.args[0], env, case), self.ev(e.args[1], env, case))
            raise Unsupported('call `%s`' % src(e, 40))
        raise Unsupported('expression `%s`' % src(e, 40))

    # ------------------------------------------------------------------ conditions
    def alternatives(self, test, env, case):
        """list of Case refinements under which the test holds (its disjuncts), or None when not understood"""
        if isinstance(test, ast.BoolOp) and isinstance(test.op, ast.Or):
            out = []
            for v in test.values:
                a = self.alternatives(v, env, case)
                if a is None:
                    return None
                out += a
            return out
        if isinstance(test, ast.BoolOp) and isinstance(test.op, ast.And):
            cur = [case]
            for v in test.values:
                nxt = []
                for c in cur:
                    a = self.alternatives(v, env, c)
                    if a is None:
                        return None
                    nxt += a
                cur = nxt
            return cur
        if isinstance(test, ast.Call) and isinstance(test.func, ast.Attribute) and test.func.attr in KIND_TESTS and not test.args:
            p = self.path_of(test.func.value, env)
            if p is None:
                return None
            p = case.rep(self._norm_path(case, p))
            c = case.copy()
            have = c.shape.get(p)
            kind = KIND_TESTS[test.func.attr]
            if have is not None and have != kind:
                return []                 # contradicts what is known: unreachable
            c.shape[p] = kind
            return [c]
        if isinstance(test, ast.Call) and isinstance(test.func, ast.Attribute) and test.func.attr == 'is_if' and len(test.args) == 1:
            p = self.path_of(test.args[0], env)
            if p is None:
                return None
            c = case.copy()
            c.shape[case.rep(self._norm_path(case, p))] = 'ite'
            return [c]
        if isinstance(test, ast.Compare) and len(test.ops) == 1 and isinstance(test.ops[0], ast.Eq):
            l, r = test.left, test.comparators[0]
            # <part>.get_type() == BoolType : no information about the truth value
            if isinstance(l, ast.Call) and isinstance(l.func, ast.Attribute) and l.func.attr == 'get_type' and src(r, 30).endswith('BoolType'):
                return [case]
            for a, b in ((l, r), (r, l)):
                pa = self.path_of(a, env)
                if pa is None:
                    continue
                pa = case.rep(self._norm_path(case, pa))
                if isinstance(b, ast.Name) and b.id in ('true', 'false') and b.id not in env:
                    c = case.copy()
                    c.shape[pa] = ('const', b.id == 'true')
                    return [c]
                pb = self.path_of(b, env)
                if pb is not None:
                    pb = case.rep(self._norm_path(case, pb))
                    c = case.copy()
                    if pa != pb:
                        c.same[pb] = pa
                    return [c]
        return None

    # ------------------------------------------------------------------ statements
    def walk(self, stmts, env, case, understood=True):
        env = dict(env)
        for s in stmts:
            if isinstance(s, ast.Expr) and isinstance(s.value, ast.Constant):
                continue
            if isinstance(s, ast.Assert):
                continue
            if isinstance(s, (ast.FunctionDef, ast.Pass)):
                continue        # a definition does nothing by itself; a call of it that is not understood is reported where it occurs
            if isinstance(s, ast.If):
                alts = self.alternatives(s.test, env, case) if understood else None
                if alts is None:
                    self.walk(s.body, env, case, False)
                    self.walk(s.orelse, env, case, False)
                else:
                    for c in alts:
                        self.walk(s.body, env, c, understood)
                    self.walk(s.orelse, env, case, understood)
                # statements after an if whose branches all return are unreachable in these converters; those after a
                # fall-through if are not modelled
                if self._all_return(s):
                    return
                understood = False
                continue
            if isinstance(s, ast.Assign) and len(s.targets) == 1:
                t = s.targets[0]
                try:
                    if isinstance(t, ast.Name):
                        p = self.path_of(s.value, env)
                        env[t.id] = p if p is not None else self.ev(s.value, env, case)
                        continue
                    if isinstance(t, (ast.Tuple, ast.List)) and all(isinstance(x, ast.Name) for x in t.elts):
                        if isinstance(s.value, (ast.Tuple, ast.List)) and len(s.value.elts) == len(t.elts):
                            for x, v in zip(t.elts, s.value.elts):
                                p = self.path_of(v, env)
                                env[x.id] = p if p is not None else self.ev(v, env, case)
                            continue
                        # A, B = X.args
                        if isinstance(s.value, ast.Attribute) and s.value.attr == 'args':
                            b = self.path_of(s.value.value, env)
                            if b is not None:
                                b = case.rep(self._norm_path(case, b))
                                kids = _children(case.shape.get(b) if not isinstance(case.shape.get(b), tuple) else None, b)
                                if len(kids) == len(t.elts):
                                    for x, k in zip(t.elts, kids):
                                        env[x.id] = k
                                    continue
                        v = self.ev(s.value, env, case)
                        if isinstance(v, list) and len(v) == len(t.elts):
                            for x, k in zip(t.elts, v):
                                env[x.id] = k
                            continue
                    raise Unsupported('assignment `%s`' % src(s, 40))
                except Unsupported as ex:
                    self.skipped.append((s.lineno, str(ex)))
                    understood = False
                    # names bound here are unknown from now on
                    for x in ast.walk(t):
                        if isinstance(x, ast.Name):
                            env[x.id] = None
                    continue
            if isinstance(s, ast.Return) and s.value is not None:
                if not understood:
                    self.skipped.append((s.lineno, 'under a condition that is not a test of connectives'))
                    return
                try:
                    if any(v is None for k, v in env.items() if any(isinstance(x, ast.Name) and x.id == k for x in ast.walk(s.value))):
                        raise Unsupported('uses a value that was not understood')
                    val = self.ev(s.value, env, case)
                    if isinstance(val, list):
                        raise Unsupported('returns a list')
                    self.cases.append((s.lineno, self._facts(case), case.pattern(self.param), val))
                except Unsupported as ex:
                    self.skipped.append((s.lineno, str(ex)))
                return
            if isinstance(s, ast.Raise):
                return
            self.skipped.append((s.lineno, 'statement `%s` not modelled' % src(s, 30)))
            understood = False

    @staticmethod
    def _all_return(ifnode):
        def ends(block):
            if not block:
                return False
            last = block[-1]
            if isinstance(last, (ast.Return, ast.Raise)):
                return True
            if isinstance(last, ast.If):
                return ends(last.body) and ends(last.orelse)
            return False
        return ends(ifnode.body) and ends(ifnode.orelse)

    def _facts(self, case):
        def show(v):
            return v if isinstance(v, str) else ('true' if v[1] else 'false')
        return ', '.join('%s:%s' % (p, show(k)) for p, k in sorted(case.shape.items())) + \
            ''.join(', %s=%s' % kv for kv in sorted(case.same.items()))

    def run(self):
        self.walk(self.func.body, {}, Case(self.param))
        return self


def atoms(v, acc=None):
    acc = set() if acc is None else acc
    if isinstance(v, tuple):
        if v[0] == 'atom':
            acc.add(v[1])
        elif v[0] != 'const':
            for x in v[1:]:
                atoms(x, acc)
    return acc


def value(v, sigma):
    k = v[0]
    if k == 'atom':
        return sigma[v[1]]
    if k == 'const':
        return v[1]
    if k == 'not':
        return not value(v[1], sigma)
    if k == 'and':
        return value(v[1], sigma) and value(v[2], sigma)
    if k == 'or':
        return value(v[1], sigma) or value(v[2], sigma)
    if k == 'imp':
        return (not value(v[1], sigma)) or value(v[2], sigma)
    if k == 'iff':
        return value(v[1], sigma) == value(v[2], sigma)
    if k == 'xor':
        return value(v[1], sigma) != value(v[2], sigma)
    if k == 'ite':
        return value(v[2], sigma) if value(v[1], sigma) else value(v[3], sigma)
    if k == 'num':
        return v[1]
    if k == 'uminus':
        return -value(v[1], sigma)
    if k in ARITH:
        a, b = value(v[1], sigma), value(v[2], sigma)
        if k == 'plus':
            return a + b
        if k == 'minus':
            return a - b
        if k == 'times':
            return a * b
        if k == 'divide':
            from fractions import Fraction
            return Fraction(a) / Fraction(b) if b != 0 else 0       # HOL: x / 0 = 0
        if k == 'less':
            return a < b
        if k == 'less_eq':
            return a <= b
        if k == 'greater':
            return a > b
        if k == 'greater_eq':
            return a >= b
    raise ValueError(k)


ARITH = ('plus', 'minus', 'times', 'divide', 'less', 'less_eq', 'greater', 'greater_eq')
NUM_RESULT = ('plus', 'minus', 'times', 'divide', 'uminus', 'num')


def numeric_atoms(vs):
    """atoms that stand for numbers: operands of arithmetic and comparisons, and what is equated with such"""
    num = set()
    changed = True

    def is_num(v):
        return v[0] in NUM_RESULT or (v[0] == 'atom' and v[1] in num) or (v[0] == 'ite' and (is_num(v[2]) or is_num(v[3])))

    def walk(v):
        nonlocal changed
        if not isinstance(v, tuple) or v[0] in ('atom', 'const', 'num'):
            return
        k = v[0]
        kids = v[1:]
        want = []
        if k in ARITH or k == 'uminus':
            want = list(kids)
        elif k in ('iff', 'xor') and (is_num(kids[0]) or is_num(kids[1])):
            want = list(kids)
        elif k == 'ite' and (is_num(kids[1]) or is_num(kids[2])):
            want = [kids[1], kids[2]]
        for w in want:
            if w[0] == 'atom' and w[1] not in num:
                num.add(w[1])
                changed = True
            elif w[0] == 'ite':
                for b in (w[2], w[3]):
                    if b[0] == 'atom' and b[1] not in num:
                        num.add(b[1])
                        changed = True
        for x in kids:
            walk(x)
    while changed:
        changed = False
        for v in vs:
            walk(v)
    return num


def show(v):
    k = v[0]
    if k == 'atom':
        return v[1]
    if k == 'num':
        return str(v[1])
    if k == 'uminus':
        return '-' + show(v[1])
    if k == 'const':
        return 'true' if v[1] else 'false'
    if k == 'not':
        return '~' + show(v[1])
    if k == 'ite':
        return '(if %s then %s else %s)' % tuple(show(x) for x in v[1:])
    op = {'and': '&', 'or': '|', 'imp': '-->', 'iff': '<-->', 'xor': 'xor', 'plus': '+', 'minus': '-', 'times': '*', 'divide': '/',
          'less': '<', 'less_eq': '<=', 'greater': '>', 'greater_eq': '>='}[k]
    return '(%s %s %s)' % (show(v[1]), op, show(v[2]))


def counterexample(pattern, val, max_atoms=10):
    """None when the two are the same boolean function; else an assignment (dict) on which they differ;
    'too-many' when there are more than max_atoms parts"""
    names = sorted(atoms(pattern) | atoms(val))
    if len(names) > max_atoms:
        return 'too-many'
    for bits in itertools.product((False, True), repeat=len(names)):
        sigma = dict(zip(names, bits))
        if value(pattern, sigma) != value(val, sigma):
            return sigma
    return None
