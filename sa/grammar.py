"""A7: grammar ladder.  The Lark grammar text embedded in a parser module is expanded to BNF with
lark (the grammar loader only: nothing is parsed), and the chain of unit productions from the start
symbol gives every nonterminal of the expression ladder a level (0 = tightest)."""
import ast

from .core import AnalysisError, need


def grammar_text(module, varname='grammar'):
    for n in module.tree.body:
        if isinstance(n, ast.Assign) and any(isinstance(t, ast.Name) and t.id == varname for t in n.targets):
            if isinstance(n.value, ast.Constant) and isinstance(n.value.value, str):
                return n.value.value
    raise AnalysisError('%s: grammar string `%s` not found' % (module.rel, varname))


class Production:
    __slots__ = ('origin', 'symbols', 'alias')

    def __init__(self, origin, symbols, alias):
        self.origin = origin
        self.symbols = symbols      # [(name, is_terminal)]
        self.alias = alias

    @property
    def callback(self):
        return self.alias or self.origin

    def __repr__(self):
        return '%s -> %s [%s]' % (self.origin, ' '.join(s for s, _ in self.symbols), self.alias)


class Ladder:
    def __init__(self, text, start):
        try:
            from lark import Lark
        except ImportError as e:      # pragma: no cover
            raise AnalysisError('lark is not importable: %s' % e)
        try:
            L = Lark(text, start=start, parser='lalr')
        except Exception as e:
            raise AnalysisError('grammar does not load: %s' % e)
        self.terminals = {}
        for t in L.terminals:
            pat = t.pattern
            if type(pat).__name__ == 'PatternStr':
                self.terminals[t.name] = pat.value
            else:
                self.terminals[t.name] = None     # regexp terminal (CNAME, INT, ...)
        self.productions = []
        for r in L.rules:
            self.productions.append(Production(r.origin.name if hasattr(r.origin, 'name') else str(r.origin),
                                               [(s.name, s.is_term) for s in r.expansion], r.alias))
        # ladder: follow unit productions from the start symbol
        unit = {}
        for p in self.productions:
            if len(p.symbols) == 1 and not p.symbols[0][1]:
                unit.setdefault(p.origin, []).append(p.symbols[0][0])
        order = [start]
        seen = {start}
        while True:
            nxt = [u for u in unit.get(order[-1], []) if u not in seen]
            if not nxt:
                break
            need(len(nxt) == 1, 'grammar ladder branches at %s: %s' % (order[-1], nxt))
            order.append(nxt[0])
            seen.add(nxt[0])
        self.order = order[::-1]          # tightest first
        self.level = {nt: i for i, nt in enumerate(self.order)}

    def token(self, name):
        return self.terminals.get(name)

    def binary_productions(self):
        """[(production, left nonterminal, token string, right nonterminal)] on the ladder"""
        res = []
        for p in self.productions:
            if p.origin in self.level and len(p.symbols) == 3 and not p.symbols[0][1] and p.symbols[1][1] \
                    and not p.symbols[2][1] and self.token(p.symbols[1][0]) is not None:
                res.append((p, p.symbols[0][0], self.token(p.symbols[1][0]), p.symbols[2][0]))
        return res

    def unary_productions(self):
        res = []
        for p in self.productions:
            if p.origin in self.level and len(p.symbols) == 2 and p.symbols[0][1] and not p.symbols[1][1] \
                    and self.token(p.symbols[0][0]) is not None:
                res.append((p, self.token(p.symbols[0][0]), p.symbols[1][0]))
        return res
