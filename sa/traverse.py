"""Completeness of structural recursions over terms.

A predicate "does x occur in t" or a collector "all type variables of t" is right only if it looks at every
sub-term: at the function part *and* the argument of an application, and at the body of an abstraction.
Guards of several properties rest on such functions (side conditions, freeness tests, closedness, the
type-variable condition of definitions, vacuous-quantifier elimination before the Z3 translation).

`candidates(module)` finds them by shape: a function (or nested helper) that dispatches on is_comb() /
is_abs() of its term parameter and, in the application case, does nothing but recurse - it returns a
disjunction / any() / all() / sum of calls of itself, or consists of statements that call itself.
`check(func)` then asks: the application case recurses, unconditionally, into `X.fun` and `X.arg` (or, after
`head, args = X.strip_comb()`, into `head` and into every element of `args`); the abstraction case, if the
function has one, into `X.body`."""
import ast

from .astutil import src, walk_no_nested


def _chain(e):
    while isinstance(e, ast.Attribute):
        e = e.value
    return isinstance(e, ast.Name)


def _is_rec(call, name):
    """a call of the function itself: `rec(..)`, `self.method(..)` or `<sub-term>.method(..)` - not the
    method of the same name on some other object (`comb_conv(cv).get_proof_term(t)`)"""
    return isinstance(call, ast.Call) and ((isinstance(call.func, ast.Name) and call.func.id == name) or
                                           (isinstance(call.func, ast.Attribute) and call.func.attr == name and _chain(call.func.value)))


def _branches(fnode):
    """{'is_comb': (subject text, body), 'is_abs': (...)} for kind tests on a plain name"""
    out = {}
    for n in walk_no_nested(fnode, include_root=False):
        if isinstance(n, ast.If) and isinstance(n.test, ast.Call) and isinstance(n.test.func, ast.Attribute) and \
                n.test.func.attr in ('is_comb', 'is_abs') and not n.test.args and isinstance(n.test.func.value, ast.Name):
            out.setdefault(n.test.func.attr, (n.test.func.value.id, n.body))
    return out


def _subject_of(call, name):
    """the term the recursive call is applied to: first argument of rec(t, ..) / receiver of t.method(..)"""
    if isinstance(call.func, ast.Name):
        return call.args[0] if call.args else None
    if isinstance(call.func.value, ast.Name) and call.func.value.id in ('self', 'cls'):
        return call.args[0] if call.args else call.func.value       # self.check_term(t.fun): the term is the argument
    return call.func.value


def _unconditional(node, root_stmts):
    """the call is not under an `and` / IfExp / `if` inside the branch (it is evaluated whenever the branch is)"""
    parent = {}
    for st in root_stmts:
        for n in ast.walk(st):
            for ch in ast.iter_child_nodes(n):
                parent[id(ch)] = n
    cur = node
    while id(cur) in parent:
        p = parent[id(cur)]
        if isinstance(p, ast.BoolOp) and isinstance(p.op, ast.And) and p.values[0] is not cur:
            return False
        if isinstance(p, ast.IfExp) and cur is not p.test:
            return False
        if isinstance(p, ast.If) and cur is not p.test:
            return False
        if isinstance(p, (ast.GeneratorExp, ast.ListComp, ast.SetComp)) and any(g.ifs for g in p.generators):
            return False
        cur = p
    return True


def is_candidate(func):
    name = func.node.name
    br = _branches(func.node)
    if 'is_comb' not in br:
        return False
    subj, body = br['is_comb']
    calls = [c for st in body for c in ast.walk(st) if _is_rec(c, name)]
    if not calls:
        return False
    # the branch does nothing but recurse: returns made of recursive calls, or call statements
    for st in body:
        if isinstance(st, ast.Return) and st.value is not None:
            if not any(_is_rec(c, name) for c in ast.walk(st.value)):
                return False
            if isinstance(st.value, ast.Call) and not _is_rec(st.value, name) and not (
                    isinstance(st.value.func, ast.Name) and st.value.func.id in ('any', 'all', 'sum')):
                return False          # builds a new term from the parts: a transformer, not a predicate / collector
            if not isinstance(st.value, (ast.BoolOp, ast.BinOp, ast.Call)):
                return False
        elif isinstance(st, ast.Expr):
            if not (isinstance(st.value, ast.Call) and _is_rec(st.value, name)):
                return False
        elif isinstance(st, ast.Assign):
            # head, args = t.strip_comb()
            if not (isinstance(st.value, ast.Call) and isinstance(st.value.func, ast.Attribute) and st.value.func.attr == 'strip_comb'):
                return False
        elif isinstance(st, ast.Return):
            continue
        else:
            return False
    return True


def check(func):
    """[(what, ok, detail)]"""
    name = func.node.name
    br = _branches(func.node)
    out = []
    subj, body = br['is_comb']
    calls = [c for st in body for c in ast.walk(st) if _is_rec(c, name)]
    reached = {}
    for c in calls:
        s = _subject_of(c, name)
        if s is not None:
            reached.setdefault(src(s, 80), []).append(c)
    spine = None
    for st in body:
        if isinstance(st, ast.Assign) and isinstance(st.value, ast.Call) and isinstance(st.value.func, ast.Attribute) and \
                st.value.func.attr == 'strip_comb' and isinstance(st.targets[0], ast.Tuple) and len(st.targets[0].elts) == 2:
            spine = [e.id for e in st.targets[0].elts if isinstance(e, ast.Name)]
    if spine and len(spine) == 2:
        head, args = spine
        head_ok = any(_unconditional(c, body) for c in reached.get(head, []))
        # every element of args: a comprehension / loop variable over `args`
        arg_ok = False
        for st in body:
            for n in ast.walk(st):
                if isinstance(n, (ast.GeneratorExp, ast.ListComp)) and any(src(g.iter) == args and not g.ifs for g in n.generators):
                    v = n.generators[0].target
                    if isinstance(v, ast.Name) and any(_unconditional(c, body) or True for c in reached.get(v.id, [])):
                        arg_ok = bool(reached.get(v.id))
        ok = head_ok and arg_ok
        out.append(('application', ok, 'recurses into the head and into every argument' if ok else
                    'after `%s, %s = %s.strip_comb()` the recursion %s: a sub-term in that position is never looked at' % (
                        head, args, subj, 'reaches the head only under a condition (or not at all)' if not head_ok else 'does not cover every argument')))
    else:
        f_ok = any(_unconditional(c, body) for c in reached.get(subj + '.fun', []))
        a_ok = any(_unconditional(c, body) for c in reached.get(subj + '.arg', []))
        # `a or b`: the second operand of a disjunction is evaluated whenever the first is false - that is complete
        ok = f_ok and a_ok
        out.append(('application', ok, 'recurses into %s.fun and %s.arg' % (subj, subj) if ok else
                    'the application case does not recurse into %s: sub-terms there are never looked at' % (
                        ' and '.join(p for p, k in ((subj + '.fun', f_ok), (subj + '.arg', a_ok)) if not k))))
    if 'is_abs' in br:
        asubj, abody = br['is_abs']
        acalls = [c for st in abody for c in ast.walk(st) if _is_rec(c, name)]
        subs = {src(_subject_of(c, name), 80) for c in acalls if _subject_of(c, name) is not None}
        # `_, body = t.dest_abs()` opens the abstraction with a fresh variable: its second component is the body
        opened = {st.targets[0].elts[1].id for st in abody if isinstance(st, ast.Assign) and isinstance(st.value, ast.Call) and
                  isinstance(st.value.func, ast.Attribute) and st.value.func.attr == 'dest_abs' and src(st.value.func.value) == asubj and
                  isinstance(st.targets[0], ast.Tuple) and len(st.targets[0].elts) == 2 and isinstance(st.targets[0].elts[1], ast.Name)}
        ok = (asubj + '.body') in subs or bool(opened & subs)
        out.append(('abstraction', ok, 'recurses into %s.body' % asubj if ok else
                    'the abstraction case does not recurse into %s.body: what is under a binder is never looked at' % asubj))
    return out


def traversal_rule(repo, rid, title, funcs, why):
    """funcs: [(module rel, qualified name)] confirmed by reading; why: what goes wrong when one is incomplete"""
    from .core import RuleResult, need
    res = RuleResult(rid, title, floor=len(funcs))
    for rel, qual in funcs:
        f = repo.func(rel, qual)
        need(is_candidate(f), '%s :: %s is no longer a plain structural recursion over is_comb() / is_abs() (the traversal rule cannot judge it)' % (rel, qual))
        for what, ok, detail in check(f):
            res.add('%s :: %s :: traverses(%s)' % (rel, qual, what), ok, detail if ok else detail + ' -- ' + why, f.loc)
    return res
