"""Completeness of structural recursions over terms.

A predicate "does x occur in t" or a collector "all type variables of t" is right only if it looks at every
sub-term: at the function part *and* the argument of an application, and at the body of an abstraction.
Guards of several properties rest on such functions (side conditions, freeness tests, closedness, the
type-variable condition of definitions, vacuous-quantifier elimination before the Z3 translation).

`candidates(module)` finds them by shape: a function (or nested helper) that dispatches on is_comb() /
is_abs() of its term parameter and, in the application case, does nothing but recurse - it returns a
disjunction / any() / all() / sum of calls of itself, or consists of statements that call itself.
`check(func)` then asks: the application case recurses, unconditionally, into `X.fun` and `X.arg` (or, after
`head, args = X.strip_comb()`, into `head` and into every element of `args`); the abstraction case, if the
function has one, into `X.body`."""
import ast

from .astutil import src, walk_no_nested


def _chain(e):
    while isinstance(e, ast.Attribute):
        e = e.value
    return isinstance(e, ast.Name)


def _is_rec(call, name):
    """a call of the function itself: `rec(..)`, `self.method(..)` or `<sub-term>.method(..)` - not the
    method of the same name on some other object (`comb_conv(cv).get_proof_term(t)`)"""
    return isinstance(call, ast.Call) and ((isinstance(call.func, ast.Name) and call.func.id == name) or
                                           (isinstance(call.func, ast.Attribute) and call.func.attr == name and _chain(call.func.value)))


def _branches(fnode):
    """{'is_comb': (subject text, body), 'is_abs': (...)} for kind tests on a plain name"""
    out = {}
    for n in walk_no_nested(fnode, include_root=False):
        if isinstance(n, ast.If) and isinstance(n.test, ast.Call) and isinstance(n.test.func, ast.Attribute) and \
                n.test.func.attr in ('is_comb', 'is_abs') and not n.test.args and isinstance(n.test.func.value, ast.Name):
            out.setdefault(n.test.func.attr, (n.test.func.value.id, n.body))
    return out


def _subject_of(call, name):
    """the term the recursive call is applied to: first argument of rec(t, ..) / receiver of t.method(..)"""
    if isinstance(call.func, ast.Name):
        return call.args[0] if call.args else None
    if isinstance(call.func.value, ast.Name) and call.func.value.id in ('self', 'cls'):
        return call.args[0] if call.args else call.func.value       # self.check_term(t.fun): the term is the argument
    return call.func.value


def _unconditional(node, root_stmts):
    """the call is not under an `and` / IfExp / `if` inside the branch (it is evaluated whenever the branch is)"""
    parent = {}
    for st in root_stmts:
        for n in ast.walk(st):
            for ch in ast.iter_child_nodes(n):
                parent[id(ch)] = n
    cur = node
    while id(cur) in parent:
        p = parent[id(cur)]
        if isinstance(p, ast.BoolOp) and isinstance(p.op, ast.And) and p.values[0] is not cur:
            return False
        if isinstance(p, ast.IfExp) and cur is not p.test:
            return False
        if isinstance(p, ast.If) and cur is not p.test:
            return False
        if isinstance(p, (ast.GeneratorExp, ast.ListComp, ast.SetComp)) and any(g.ifs for g in p.generators):
            return False
        cur = p
    return True


def is_candidate(func):
    name = func.node.name
    br = _branches(func.node)
    if 'is_comb' not in br:
        return False
    subj, body = br['is_comb']
    calls = [c for st in body for c in ast.walk(st) if _is_rec(c, name)]
    if not calls:
        return False
    # the branch does nothing but recurse: returns made of recursive calls, or call statements
    for st in body:
        if isinstance(st, ast.Return) and st.value is not None:
            if not any(_is_rec(c, name) for c in ast.walk(st.value)):
                return False
            if isinstance(st.value, ast.Call) and not _is_rec(st.value, name) and not (
                    isinstance(st.value.func, ast.Name) and st.value.func.id in ('any', 'all', 'sum')):
                return False          # builds a new term from the parts: a transformer, not a predicate / collector
            if not isinstance(st.value, (ast.BoolOp, ast.BinOp, ast.Call)):
                return False
        elif isinstance(st, ast.Expr):
            if not (isinstance(st.value, ast.Call) and _is_rec(st.value, name)):
                return False
        elif isinstance(st, ast.Assign):
            # head, args = t.strip_comb()
            if not (isinstance(st.value, ast.Call) and isinstance(st.value.func, ast.Attribute) and st.value.func.attr == 'strip_comb'):
                return False
        elif isinstance(st, ast.Return):
            continue
        elif isinstance(st, ast.If) and not st.orelse and len(st.body) == 1 and isinstance(st.body[0], ast.Return) and \
                isinstance(st.body[0].value, ast.Constant) and isinstance(st.body[0].value.value, bool):
            # `if rec(a): return True` / `if not rec(a): return False`: one operand of the disjunction / conjunction, spelled out
            t = st.test.operand if isinstance(st.test, ast.UnaryOp) and isinstance(st.test.op, ast.Not) else st.test
            if not _is_rec(t, name):
                return False
        else:
            return False
    return True


def check(func):
    """[(what, ok, detail)]"""
    name = func.node.name
    br = _branches(func.node)
    out = []
    subj, body = br['is_comb']
    calls = [c for st in body for c in ast.walk(st) if _is_rec(c, name)]
    reached = {}
    for c in calls:
        s = _subject_of(c, name)
        if s is not None:
            reached.setdefault(src(s, 80), []).append(c)
    spine = None
    for st in body:
        if isinstance(st, ast.Assign) and isinstance(st.value, ast.Call) and isinstance(st.value.func, ast.Attribute) and \
                st.value.func.attr == 'strip_comb' and isinstance(st.targets[0], ast.Tuple) and len(st.targets[0].elts) == 2:
            spine = [e.id for e in st.targets[0].elts if isinstance(e, ast.Name)]
    if spine and len(spine) == 2:
        head, args = spine
        head_ok = any(_unconditional(c, body) for c in reached.get(head, []))
        # every element of args: a comprehension / loop variable over `args`
        arg_ok = False
        for st in body:
            for n in ast.walk(st):
                if isinstance(n, (ast.GeneratorExp, ast.ListComp)) and any(src(g.iter) == args and not g.ifs for g in n.generators):
                    v = n.generators[0].target
                    if isinstance(v, ast.Name) and any(_unconditional(c, body) or True for c in reached.get(v.id, [])):
                        arg_ok = bool(reached.get(v.id))
        ok = head_ok and arg_ok
        out.append(('application', ok, 'recurses into the head and into every argument' if ok else
                    'after `%s, %s = %s.strip_comb()` the recursion %s: a sub-term in that position is never looked at' % (
                        head, args, subj, 'reaches the head only under a condition (or not at all)' if not head_ok else 'does not cover every argument')))
    else:
        f_ok = any(_unconditional(c, body) for c in reached.get(subj + '.fun', []))
        a_ok = any(_unconditional(c, body) for c in reached.get(subj + '.arg', []))
        # `a or b`: the second operand of a disjunction is evaluated whenever the first is false - that is complete
        ok = f_ok and a_ok
        out.append(('application', ok, 'recurses into %s.fun and %s.arg' % (subj, subj) if ok else
                    'the application case does not recurse into %s: sub-terms there are never looked at' % (
                        ' and '.join(p for p, k in ((subj + '.fun', f_ok), (subj + '.arg', a_ok)) if not k))))
    if 'is_abs' in br:
        asubj, abody = br['is_abs']
        acalls = [c for st in abody for c in ast.walk(st) if _is_rec(c, name)]
        subs = {src(_subject_of(c, name), 80) for c in acalls if _subject_of(c, name) is not None}
        # `_, body = t.dest_abs()` opens the abstraction with a fresh variable: its second component is the body
        opened = {st.targets[0].elts[1].id for st in abody if isinstance(st, ast.Assign) and isinstance(st.value, ast.Call) and
                  isinstance(st.value.func, ast.Attribute) and st.value.func.attr == 'dest_abs' and src(st.value.func.value) == asubj and
                  isinstance(st.targets[0], ast.Tuple) and len(st.targets[0].elts) == 2 and isinstance(st.targets[0].elts[1], ast.Name)}
        ok = (asubj + '.body') in subs or bool(opened & subs)
        out.append(('abstraction', ok, 'recurses into %s.body' % asubj if ok else
                    'the abstraction case does not recurse into %s.body: what is under a binder is never looked at' % asubj))
    return out


def traversal_rule(repo, rid, title, funcs, why):
    """funcs: [(module rel, qualified name)] confirmed by reading; why: what goes wrong when one is incomplete"""
    from .core import RuleResult, need
    res = RuleResult(rid, title, floor=len(funcs))
    for rel, qual in funcs:
        f = repo.func(rel, qual)
        need(is_candidate(f), '%s :: %s is no longer a plain structural recursion over is_comb() / is_abs() (the traversal rule cannot judge it)' % (rel, qual))
        for what, ok, detail in check(f):
            res.add('%s :: %s :: traverses(%s)' % (rel, qual, what), ok, detail if ok else detail + ' -- ' + why, f.loc)
    return res


# ---------------------------------------------------------------------------------------------------------------
# de Bruijn depth discipline

def depth_functions(module):
    """[(func, depth parameter)]: recursive functions over terms that use one of their parameters as the number
    of binders passed so far - the bound-variable case compares / combines `X.n` with it, or returns Bound(param)"""
    out = []
    for f in module.all_funcs:
        name = f.node.name
        params = f.params()
        if not any(_is_rec(c, name) for c in ast.walk(f.node) if isinstance(c, ast.Call)):
            continue
        br = _branches(f.node)
        if 'is_abs' not in br:
            continue
        depth = None
        for n in walk_no_nested(f.node, include_root=False):
            if isinstance(n, (ast.Compare, ast.BinOp)):
                names = {x.id for x in ast.walk(n) if isinstance(x, ast.Name)}
                has_n = any(isinstance(x, ast.Attribute) and x.attr == 'n' for x in ast.walk(n))
                terms = {x.value.id for x in ast.walk(n) if isinstance(x, ast.Attribute) and isinstance(x.value, ast.Name)}
                cand = [p for p in params if p in names and p not in terms]
                if has_n and cand:
                    depth = cand[0]
            if isinstance(n, ast.Call) and isinstance(n.func, ast.Name) and n.func.id == 'Bound' and n.args and isinstance(n.args[0], ast.Name) and \
                    n.args[0].id in params:
                depth = n.args[0].id
        if depth:
            # a list of binder types (`bd_vars[t.n]`, `len(bd_vars)`) is a context, not a counter: another discipline
            is_list = any((isinstance(x, ast.Subscript) and isinstance(x.value, ast.Name) and x.value.id == depth) or
                          (isinstance(x, ast.Call) and isinstance(x.func, ast.Name) and x.func.id == 'len' and x.args and
                           isinstance(x.args[0], ast.Name) and x.args[0].id == depth) for x in ast.walk(f.node))
            if not is_list:
                out.append((f, depth))
    return out


def check_depth(func, depth):
    """[(what, ok, detail)]: the recursion passes depth + 1 into the body of an abstraction and the depth
    unchanged into the parts of an application"""
    name = func.node.name
    br = _branches(func.node)
    params = func.params()
    pos = params.index(depth)
    out = []

    def depth_arg(c):
        # position among the call's arguments (methods: self is not in args for t.method(..) calls)
        i = pos if isinstance(c.func, ast.Name) else pos - 1
        if 0 <= i < len(c.args):
            return c.args[i]
        for k in c.keywords:
            if k.arg == depth:
                return k.value
        return None
    if 'is_abs' in br:
        subj, body = br['is_abs']
        calls = [c for st in body for c in ast.walk(st) if _is_rec(c, name)]
        bad = []
        for c in calls:
            a = depth_arg(c)
            ok = isinstance(a, ast.BinOp) and isinstance(a.op, ast.Add) and \
                ((isinstance(a.left, ast.Name) and a.left.id == depth and isinstance(a.right, ast.Constant) and a.right.value == 1) or
                 (isinstance(a.right, ast.Name) and a.right.id == depth and isinstance(a.left, ast.Constant) and a.left.value == 1))
            if not ok:
                bad.append(c)
        out.append(('abstraction', bool(calls) and not bad,
                    'the body is visited at depth %s + 1' % depth if calls and not bad else
                    'the body of an abstraction is visited with `%s` as depth, not `%s + 1`: a bound variable of the term itself is taken for '
                    'a loose one (or the other way round) under every binder' % (src(depth_arg(bad[0]), 30) if bad and depth_arg(bad[0]) is not None else '?', depth)))
    if 'is_comb' in br:
        subj, body = br['is_comb']
        calls = [c for st in body for c in ast.walk(st) if _is_rec(c, name)]
        bad = [c for c in calls if not (isinstance(depth_arg(c), ast.Name) and depth_arg(c).id == depth)]
        out.append(('application', bool(calls) and not bad,
                    'function part and argument are visited at the same depth' if calls and not bad else
                    'a part of an application is visited at another depth than the application itself'))
    return out


def depth_rule(repo, rid, title, rels, floor, why):
    from .core import RuleResult
    res = RuleResult(rid, title, floor=floor)
    for rel in rels:
        for f, depth in depth_functions(repo.module(rel)):
            for what, ok, detail in check_depth(f, depth):
                res.add('%s :: %s :: depth(%s)@%s' % (rel, f.qualname, depth, what), ok, detail if ok else detail + ' -- ' + why, f.loc)
    return res
