"""A2: statement-level control-flow graph of one function, with short-circuit decomposition of
boolean tests (`and` / `or` / `not`), plus the path queries the rules use.

Node kinds
  entry, exit (normal completion: `return` or falling off the end), raise (exception leaves the
  function), stmt (simple statement), test (one atomic condition of if/while/assert/elif),
  iter (head of a `for`), except (entry of a handler), join (no-op), assertfail.

Edge labels: next, true, false, loop, done, exc, return, raise, break, continue.

Exceptions are modelled for explicit `raise`, failing `assert`, and - inside a `try` body - for
every statement (edge `exc` to each handler of that try).  Implicit exceptions outside a `try`
are not edges (they leave the function and never reach a `return`).  `finally` is modelled as one
block that every abrupt exit of the `try` is routed through, leaving towards every continuation
that was routed in (an over-approximation of paths: sound for must-pass-through queries).
"""
import ast


class Node:
    __slots__ = ('id', 'kind', 'ast', 'stmt', 'succ', 'pred')

    def __init__(self, id, kind, astnode=None, stmt=None):
        self.id = id
        self.kind = kind
        self.ast = astnode
        self.stmt = stmt
        self.succ = []
        self.pred = []

    @property
    def lineno(self):
        n = self.ast if self.ast is not None else self.stmt
        return getattr(n, 'lineno', 0)

    def __repr__(self):
        return '<%s#%d L%s>' % (self.kind, self.id, self.lineno)


class CFG:
    def __init__(self, funcnode):
        self.func = funcnode
        self.nodes = []
        self.entry = self._new('entry')
        self.exit = self._new('exit')
        self.raise_exit = self._new('raise')
        self._loops = []     # (break_list, continue_target)
        self._tries = []     # dicts: handlers, finally_entry, routed
        self.by_ast = {}
        out = self._block(funcnode.body, [(self.entry, 'next')])
        self._connect(out, self.exit)

    # ------------------------------------------------------------------ construction
    def _new(self, kind, astnode=None, stmt=None):
        n = Node(len(self.nodes), kind, astnode, stmt)
        self.nodes.append(n)
        if astnode is not None:
            self.by_ast.setdefault(id(astnode), []).append(n)
        for t in self._tries_active():
            t['body_nodes'].append(n)
        return n

    def _tries_active(self):
        return [t for t in getattr(self, '_tries', []) if t['in_body']]

    def _edge(self, a, label, b):
        a.succ.append((b, label))
        b.pred.append((a, label))

    def _connect(self, dangling, node):
        for (a, label) in dangling:
            self._edge(a, label, node)

    def _block(self, stmts, preds):
        for s in stmts:
            preds = self._stmt(s, preds)
        return preds

    def _test(self, expr, preds, stmt):
        """Returns (true_dangling, false_dangling)."""
        if isinstance(expr, ast.BoolOp) and isinstance(expr.op, ast.And):
            falses = []
            cur = preds
            for v in expr.values:
                t, f = self._test(v, cur, stmt)
                falses.extend(f)
                cur = t
            return cur, falses
        if isinstance(expr, ast.BoolOp) and isinstance(expr.op, ast.Or):
            trues = []
            cur = preds
            for v in expr.values:
                t, f = self._test(v, cur, stmt)
                trues.extend(t)
                cur = f
            return trues, cur
        if isinstance(expr, ast.UnaryOp) and isinstance(expr.op, ast.Not):
            t, f = self._test(expr.operand, preds, stmt)
            return f, t
        n = self._new('test', expr, stmt)
        self._connect(preds, n)
        return [(n, 'true')], [(n, 'false')]

    def _abrupt(self, node, label, kind):
        """Route an abrupt exit (return / raise / break / continue) from `node`."""
        for t in reversed(self._tries):
            if kind in ('break', 'continue') and t['loop_depth'] < len(self._loops):
                break       # the loop lies inside this try: nothing further out intercepts
            if kind == 'raise' and t['in_body'] and t['handlers']:
                for h in t['handlers']:
                    if not any(b is h for (b, _l) in node.succ):
                        self._edge(node, 'exc', h)
                if t['catch_all']:
                    return
            if t['finally_entry'] is not None and not t['in_finally']:
                self._edge(node, label, t['finally_entry'])
                t['routed'].add(kind)
                return
        if kind == 'return':
            self._edge(node, label, self.exit)
        elif kind == 'raise':
            self._edge(node, label, self.raise_exit)
        elif kind == 'break':
            self._loops[-1][0].append((node, label))
        elif kind == 'continue':
            self._edge(node, label, self._loops[-1][1])

    def _stmt(self, s, preds):
        if isinstance(s, ast.If):
            t, f = self._test(s.test, preds, s)
            out = self._block(s.body, t)
            out2 = self._block(s.orelse, f)
            return out + out2
        if isinstance(s, ast.While):
            head = self._new('join', None, s)
            self._connect(preds, head)
            t, f = self._test(s.test, [(head, 'next')], s)
            breaks = []
            self._loops.append((breaks, head))
            out = self._block(s.body, t)
            self._loops.pop()
            self._connect(out, head)
            out2 = self._block(s.orelse, f)
            return out2 + breaks
        if isinstance(s, (ast.For, ast.AsyncFor)):
            it = self._new('iter', s, s)
            self._connect(preds, it)
            breaks = []
            self._loops.append((breaks, it))
            out = self._block(s.body, [(it, 'loop')])
            self._loops.pop()
            self._connect(out, it)
            out2 = self._block(s.orelse, [(it, 'done')])
            return out2 + breaks
        if isinstance(s, ast.Try):
            return self._try(s, preds)
        if isinstance(s, (ast.With, ast.AsyncWith)):
            n = self._new('stmt', s, s)
            self._connect(preds, n)
            return self._block(s.body, [(n, 'next')])
        if isinstance(s, ast.Return):
            n = self._new('stmt', s, s)
            self._connect(preds, n)
            self._abrupt(n, 'return', 'return')
            return []
        if isinstance(s, ast.Raise):
            n = self._new('stmt', s, s)
            self._connect(preds, n)
            self._abrupt(n, 'raise', 'raise')
            return []
        if isinstance(s, ast.Assert):
            t, f = self._test(s.test, preds, s)
            n = self._new('assertfail', s, s)
            self._connect(f, n)
            self._abrupt(n, 'raise', 'raise')
            return t
        if isinstance(s, ast.Break):
            n = self._new('stmt', s, s)
            self._connect(preds, n)
            self._abrupt(n, 'break', 'break')
            return []
        if isinstance(s, ast.Continue):
            n = self._new('stmt', s, s)
            self._connect(preds, n)
            self._abrupt(n, 'continue', 'continue')
            return []
        # simple statement (incl. nested def/class, which are opaque here)
        n = self._new('stmt', s, s)
        self._connect(preds, n)
        return [(n, 'next')]

    def _try(self, s, preds):
        handlers = []
        catch_all = False
        rec = {'handlers': handlers, 'catch_all': False, 'finally_entry': None, 'in_body': False,
               'in_finally': False, 'routed': set(), 'body_nodes': [], 'loop_depth': len(self._loops)}
        if s.finalbody:
            # created before the body so abrupt exits can be routed to it
            rec['finally_entry'] = self._new('join', None, s)
        # handler entry nodes are created up-front (outside the body region)
        for h in s.handlers:
            hn = self._new('except', h, s)
            handlers.append(hn)
            if h.type is None or (isinstance(h.type, ast.Name) and h.type.id in ('Exception', 'BaseException')):
                catch_all = True
        rec['catch_all'] = catch_all
        self._tries.append(rec)
        rec['in_body'] = True
        out = self._block(s.body, preds)
        rec['in_body'] = False
        for n in rec['body_nodes']:
            if n.kind in ('join',):
                continue
            for hn in handlers:
                if not any(b is hn for (b, _l) in n.succ):
                    self._edge(n, 'exc', hn)
        out = self._block(s.orelse, out)
        outs = list(out)
        for h, hn in zip(s.handlers, handlers):
            outs += self._block(h.body, [(hn, 'next')])
        self._tries.pop()
        if s.finalbody:
            fe = rec['finally_entry']
            self._connect(outs, fe)
            rec['in_finally'] = True
            self._tries.append(rec)
            fout = self._block(s.finalbody, [(fe, 'next')])
            self._tries.pop()
            fjoin = self._new('join', None, s)
            self._connect(fout, fjoin)
            for kind in rec['routed']:
                self._abrupt(fjoin, kind, kind)
            return [(fjoin, 'next')]
        return outs

    # ------------------------------------------------------------------ queries
    def reach_from(self, start, skip_nodes=(), skip_edges=()):
        """Set of node ids reachable from `start` (a node or list), never entering `skip_nodes`
        and never following `skip_edges` ((node_id, label) pairs)."""
        skip_nodes = {n.id if isinstance(n, Node) else n for n in skip_nodes}
        skip_edges = set(skip_edges)
        starts = start if isinstance(start, (list, tuple, set)) else [start]
        seen = set()
        todo = [n for n in starts if n.id not in skip_nodes]
        while todo:
            n = todo.pop()
            if n.id in seen:
                continue
            seen.add(n.id)
            for (b, label) in n.succ:
                if b.id in skip_nodes or (n.id, label) in skip_edges:
                    continue
                todo.append(b)
        return seen

    def path_avoiding(self, target, skip_nodes=(), skip_edges=(), start=None):
        """A path (list of nodes) from entry (or `start`) to `target` that avoids the given
        nodes/edges, or None.  None means: every path passes one of them (must-pass-through)."""
        skip_nodes = {n.id if isinstance(n, Node) else n for n in skip_nodes}
        skip_edges = set(skip_edges)
        start = start or self.entry
        if start.id in skip_nodes:
            return None
        prev = {start.id: None}
        todo = [start]
        while todo:
            n = todo.pop(0)
            if n is target:
                path = []
                cur = n
                while cur is not None:
                    path.append(cur)
                    cur = prev[cur.id]
                return list(reversed(path))
            for (b, label) in n.succ:
                if b.id in skip_nodes or (n.id, label) in skip_edges or b.id in prev:
                    continue
                prev[b.id] = n
                todo.append(b)
        return None

    def path_avoiding_consistent(self, target, skip_edges=(), atom_key=None, start=None, limit=200000):
        """Like path_avoiding, but a path must take the same side at every test node that `atom_key`
        maps to the same key (two tests of one unchanged condition cannot disagree).  atom_key(test node)
        returns a hashable key or None (uncorrelated).  Falls back to the plain search beyond `limit`
        states (an over-approximation of paths, still sound for must-pass queries)."""
        skip_edges = set(skip_edges)
        start = start or self.entry
        keys = {n.id: (atom_key(n) if atom_key else None) for n in self.nodes if n.kind == 'test'}
        seen = set()
        todo = [(start, frozenset())]
        while todo:
            n, asg = todo.pop()
            if (n.id, asg) in seen:
                continue
            seen.add((n.id, asg))
            if len(seen) > limit:
                return self.path_avoiding(target, skip_edges=skip_edges, start=start)
            if n is target:
                return [n]
            for (b, label) in n.succ:
                if (n.id, label) in skip_edges:
                    continue
                nasg = asg
                k = keys.get(n.id)
                if k is not None and label in ('true', 'false'):
                    val = label == 'true'
                    d = dict(asg)
                    if k in d and d[k] != val:
                        continue
                    if k not in d:
                        nasg = asg | {(k, val)}
                todo.append((b, nasg))
        return None

    def dominates(self, a, b):
        return a is b or self.path_avoiding(b, skip_nodes=[a]) is None

    def postdominates_exit(self, a, w, exits=None):
        """Every path from w to a normal exit passes a."""
        exits = exits or [self.exit]
        r = self.reach_from(w, skip_nodes=[a])
        return not any(e.id in r for e in exits)

    def can_reach(self, a, b, skip_nodes=(), skip_edges=()):
        return b.id in self.reach_from(a, skip_nodes, skip_edges)

    def reaching_assignments(self, node, name):
        """Assignment statements to `name` that may reach `node` (no other assignment to `name` in
        between).  Loop targets and with-as bindings count as assignments."""
        def assigns(n):
            a = n.ast
            if n.kind == 'iter':
                return any(isinstance(x, ast.Name) and x.id == name for x in ast.walk(a.target))
            if n.kind != 'stmt':
                return False
            tgts = []
            if isinstance(a, ast.Assign):
                tgts = a.targets
            elif isinstance(a, (ast.AugAssign, ast.AnnAssign)):
                tgts = [a.target]
            elif isinstance(a, (ast.With, ast.AsyncWith)):
                tgts = [i.optional_vars for i in a.items if i.optional_vars is not None]
            return any(isinstance(x, ast.Name) and x.id == name for t in tgts for x in ast.walk(t))
        defs = [n for n in self.nodes if assigns(n)]
        res = []
        for d in defs:
            others = [o for o in defs if o is not d and o is not node]
            starts = [b for (b, _l) in d.succ]
            reach = self.reach_from(starts, skip_nodes=others) if starts else set()
            if node.id in reach:
                res.append(d)
        return res

    def value_at(self, node, expr, depth=5):
        """A copy of expr as it reads at `node`: a local name with exactly one reaching assignment `x = <rhs>` (plain, single
        target) is replaced by <rhs> as it reads at that assignment, repeatedly.  Parameters, names with several reaching
        assignments, loop targets and unpacked tuples stay."""
        import copy
        cfg = self
        params = {a.arg for a in ast.walk(self.func.args) if isinstance(a, ast.arg)} if hasattr(self, 'func') and hasattr(self.func, 'args') else set()

        class T(ast.NodeTransformer):
            def __init__(self, at, d):
                self.at, self.d = at, d

            def visit_Name(self, n):
                if not isinstance(n.ctx, ast.Load) or self.d <= 0:
                    return n
                defs = cfg.reaching_assignments(self.at, n.id)
                if len(defs) == 1 and defs[0].kind == 'stmt' and isinstance(defs[0].ast, ast.Assign) and len(defs[0].ast.targets) == 1 and \
                        isinstance(defs[0].ast.targets[0], ast.Name) and defs[0] is not self.at:
                    return T(defs[0], self.d - 1).visit(copy.deepcopy(defs[0].ast.value))
                return n

            def _scoped(self, n):
                return n        # names bound inside are not the function's locals: left alone (their iterables too, conservatively)
            visit_Lambda = _scoped

            def _comp(self, n):
                bound = {x.id for g in n.generators for x in ast.walk(g.target) if isinstance(x, ast.Name)}
                outer = self

                class Inner(T):
                    def visit_Name(self, m):
                        if m.id in bound:
                            return m
                        return T.visit_Name(self, m)
                return Inner(outer.at, outer.d).generic_visit(n)
            visit_ListComp = visit_SetComp = visit_GeneratorExp = visit_DictComp = _comp
        return T(node, depth).visit(copy.deepcopy(expr))

    def nodes_of_kind(self, *kinds):
        return [n for n in self.nodes if n.kind in kinds]

    def stmt_nodes(self, cls=None):
        return [n for n in self.nodes if n.kind == 'stmt' and (cls is None or isinstance(n.ast, cls))]

    def return_nodes(self):
        return self.stmt_nodes(ast.Return)

    def test_nodes(self):
        return [n for n in self.nodes if n.kind == 'test']

    def node_for(self, astnode):
        """CFG node whose statement/test contains `astnode` (searching sub-expressions)."""
        for n in self.nodes:
            if n.ast is None:
                continue
            if n.kind in ('stmt', 'test', 'assertfail'):
                root = n.ast
                # compound 'with' / 'for' nodes own only their header expressions
                if isinstance(root, (ast.With, ast.AsyncWith)):
                    roots = [i.context_expr for i in root.items]
                else:
                    roots = [root]
            elif n.kind == 'iter':
                roots = [n.ast.iter, n.ast.target]
            elif n.kind == 'except':
                roots = [n.ast.type] if n.ast.type is not None else []
            else:
                continue
            for r in roots:
                for sub in ast.walk(r):
                    if sub is astnode:
                        return n
        return None

    def establishing_edges(self, pred):
        """Edges (node_id, label) of test nodes on which `pred(expr, polarity)` says the wanted
        fact holds.  pred gets the atomic test expression and True/False for the edge taken."""
        res = set()
        for n in self.test_nodes():
            for pol, label in ((True, 'true'), (False, 'false')):
                if pred(n.ast, pol):
                    res.add((n.id, label))
        return res

    def headers(self, n):
        """Expressions evaluated at node n."""
        if n.kind in ('test',):
            return [n.ast]
        if n.kind == 'iter':
            return [n.ast.iter]
        if n.kind == 'stmt':
            if isinstance(n.ast, (ast.With, ast.AsyncWith)):
                return [i.context_expr for i in n.ast.items]
            if isinstance(n.ast, (ast.FunctionDef, ast.AsyncFunctionDef, ast.ClassDef)):
                return []
            return [n.ast]
        return []

    def count_paths(self, limit=100000):
        """Number of acyclic entry->exit/raise paths (back edges ignored), capped."""
        memo = {}
        onstack = set()

        def go(n):
            if n is self.exit or n is self.raise_exit:
                return 1
            if n.id in memo:
                return memo[n.id]
            if n.id in onstack:
                return 0
            onstack.add(n.id)
            tot = 0
            for (b, _l) in n.succ:
                tot += go(b)
                if tot > limit:
                    tot = limit
                    break
            onstack.discard(n.id)
            memo[n.id] = tot
            return tot
        import sys
        old = sys.getrecursionlimit()
        sys.setrecursionlimit(max(old, 10000))
        try:
            return go(self.entry)
        finally:
            sys.setrecursionlimit(old)


_cfg_cache = {}


def cfg_of(funcnode):
    k = id(funcnode)
    if k not in _cfg_cache:
        _cfg_cache[k] = (funcnode, CFG(funcnode))
    return _cfg_cache[k][1]


# ---------------------------------------------------------------------- boolean returns as branches
_desugared = {}


def desugar_bool_returns(funcnode):
    """A copy of the function in which `return <boolean expression>` (and / or / not / comparison) is written
    as `if <expression>: return True` / `else: return False`, so that a predicate written as one expression and the
    same predicate written with early returns have the same flow graph (short-circuit tests, constant returns).
    Positions are kept; nested functions are left alone."""
    import copy
    k = id(funcnode)
    if k in _desugared:
        return _desugared[k][1]

    class T(ast.NodeTransformer):
        def __init__(self):
            self.depth = 0

        def visit_FunctionDef(self, node):
            self.depth += 1
            if self.depth > 1:
                self.depth -= 1
                return node
            self.generic_visit(node)
            self.depth -= 1
            return node

        def visit_Lambda(self, node):
            return node

        def visit_Return(self, node):
            v = node.value
            if isinstance(v, (ast.BoolOp, ast.Compare)) or (isinstance(v, ast.UnaryOp) and isinstance(v.op, ast.Not)):
                t = ast.copy_location(ast.Return(value=ast.copy_location(ast.Constant(value=True), node)), node)
                f = ast.copy_location(ast.Return(value=ast.copy_location(ast.Constant(value=False), node)), node)
                new = ast.copy_location(ast.If(test=v, body=[t], orelse=[f]), node)
                return ast.fix_missing_locations(new)
            return node
    new = T().visit(copy.deepcopy(funcnode))
    ast.fix_missing_locations(new)
    _desugared[k] = (funcnode, new)
    return new


# ---------------------------------------------------------------------- named conditions read at their tests
_named_inlined = {}


def inline_named_conditions(funcnode):
    """A copy of the function in which a local that names a condition - `both = a.is_x() and b.is_x()`, assigned
    once, outside any loop, from a boolean expression - is replaced by that expression where an `if` / `while` /
    `assert` / conditional expression tests it.  The replacement is made only if nothing the expression mentions is
    assigned after the definition (textually; parameters and names assigned before it only), so the test reads the
    same values.  A rule that follows tests about its subject then sees them whether or not they were given a name."""
    import copy
    k = id(funcnode)
    if k in _named_inlined:
        return _named_inlined[k][1]
    new = copy.deepcopy(funcnode)
    defs, stores, in_loop = {}, {}, set()

    def scan(stmts, loop):
        for s in stmts:
            if isinstance(s, (ast.FunctionDef, ast.AsyncFunctionDef, ast.ClassDef)):
                continue
            compound = isinstance(s, (ast.If, ast.For, ast.While, ast.Try, ast.With))
            heads = [s] if not compound else [x for x in (getattr(s, 'test', None), getattr(s, 'target', None), getattr(s, 'iter', None)) if x is not None] + \
                [y for it in getattr(s, 'items', []) for y in (it.context_expr, it.optional_vars) if y is not None]
            for hd in heads:
                for n in ast.walk(hd):
                    if isinstance(n, ast.Name) and isinstance(n.ctx, (ast.Store, ast.Del)):
                        stores.setdefault(n.id, []).append(n.lineno)
            for h in getattr(s, 'handlers', []) or []:
                if h.name:
                    stores.setdefault(h.name, []).append(h.lineno)
            if isinstance(s, ast.Assign) and len(s.targets) == 1 and isinstance(s.targets[0], ast.Name):
                defs.setdefault(s.targets[0].id, []).append(s)
                if loop:
                    in_loop.add(s.targets[0].id)
            for fld in ('body', 'orelse', 'finalbody'):
                sub = getattr(s, fld, None)
                if isinstance(sub, list) and sub and isinstance(sub[0], ast.stmt):
                    scan(sub, loop or isinstance(s, (ast.For, ast.While)))
            for h in getattr(s, 'handlers', []) or []:
                scan(h.body, loop)
    scan(new.body, False)
    params = {a.arg for a in ast.walk(new.args) if isinstance(a, ast.arg)}
    table = {}
    for name, ds in defs.items():
        if len(ds) != 1 or name in in_loop or len(stores.get(name, [])) != 1 or name in params:
            continue
        v = ds[0].value
        if not (isinstance(v, (ast.BoolOp, ast.Compare)) or (isinstance(v, ast.UnaryOp) and isinstance(v.op, ast.Not)) or
                (isinstance(v, ast.Call) and isinstance(v.func, ast.Attribute) and v.func.attr.startswith('is_') and not v.args)):
            continue
        line = ds[0].lineno
        mentioned = {n.id for n in ast.walk(v) if isinstance(n, ast.Name)}
        if any(l >= line for m in mentioned for l in stores.get(m, [])):
            continue
        table[name] = v

    class Sub(ast.NodeTransformer):
        def visit_Name(self, node):
            if isinstance(node.ctx, ast.Load) and node.id in table:
                return ast.copy_location(Sub().visit(copy.deepcopy(table[node.id])), node)
            return node

    class T(ast.NodeTransformer):
        def visit_FunctionDef(self, node):
            if node is not new:
                return node
            return self.generic_visit(node)

        def visit_If(self, node):
            self.generic_visit(node)
            node.test = Sub().visit(node.test)
            return node
        visit_While = visit_IfExp = visit_Assert = visit_If
    if table:
        T().visit(new)
        ast.fix_missing_locations(new)
    else:
        new = funcnode
    _named_inlined[k] = (funcnode, new)
    return new
