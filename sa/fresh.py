"""Fresh-name discipline.  `name.get_variant_name(suggestion, avoid)` returns a name outside `avoid`.  The
repository uses it in two ways, and each is sound only under its own condition:
  (a) the avoid list is computed in the activation that opens the binder, from the terms it opens
      (Term.dest_abs, auto.solve, first_order_match);
  (b) one list is shared by a whole traversal, and every chosen name is appended to it before the traversal
      goes on (z3wrapper.convert, fologic.skolem, pprint).
A shared list that is never extended gives two nested binders of one name the same replacement variable."""
import ast

from .astutil import src, call_name, call_attr, is_name


def _sum_parts(e):
    if isinstance(e, ast.BinOp) and isinstance(e.op, ast.Add):
        return _sum_parts(e.left) + _sum_parts(e.right)
    return [e]


def fresh_sites(func):
    """[(call node, avoid-list expr, how, ok, detail)] for every get_variant_name call directly in func (not in nested functions)"""
    out = []
    own = set()
    nested = [n for n in ast.walk(func.node) if isinstance(n, (ast.FunctionDef, ast.Lambda)) and n is not func.node]
    inner = {id(x) for n in nested for x in ast.walk(n) if x is not n}
    for n in ast.walk(func.node):
        if id(n) in inner:
            continue
        if isinstance(n, ast.Assign):
            for t in n.targets:
                for x in ast.walk(t):
                    if isinstance(x, ast.Name):
                        own.add(x.id)
    params = set(func.params())
    for c in ast.walk(func.node):
        if id(c) in inner or not (isinstance(c, ast.Call) and (call_name(c) or '').split('.')[-1] == 'get_variant_name' and len(c.args) == 2):
            continue
        avoid = c.args[1]
        if not isinstance(avoid, ast.Name):
            # a concatenation of lists: a part that is a shared list is judged like a shared list
            parts = _sum_parts(avoid)
            shared = [x for x in parts if isinstance(x, ast.Name) and x.id not in own]
            if not shared:
                out.append((c, avoid, 'expression', True, 'computed in place'))
                continue
            avoid = shared[0]
        if avoid.id in own:
            out.append((c, avoid, 'local', True, 'the list is computed in this activation'))
            continue
        # shared list (closure variable or parameter): the chosen name must be appended to it in this function
        target = None
        for a in ast.walk(func.node):
            if id(a) in inner:
                continue
            if isinstance(a, ast.Assign) and a.value is c and isinstance(a.targets[0], ast.Name):
                target = a.targets[0].id
        appended = False
        for a in ast.walk(func.node):
            if id(a) in inner:
                continue
            if isinstance(a, ast.Call) and call_attr(a) in ('append', 'add') and is_name(a.func.value, avoid.id) and a.args and target and is_name(a.args[0], target):
                appended = True
            if isinstance(a, ast.BinOp) and isinstance(a.op, ast.Add) and is_name(a.left, avoid.id) and target and target in src(a.right, 60):
                appended = True
        out.append((c, avoid, 'shared', appended,
                    'the chosen name is appended to the shared list' if appended else
                    '`%s` is shared by the whole traversal (%s) and the chosen name is never added to it: two nested binders with the same '
                    'suggested name get the same replacement variable' % (avoid.id, 'parameter' if avoid.id in params else 'variable of an enclosing function')))
    return out
