"""A3: flow-insensitive local derived-from relation inside one function.

Access paths are strings: a base name followed by `.attr`, `[*]` (any subscript) or `()` (result of
calling it), e.g. `prevs[*].hyps`, `th.prop.args`, `goal.arg1`.  `resolve(expr)` returns every access
path rooted at a *parameter, free or global name* that the value of `expr` may be derived from,
expanding local variables through all their definitions (assignment, tuple destructuring, for /
comprehension / with targets, augmented assignment, walrus).
"""
import ast


def access_path(node):
    """(base_name, suffix) for Name/Attribute/Subscript/Starred chains, else None."""
    suffix = []
    while True:
        if isinstance(node, ast.Attribute):
            suffix.append('.' + node.attr)
            node = node.value
        elif isinstance(node, ast.Subscript):
            suffix.append(_index_token(node.slice))
            node = node.value
        elif isinstance(node, ast.Starred):
            node = node.value
        elif isinstance(node, ast.Name):
            return node.id, ''.join(reversed(suffix))
        else:
            return None


def _index_token(sl):
    """'[k]' for a constant integer index, '[*]' for anything else (slices, variables)."""
    if isinstance(sl, ast.Constant) and isinstance(sl.value, int) and not isinstance(sl.value, bool):
        return '[%d]' % sl.value
    if isinstance(sl, ast.UnaryOp) and isinstance(sl.op, ast.USub) and isinstance(sl.operand, ast.Constant) \
            and isinstance(sl.operand.value, int):
        return '[-%d]' % sl.operand.value
    return '[*]'


def target_names(t):
    """Names bound by an assignment target (Name, Tuple/List, Starred); attribute/subscript
    stores bind nothing new but are recorded as weak updates of their base name."""
    if isinstance(t, ast.Name):
        return [t.id]
    if isinstance(t, (ast.Tuple, ast.List)):
        res = []
        for e in t.elts:
            res.extend(target_names(e))
        return res
    if isinstance(t, ast.Starred):
        return target_names(t.value)
    if isinstance(t, (ast.Attribute, ast.Subscript)):
        ap = access_path(t)
        return [ap[0]] if ap else []
    return []


class LocalFlow:
    def __init__(self, funcnode, include_nested=True):
        self.func = funcnode
        a = funcnode.args
        self.params = [x.arg for x in a.posonlyargs + a.args + a.kwonlyargs]
        if a.vararg:
            self.params.append(a.vararg.arg)
        if a.kwarg:
            self.params.append(a.kwarg.arg)
        # name -> list of (kind, rhs expr): kind 'value' (whole value), 'elem' (an element of rhs)
        self.defs = {}
        self._collect(funcnode, include_nested)

    def _add(self, name, kind, rhs):
        self.defs.setdefault(name, []).append((kind, rhs))

    def _bind(self, target, kind, rhs):
        if isinstance(target, ast.Name):
            self._add(target.id, kind, rhs)
        elif isinstance(target, (ast.Tuple, ast.List)):
            # destructuring: every component is an element of the rhs; keep positional precision
            # when the rhs is a literal tuple of the same length
            if isinstance(rhs, (ast.Tuple, ast.List)) and len(rhs.elts) == len(target.elts) \
                    and kind == 'value' and not any(isinstance(e, ast.Starred) for e in target.elts):
                for te, re_ in zip(target.elts, rhs.elts):
                    self._bind(te, 'value', re_)
            else:
                for te in target.elts:
                    self._bind(te, 'elem', rhs)
        elif isinstance(target, ast.Starred):
            self._bind(target.value, kind, rhs)
        elif isinstance(target, (ast.Attribute, ast.Subscript)):
            ap = access_path(target)
            if ap:
                self._add(ap[0], 'update', rhs)

    def _collect(self, root, include_nested):
        for n in ast.walk(root):
            if n is not root and isinstance(n, (ast.FunctionDef, ast.AsyncFunctionDef, ast.Lambda)) \
                    and not include_nested:
                continue
            if isinstance(n, ast.Assign):
                for t in n.targets:
                    self._bind(t, 'value', n.value)
            elif isinstance(n, ast.AnnAssign) and n.value is not None:
                self._bind(n.target, 'value', n.value)
            elif isinstance(n, ast.AugAssign):
                self._bind(n.target, 'update', n.value)
            elif isinstance(n, (ast.For, ast.AsyncFor)):
                self._bind(n.target, 'elem', n.iter)
            elif isinstance(n, ast.comprehension):
                self._bind(n.target, 'elem', n.iter)
            elif isinstance(n, (ast.With, ast.AsyncWith)):
                for it in n.items:
                    if it.optional_vars is not None:
                        self._bind(it.optional_vars, 'value', it.context_expr)
            elif isinstance(n, ast.NamedExpr):
                self._bind(n.target, 'value', n.value)
            elif isinstance(n, ast.Call):
                # x.append(v) / x.extend(v) / x.add(v) / x.update(v): weak update of x
                if isinstance(n.func, ast.Attribute) and n.func.attr in (
                        'append', 'extend', 'add', 'update', 'insert') and n.args:
                    ap = access_path(n.func.value)
                    if ap:
                        for a in n.args:
                            self._add(ap[0], 'update', a)

    # ------------------------------------------------------------------
    def is_local(self, name):
        return name in self.defs and name not in self.params

    def resolve(self, expr, _seen=None):
        """Set of root access paths the value of expr may derive from."""
        seen = _seen if _seen is not None else set()
        res = set()
        ap = access_path(expr) if isinstance(expr, (ast.Name, ast.Attribute, ast.Subscript, ast.Starred)) else None
        if ap is not None:
            base, suffix = ap
            res |= self._resolve_name(base, suffix, seen)
            # names inside subscripts
            for sub in ast.walk(expr):
                if isinstance(sub, ast.Subscript):
                    res |= self.resolve(sub.slice, seen)
            return res
        if isinstance(expr, ast.Call):
            # result of a call derives from receiver and arguments; keep the receiver path with '()'
            fap = access_path(expr.func)
            if fap is not None and isinstance(expr.func, ast.Attribute):
                base, suffix = fap
                res |= self._resolve_name(base, suffix + '()', seen)
            elif fap is not None:
                res.add(fap[0] + '()')
            else:
                res |= self.resolve(expr.func, seen)
            for a in expr.args:
                res |= self.resolve(a, seen)
            for k in expr.keywords:
                res |= self.resolve(k.value, seen)
            return res
        if isinstance(expr, (ast.GeneratorExp, ast.ListComp, ast.SetComp)):
            res |= self.resolve(expr.elt, seen)
            for g in expr.generators:
                for c in g.ifs:
                    pass
            return res
        if isinstance(expr, ast.DictComp):
            return self.resolve(expr.key, seen) | self.resolve(expr.value, seen)
        if isinstance(expr, ast.Lambda):
            return self.resolve(expr.body, seen)
        for child in ast.iter_child_nodes(expr):
            if isinstance(child, ast.expr):
                res |= self.resolve(child, seen)
        return res

    def _resolve_name(self, base, suffix, seen):
        if base in self.params or base not in self.defs:
            return {base + suffix}
        key = (base, suffix)
        active = ('active', base)
        if key in seen or active in seen:
            # `t = t.arg` style self-reference: the other definitions of the name supply the roots
            return set()
        seen.add(key)
        seen.add(active)
        try:
            return self._expand_defs(base, suffix, seen)
        finally:
            seen.discard(active)

    def _expand_defs(self, base, suffix, seen):
        res = set()
        for kind, rhs in self.defs[base]:
            if kind == 'update':
                # stored values flow into the container; suffix information is lost
                res |= self.resolve(rhs, seen)
                continue
            rap = access_path(rhs) if isinstance(rhs, (ast.Name, ast.Attribute, ast.Subscript)) else None
            if rap is not None:
                b2, s2 = rap
                if kind == 'elem':
                    s2 = s2 + '[*]'
                res |= self._resolve_name(b2, s2 + suffix, seen)
            else:
                sub = self.resolve(rhs, seen)
                if kind == 'elem':
                    sub = {p + '[*]' for p in sub}
                # suffix applies to a computed value: keep it as an annotation
                res |= {p + ('' if not suffix else '{%s}' % suffix) for p in sub}
        return res

    def inline(self, expr, depth=6):
        """A copy of expr in which every local name with exactly one plain definition (`x = <rhs>`, not a loop target, not
        updated in place) is replaced by that definition, repeatedly: `pt = f(a); return pt.th` reads `f(a).th`."""
        import copy

        flow = self

        class T(ast.NodeTransformer):
            def __init__(self, d):
                self.d = d

            def visit_Name(self, node):
                if isinstance(node.ctx, ast.Load) and flow.is_local(node.id) and self.d > 0:
                    ds = flow.defs.get(node.id, [])
                    if len(ds) == 1 and ds[0][0] == 'value':
                        return T(self.d - 1).visit(copy.deepcopy(ds[0][1]))
                    # `forest = self.proof_forest; forest[k] = v`: a second name for an object; stores through it do not rebind it
                    binds = [d for d in ds if d[0] != 'update']
                    if len(binds) == 1 and binds[0][0] == 'value' and access_path(binds[0][1]) is not None and \
                            isinstance(binds[0][1], (ast.Name, ast.Attribute)):
                        return T(self.d - 1).visit(copy.deepcopy(binds[0][1]))
                return node
        return T(depth).visit(copy.deepcopy(expr))

    def names_closure(self, expr):
        """Names occurring in expr plus, transitively, the names occurring in the definitions of
        the local names among them (which locals/parameters flow into expr)."""
        seen = set()
        todo = [n.id for n in ast.walk(expr) if isinstance(n, ast.Name)]
        while todo:
            nm = todo.pop()
            if nm in seen:
                continue
            seen.add(nm)
            if nm in self.params:
                continue
            for _kind, rhs in self.defs.get(nm, []):
                todo.extend(n.id for n in ast.walk(rhs) if isinstance(n, ast.Name))
        return seen

    def derived_from(self, expr, root_pred):
        """True if some root path of expr satisfies root_pred(path)."""
        return any(root_pred(p) for p in self.resolve(expr))

    def base_params(self, expr):
        """Parameter names the expression may derive from."""
        res = set()
        for p in self.resolve(expr):
            b = p.split('.')[0].split('[')[0].split('(')[0].split('{')[0]
            if b in self.params:
                res.add(b)
        return res


def denotes(flow, expr, path):
    """expr is the access path `path`, written directly or through local names that have exactly that one definition"""
    if not isinstance(expr, (ast.Name, ast.Attribute, ast.Subscript)):
        return False
    try:
        return flow.resolve(expr) == {path}
    except RecursionError:      # pragma: no cover
        return False


def path_base(p):
    for i, ch in enumerate(p):
        if ch in '.[({':
            return p[:i]
    return p


_flow_cache = {}


def flow_of(funcnode):
    k = id(funcnode)
    if k not in _flow_cache:
        _flow_cache[k] = (funcnode, LocalFlow(funcnode))
    return _flow_cache[k][1]
