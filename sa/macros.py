"""A1 (macro part): every transitive subclass of kernel.macro.Macro, its registered name(s), level,
sig and which of eval / get_proof_term it overrides."""
import ast

from .core import need
from .repo import dotted

MACRO = 'kernel/macro.py'
LOGIC = 'logic/logic.py'


class MacroInfo:
    def __init__(self, cls, names):
        self.cls = cls
        self.names = names            # registered names ([] if not registered)
        self.eval = cls.methods.get('eval')
        self.gpt = cls.methods.get('get_proof_term')
        self.inherited_gpt = None

    @property
    def label(self):
        return self.names[0] if self.names else self.cls.name

    @property
    def key(self):
        return '%s :: %s(%s)' % (self.cls.module.rel, self.cls.name, ','.join(self.names) or 'unregistered')

    def level(self):
        v = self.cls.init_const('level')
        if v is None:
            return 'unset'
        if isinstance(v, ast.Constant):
            return v.value
        return ast.unparse(v)

    def sig_values(self):
        """all value nodes assigned to self.sig in __init__ (both arms of conditionals)"""
        res = []
        for c in self.cls.mro():
            init = c.methods.get('__init__')
            if init is None:
                continue
            for n in ast.walk(init.node):
                if isinstance(n, ast.Assign) and any(isinstance(t, ast.Attribute) and t.attr == 'sig' and
                                                     isinstance(t.value, ast.Name) and t.value.id == 'self' for t in n.targets):
                    vals = [n.value]
                    while vals:
                        v = vals.pop()
                        if isinstance(v, ast.IfExp):
                            vals += [v.body, v.orelse]
                        else:
                            res.append(v)
            if res:
                break
        return res


def macro_index(repo):
    base = repo.cls(MACRO, 'Macro')
    table = {}
    # theory.global_macros.update({...}) tables
    for m in repo.source_modules():
        for n in ast.walk(m.tree):
            if isinstance(n, ast.Call) and isinstance(n.func, ast.Attribute) and n.func.attr == 'update' and \
                    (dotted(n.func.value) or '').endswith('global_macros') and n.args and isinstance(n.args[0], ast.Dict):
                for k, v in zip(n.args[0].keys, n.args[0].values):
                    if isinstance(k, ast.Constant) and isinstance(v, ast.Call):
                        r = repo.resolve_name(m, dotted(v.func) or '')
                        if r is not None:
                            table.setdefault(id(r), []).append(k.value)
    res = []
    for c in repo.all_classes():
        if c is base or not c.is_subclass_of(base):
            continue
        names = list(table.get(id(c), []))
        for dn, call in c.decorators():
            if dn and dn.split('.')[-1] == 'register_macro' and call is not None and call.args and \
                    isinstance(call.args[0], ast.Constant):
                names.append(call.args[0].value)
        res.append(MacroInfo(c, names))
    need(len(res) >= 100, 'macro index: only %d Macro subclasses found (expected > 100)' % len(res))
    return res
