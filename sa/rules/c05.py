"""C05 - trusted arithmetic evaluators: numeric-type guard, shape guard, exactness, zero divisors."""
import ast

from ..core import RuleResult, need
from ..cfg import cfg_of
from ..flow import flow_of
from ..astutil import src, call_attr, call_name, compare_parts, is_name, walk_no_nested
from ..guards import GuardQuery, derives_from, tracked_names
from ..macros import macro_index
from ..repo import dotted, FuncInfo

NOT_DECIDED = ('that nat_eval / int_eval / real_eval compute the right number for every term, and that polynomial '
               'normalisation is value preserving (runtime values)')
ASSUMPTIONS = ['Python int and fractions.Fraction arithmetic is exact',
               'a well-typed arithmetic term whose top type is T has operands of type T under + - * (overloaded at one type)',
               'inside an evaluator (nat_eval, int_eval, real_eval, ...) the dispatch on of_nat / of_int is trusted; '
               'T1 stops at the evaluator boundary']

EXCLUDED = {'z3': 'C06', 'sympy': 'C06'}

# evaluator function -> numeric type it computes in
EVALUATORS = {
    ('data/nat.py', 'nat_eval'): 'nat',
    ('data/integer.py', 'int_eval'): 'int',
    ('data/real.py', 'real_eval'): 'real',
    ('data/real.py', 'real_approx_eval'): 'real',
    ('data/real.py', 'convert_to_poly'): 'real',
}
TYPE_CONST = {'nat': 'NatType', 'int': 'IntType', 'real': 'RealType'}
TYPE_PRED = {'nat': 'is_nat', 'int': 'is_int', 'real': 'is_real'}
SHAPE_PREDS = {'is_equals', 'is_compares', 'is_less', 'is_less_eq', 'is_greater', 'is_greater_eq'}
EXACT_DIRS = ('data/', 'integral/inequality.py', 'kernel/term.py', 'util/poly.py', 'logic/')


def trusted_macros(repo):
    res = []
    for mi in macro_index(repo):
        if mi.eval is not None and mi.level() == 0 and not any(n in EXCLUDED for n in mi.names):
            res.append(mi)
    return res


_read_cache = {}


def _read(f):
    """the evaluation with helpers that build its result (`return Thm(..)` in a function of the same module, class or
    defined inside it) expanded in place (sa/inline.py)"""
    from ..inline import inlined
    if id(f.node) not in _read_cache:
        def builds(h):
            return any(isinstance(r, ast.Return) and r.value is not None and
                       any(isinstance(c, ast.Call) and call_name(c) == 'Thm' for c in ast.walk(r.value)) for r in ast.walk(h.node))
        _read_cache[id(f.node)] = (f, inlined(f, builds)[0])
    return _read_cache[id(f.node)][1]


def closure(repo, func, depth=6):
    fs = repo.reachable_funcs([func], depth=depth)
    return [f for f in fs if f.module.rel.startswith(EXACT_DIRS) or f is func]


def _single_def(expr, flow):
    """follow a local name with exactly one plain definition"""
    seen = 0
    while isinstance(expr, ast.Name) and flow.is_local(expr.id) and seen < 4:
        defs = flow.defs[expr.id]
        if len(defs) == 1 and defs[0][0] == 'value':
            expr = defs[0][1]
            seen += 1
        else:
            break
    return expr


def type_atom(kind):
    tconst, tpred = TYPE_CONST[kind], TYPE_PRED[kind]

    def atom(expr, pol, tracked, flow):
        if isinstance(expr, ast.Call) and call_attr(expr) == tpred and isinstance(expr.func, ast.Attribute) \
                and derives_from(expr.func.value, tracked):
            return pol
        cp = compare_parts(expr)
        if cp and cp[0] in (ast.Eq, ast.NotEq):
            for a, b in ((cp[1], cp[2]), (cp[2], cp[1])):
                tn = dotted(b)
                if tn and tn.split('.')[-1] == tconst:
                    a = _single_def(a, flow)
                    is_type_of = (isinstance(a, ast.Call) and call_attr(a) in ('get_type', 'checked_get_type') and
                                  isinstance(a.func, ast.Attribute) and derives_from(a.func.value, tracked)) or \
                                 (isinstance(a, ast.Attribute) and a.attr == 'T' and derives_from(a.value, tracked))
                    if is_type_of:
                        return pol if cp[0] is ast.Eq else not pol
        return False
    return atom


def shape_atom(expr, pol, tracked, flow):
    return pol and isinstance(expr, ast.Call) and call_attr(expr) in SHAPE_PREDS and \
        isinstance(expr.func, ast.Attribute) and derives_from(expr.func.value, tracked)


def _thm_return_nodes(func):
    cfg = cfg_of(func.node)
    res = []
    for r in cfg.return_nodes():
        v = r.ast.value
        if v is None:
            continue
        if any(isinstance(c, ast.Call) and call_name(c) == 'Thm' for c in ast.walk(v)):
            res.append(r)
    return res


# ---------------------------------------------------------------------- T1: evaluator call sites
class SiteFinder:
    """Finds every call that hands a goal-derived term to a numeric evaluator, following the goal
    through wrappers, and decides whether the numeric type of that evaluator is pinned on every path
    (in the function containing the call, or already at the call site of an enclosing wrapper)."""

    def __init__(self, repo):
        self.repo = repo
        self.sites = []        # (func, call, kind, ok, chain)
        self._reach_memo = {}

    def reaches_evaluator(self, f):
        if id(f) not in self._reach_memo:
            self._reach_memo[id(f)] = any((g.module.rel, g.qualname) in EVALUATORS
                                          for g in self.repo.reachable_funcs([f], depth=3))
        return self._reach_memo[id(f)]

    def _resolve(self, func, call):
        """callees, resolving a parameter with a default function value to that default"""
        ts = self.repo.resolve_call(func, call)
        if ts:
            return ts
        if isinstance(call.func, ast.Name):
            a = func.node.args
            names = [x.arg for x in a.posonlyargs + a.args]
            defaults = dict(zip(names[len(names) - len(a.defaults):], a.defaults))
            d = defaults.get(call.func.id)
            if d is not None and dotted(d):
                r = self.repo.resolve_name(func.module, dotted(d))
                if isinstance(r, FuncInfo):
                    return [r]
        return []

    def visit(self, func, param, inherited, chain, depth=0):
        cfg = cfg_of(func.node)
        tracked = tracked_names(func.node, param)
        est = {k: GuardQuery(self.repo, type_atom(k)).establishing_edges(func, tracked) for k in TYPE_CONST}
        for c in walk_no_nested(func.node, include_root=False):
            if not isinstance(c, ast.Call):
                continue
            if not any(derives_from(a, tracked) for a in c.args):
                continue
            node = cfg.node_for(c)
            if node is None:
                continue
            pinned = set(inherited)
            for k, edges in est.items():
                if edges and cfg.path_avoiding(node, skip_edges=edges) is None:
                    pinned.add(k)
            # an evaluator handed over explicitly decides the arithmetic used by the callee
            explicit = None
            for a in list(c.args) + [k.value for k in c.keywords]:
                nm = dotted(a)
                if nm:
                    r = self.repo.resolve_name(func.module, nm)
                    if isinstance(r, FuncInfo) and (r.module.rel, r.qualname) in EVALUATORS:
                        explicit = EVALUATORS[(r.module.rel, r.qualname)]
            targets = self._resolve(func, c)
            for t in targets:
                key = (t.module.rel, t.qualname)
                if key in EVALUATORS:
                    k = EVALUATORS[key]
                    self.sites.append((func, c, k, k in pinned, chain))
                elif explicit is not None and self.reaches_evaluator(t) is not None and t.module.rel.startswith(EXACT_DIRS):
                    self.sites.append((func, c, explicit, explicit in pinned, chain))
                elif t.module.rel.startswith(EXACT_DIRS) and self.reaches_evaluator(t) and depth < 4 and t is not func:
                    params = t.params()
                    offset = 1 if (t.cls is not None and params and params[0] in ('self', 'cls')) else 0
                    for i, a in enumerate(c.args):
                        if derives_from(a, tracked) and i + offset < len(params):
                            self.visit(t, params[i + offset], pinned, chain + [t.qualname], depth + 1)


def rule_t1(repo):
    t1 = RuleResult('C05.T1', 'a goal-derived term reaches a numeric evaluator only on paths that pin the term to that evaluator\'s number type', floor=9)
    for mi in trusted_macros(repo):
        f = _read(mi.eval)
        goal = f.params()[1]
        sf = SiteFinder(repo)
        sf.visit(f, goal, set(), [f.qualname])
        if not sf.sites:
            t1.add('%s :: eval :: numeric-type-guard' % mi.key, False,
                   'no call handing the goal to a numeric evaluator was found: cannot tell which arithmetic this trusted macro relies on', f.loc)
            continue
        bad = [(fn, c, k, ch) for fn, c, k, ok, ch in sf.sites if not ok]
        kinds = sorted({k for _f, _c, k, _ok, _ch in sf.sites})
        t1.add('%s :: eval :: numeric-type-guard' % mi.key, not bad,
               '%d evaluator call sites, each reached only under its own type (%s)' % (len(sf.sites), ', '.join(TYPE_CONST[k] for k in kinds))
               if not bad else
               '; '.join('%s:%d `%s` (%s arithmetic, via %s) reachable without a test that the operands have type %s' % (
                   fn.module.rel, c.lineno, src(c, 50), k, ' > '.join(ch), TYPE_CONST[k]) for fn, c, k, ch in bad[:4]) +
               ': the evaluator then applies its own meaning of - and / to terms of another type', f.loc)
        t1.info.setdefault('sites', 0)
        t1.info['sites'] += len(sf.sites)
    return t1


def rule_t2(repo):
    t2 = RuleResult('C05.T2', 'every path of a trusted evaluator to an asserted sequent tests the shape of the goal', floor=9)
    for mi in trusted_macros(repo):
        f = _read(mi.eval)
        goal = f.params()[1]
        rets = _thm_return_nodes(f)
        need(rets, '%s: eval has no `return Thm(...)`' % mi.key)
        q = GuardQuery(repo, shape_atom)
        bad, est = q.unguarded_targets(f, goal, rets)
        t2.add('%s :: eval :: shape-guard' % mi.key, not bad,
               'shape tested on every path (%d guard edges)' % len(est) if not bad else
               'return at line %s reachable without a shape test of the goal' % sorted({t.lineno for t, _p in bad}), f.loc)
    return t2


# ---------------------------------------------------------------------- exactness
INT_SOURCES = {'int', 'len', 'abs', 'dest_binary', 'nat_eval', 'int_eval', 'gcd', 'factorint'}


def _known_int(expr, cfg, node, flow, repo=None, func=None):
    """The expression is known to be a Python int (not a Fraction / float)."""
    rec = lambda e: _known_int(e, cfg, node, flow, repo, func)
    if isinstance(expr, ast.Constant):
        return isinstance(expr.value, int) and not isinstance(expr.value, bool)
    if isinstance(expr, ast.UnaryOp):
        return rec(expr.operand)
    if isinstance(expr, ast.BinOp) and isinstance(expr.op, (ast.Add, ast.Sub, ast.Mult, ast.FloorDiv, ast.Mod)):
        return rec(expr.left) and rec(expr.right)
    if isinstance(expr, ast.Attribute) and expr.attr in ('numerator', 'denominator'):
        return True
    if isinstance(expr, ast.Call):
        nm = call_attr(expr)
        if nm in INT_SOURCES:
            return True
        # constant of a natural-number polynomial: X.get_constant() with X computed in data/nat.py
        if nm == 'get_constant' and isinstance(expr.func, ast.Attribute) and isinstance(expr.func.value, ast.Name) \
                and node is not None and repo is not None:
            defs = cfg.reaching_assignments(node, expr.func.value.id)
            if defs and all(d.kind == 'stmt' and isinstance(d.ast, ast.Assign) and isinstance(d.ast.value, ast.Call) and
                            any(t.module.rel == 'data/nat.py' for t in repo.resolve_call(func, d.ast.value))
                            for d in defs):
                return True
        return False
    if isinstance(expr, ast.Name):
        # guarded by isinstance(name, int) on every path
        def pred(e, pol, nm=expr.id):
            return pol and isinstance(e, ast.Call) and is_name(e.func, 'isinstance') and len(e.args) == 2 and \
                is_name(e.args[0], nm) and is_name(e.args[1], 'int')
        edges = cfg.establishing_edges(pred)
        if edges and node is not None and cfg.path_avoiding(node, skip_edges=edges) is None:
            return True
        if node is not None:
            defs = cfg.reaching_assignments(node, expr.id)
            if defs and all(d.kind == 'stmt' and isinstance(d.ast, ast.Assign) and len(d.ast.targets) == 1 and
                            isinstance(d.ast.targets[0], ast.Name) and rec(d.ast.value) for d in defs):
                return True
            if defs and all(d.kind == 'iter' and isinstance(d.ast.iter, ast.Call) and call_name(d.ast.iter) == 'range'
                            for d in defs):
                return True
    return False


def _is_fraction_expr(e):
    return isinstance(e, ast.Call) and call_name(e) in ('Fraction', 'fractions.Fraction')


def _asserts_exact(callee, param):
    """the callee starts by asserting isinstance(param, (int, Fraction)) on every path to a return"""
    cfg = cfg_of(callee.node)

    def pred(e, pol):
        if not (pol and isinstance(e, ast.Call) and is_name(e.func, 'isinstance') and len(e.args) == 2 and is_name(e.args[0], param)):
            return False
        ts = e.args[1].elts if isinstance(e.args[1], ast.Tuple) else [e.args[1]]
        return all((dotted(t) or '').split('.')[-1] in ('int', 'Fraction') for t in ts)
    edges = cfg.establishing_edges(pred)
    return bool(edges) and cfg.path_avoiding(cfg.exit, skip_edges=edges) is None


def _sanitised(repo, func, n, parents):
    """the possibly inexact value is handed directly to a function that rejects non-exact numbers"""
    p = parents.get(id(n))
    if isinstance(p, ast.Call) and n in p.args:
        i = p.args.index(n)
        for t in repo.resolve_call(func, p):
            params = t.params()
            offset = 1 if (t.cls is not None and params and params[0] in ('self', 'cls')) else 0
            if i + offset < len(params) and _asserts_exact(t, params[i + offset]):
                return t
    return None


def inexact_sources(repo, func):
    """[(lineno, what)] constructs in func that may produce a float from exact inputs"""
    res = []
    cfg = cfg_of(func.node)
    flow = flow_of(func.node)
    parents = {}
    for n in walk_no_nested(func.node):
        for ch in ast.iter_child_nodes(n):
            parents[id(ch)] = n
    for n in walk_no_nested(func.node, include_root=False):
        if isinstance(n, ast.BinOp) and _sanitised(repo, func, n, parents) is not None:
            continue
        if isinstance(n, ast.Constant) and isinstance(n.value, float):
            res.append((n.lineno, 'float literal %r' % n.value))
        elif isinstance(n, ast.Call):
            nm = call_name(n) or ''
            if nm.startswith('math.') and nm not in ('math.gcd', 'math.floor', 'math.ceil', 'math.factorial', 'math.isqrt'):
                res.append((n.lineno, nm))
            elif nm == 'float':
                res.append((n.lineno, 'float()'))
        elif isinstance(n, ast.BinOp) and isinstance(n.op, ast.Div):
            if not (_is_fraction_expr(n.left) or _is_fraction_expr(n.right)):
                res.append((n.lineno, 'true division `%s` with no Fraction operand' % src(n, 50)))
        elif isinstance(n, ast.BinOp) and isinstance(n.op, ast.Pow):
            node = cfg.node_for(n)
            if not _known_int(n.right, cfg, node, flow, repo, func):
                res.append((n.lineno, 'power `%s` whose exponent is not known to be an int' % src(n, 60)))
    return res


def rule_t3(repo):
    res = RuleResult('C05.T3', 'no inexact (floating point) value can reach the comparison that decides a trusted arithmetic step', floor=9)
    for mi in trusted_macros(repo):
        srcs = []
        for f in closure(repo, mi.eval):
            for ln, what in inexact_sources(repo, f):
                srcs.append('%s:%d %s (in %s)' % (f.module.rel, ln, what, f.qualname))
        res.add('%s :: eval :: exact-arithmetic' % mi.key, not srcs,
                'call closure uses int / Fraction arithmetic only' if not srcs else
                'inexact arithmetic reachable from the accept/reject decision: ' + '; '.join(sorted(srcs)[:6]) +
                (' ... (%d in all)' % len(srcs) if len(srcs) > 6 else ''), mi.eval.loc)
    return res


# confirmed exceptions for T4: (file, function, division text) -> reason
T4_EXEMPT = {
    ('data/real.py', 'real_eval.<locals>.rec', 'Fraction(1) / rec(t.arg1) ** (-p)'):
        'x = rec(t.arg1) was compared with 0 a few lines above (x == 0 returns 0), so the power is non-zero',
}


def rule_t4(repo):
    res = RuleResult('C05.T4', 'exact evaluators test the divisor against zero before dividing', floor=5)
    seen = set()
    for mi in trusted_macros(repo):
        for f in closure(repo, mi.eval):
            if id(f) in seen:
                continue
            seen.add(id(f))
            cfg = cfg_of(f.node)
            for n in walk_no_nested(f.node, include_root=False):
                if not (isinstance(n, ast.BinOp) and isinstance(n.op, (ast.Div, ast.FloorDiv, ast.Mod))):
                    continue
                d = n.right
                if isinstance(d, ast.Constant) and d.value not in (0, 0.0):
                    continue
                if isinstance(d, ast.Attribute) and d.attr == 'denominator':
                    continue
                if isinstance(n.left, ast.Constant) and isinstance(n.left.value, str):
                    continue      # string formatting
                key = '%s :: %s :: divide(%s)' % (f.module.rel, f.qualname, src(n, 40))
                loc = '%s:%d' % (f.module.rel, n.lineno)
                ex = T4_EXEMPT.get((f.module.rel, f.qualname, src(n, 200)))
                if ex:
                    res.add(key, True, 'confirmed exception: ' + ex, loc, nontrivial=False)
                    continue
                node = cfg.node_for(n)
                if not isinstance(d, ast.Name) or node is None:
                    res.add(key, False, 'divisor `%s` is not a variable tested against zero' % src(d, 30), loc)
                    continue

                def nonzero(e, pol, nm=d.id):
                    cp = compare_parts(e)
                    if not cp:
                        return False
                    for a, b in ((cp[1], cp[2]), (cp[2], cp[1])):
                        if is_name(a, nm) and isinstance(b, ast.Constant) and b.value == 0:
                            if cp[0] is ast.Eq:
                                return not pol
                            if cp[0] is ast.NotEq:
                                return pol
                            if cp[0] in (ast.Gt, ast.Lt):
                                return pol
                    return False
                edges = cfg.establishing_edges(nonzero)
                ok = bool(edges) and cfg.path_avoiding(node, skip_edges=edges) is None
                res.add(key, ok, '%s != 0 on every path to the division' % d.id if ok else
                        'division reachable without testing %s against zero' % d.id, loc)
    return res


# evaluators of the source type of a coercion: coercion constant -> (source kind, accepted evaluator functions)
COERCIONS = {
    'of_nat': ('nat', {('data/nat.py', 'nat_eval'), ('data/nat.py', 'convert_to_poly')}),
    'of_int': ('int', {('data/integer.py', 'int_eval'), ('data/integer.py', 'convert_to_poly')}),
}


def _all_funcs_of(func):
    out = [func]
    for g in func.nested.values():
        out.extend(_all_funcs_of(g))
    return out


def rule_t5(repo):
    res = RuleResult('C05.T5', 'inside an evaluator, the argument of a coercion (of_nat, of_int) is evaluated by the evaluator of its own type', floor=5)
    for (rel, qual), kind in sorted(EVALUATORS.items()):
        top = repo.opt_func(rel, qual)
        need(top is not None, 'evaluator %s :: %s not found' % (rel, qual))
        for f in _all_funcs_of(top):
            cfg = cfg_of(f.node)
            for t in cfg.test_nodes():
                e = t.ast
                if not (isinstance(e, ast.Call) and call_attr(e) == 'is_comb' and e.args and isinstance(e.args[0], ast.Constant)
                        and e.args[0].value in COERCIONS and isinstance(e.func, ast.Attribute)):
                    continue
                recv = src(e.func.value)
                coercion = e.args[0].value
                src_kind, accepted = COERCIONS[coercion]
                if src_kind == kind:
                    continue
                # the first returns reachable from the true edge belong to this branch
                starts = [b for b, l in t.succ if l == 'true']
                other_tests = [n for n in cfg.test_nodes() if n is not t and isinstance(n.ast, ast.Call) and
                               isinstance(n.ast.func, ast.Attribute) and src(n.ast.func.value) == recv and
                               (call_attr(n.ast) or '').startswith('is_')]
                reach = cfg.reach_from(starts, skip_nodes=other_tests)
                rets = [r for r in cfg.return_nodes() if r.id in reach and r.ast.value is not None]
                bad = []
                for r in rets:
                    good = False
                    for c in ast.walk(r.ast.value):
                        if isinstance(c, ast.Call) and c.args and src(c.args[0]) == recv + '.arg':
                            for tgt in repo.resolve_call(f, c):
                                if (tgt.module.rel, tgt.qualname) in accepted:
                                    good = True
                    # of_nat of a numeral may also be read off directly
                    if not good and any(isinstance(c, ast.Call) and call_attr(c) in ('dest_number', 'dest_binary') for c in ast.walk(r.ast.value)):
                        good = True
                    if not good:
                        bad.append('line %d: %s' % (r.lineno, src(r.ast.value, 50)))
                res.add('%s :: %s :: coercion(%s)' % (rel, f.qualname, coercion), bool(rets) and not bad,
                        'argument of %s evaluated with the %s evaluator' % (coercion, src_kind) if rets and not bad else
                        'the argument of %s has type %s but is evaluated with %s arithmetic (%s): truncated subtraction under the '
                        'coercion is computed as exact subtraction' % (coercion, src_kind, kind, '; '.join(bad) or 'no return found'),
                        '%s:%d' % (rel, t.lineno))
    return res


# shape predicate -> Python comparison that must decide it
SHAPE_OP = {'is_less': ast.Lt, 'is_less_eq': ast.LtE, 'is_greater': ast.Gt, 'is_greater_eq': ast.GtE, 'is_equals': ast.Eq}
OP_TEXT = {ast.Lt: '<', ast.LtE: '<=', ast.Gt: '>', ast.GtE: '>=', ast.Eq: '==', ast.NotEq: '!='}


def rule_t6(repo):
    res = RuleResult('C05.T6', 'the comparison that decides a goal of shape `a OP b` is the Python comparison OP on the evaluated sides', floor=20)
    seen = set()
    funcs = []
    for mi in trusted_macros(repo):
        for f in closure(repo, mi.eval, depth=3):
            if id(f) not in seen and f.module.rel.startswith(('data/', 'integral/inequality.py')):
                seen.add(id(f))
                funcs.append(f)
    from ..normalize import unroll_literal_loops, plain_attributes_and_comparisons, as_func
    for f in funcs:
        # a dispatch over a written-out table of (predicate name, operator function) pairs is read as the branches it abbreviates
        f = as_func(f, plain_attributes_and_comparisons(unroll_literal_loops(f.node)))
        cfg = cfg_of(f.node)
        flow = flow_of(f.node)
        shape_tests = [n for n in cfg.test_nodes() if isinstance(n.ast, ast.Call) and call_attr(n.ast) in SHAPE_OP and
                       isinstance(n.ast.func, ast.Attribute) and not n.ast.args]
        if len(shape_tests) < 3:
            continue       # not a dispatch over comparison shapes
        for t in shape_tests:
            recv = src(t.ast.func.value)
            shape = call_attr(t.ast)
            want = SHAPE_OP[shape]
            starts = [b for b, l in t.succ if l == 'true']
            others = [n for n in shape_tests if n is not t and src(n.ast.func.value) == recv]
            reach = cfg.reach_from(starts, skip_nodes=others)
            # comparisons between the two evaluated sides in this branch: in tests, returns, asserts
            found = []
            for n in cfg.nodes:
                if n.id not in reach:
                    continue
                for h in cfg.headers(n):
                    for c in ast.walk(h):
                        cp = compare_parts(c) if isinstance(c, ast.Compare) else None
                        if not cp or cp[0] not in OP_TEXT:
                            continue
                        # both sides are evaluated values (calls, or locals defined by calls), not types / lengths
                        def evaluated(x):
                            if isinstance(x, ast.Call):
                                return call_attr(x) not in ('get_type', 'len', 'is_zero')
                            if isinstance(x, ast.Name) and flow.is_local(x.id):
                                return any(isinstance(r, (ast.Call, ast.Tuple)) for _k, r in flow.defs[x.id])
                            return False
                        if evaluated(cp[1]) and evaluated(cp[2]):
                            found.append((cp[0], c))
            if not found:
                continue
            if shape == 'is_equals' and _negated_goal(recv):
                want = ast.NotEq        # the goal is ~(a = b)
            bad = [c for op, c in found if op is not want]
            res.add('%s :: %s :: %s(%s)' % (f.module.rel, f.qualname, shape, recv), not bad,
                    'decided by `%s`' % OP_TEXT[want] if not bad else
                    'a goal of shape %s is decided by `%s`' % (shape, '; '.join(src(c) for c in bad)), '%s:%d' % (f.module.rel, t.lineno))
    return res


def _negated_goal(recv):
    # `t.arg.is_equals()` under `t.is_not()`: the goal is a disequality, decided by !=
    return recv.endswith('.arg')


def rule_t7(repo):
    """In the library x / 0 = 0 and inverse 0 = 0, so a quotient may be replaced by anything other than
    itself (kept as an opaque atom) only when its denominator was evaluated and found to be non-zero.
    'Numerator and denominator have the same normal form' is not such a test (x / x = 1 is false at 0)."""
    res = RuleResult('C05.T7', 'an evaluator simplifies a quotient or an inverse only behind a non-zero test of the evaluated denominator', floor=5)
    seen = set()
    for mi in trusted_macros(repo):
        for f in closure(repo, mi.eval):
            if id(f) in seen or not f.module.rel.startswith('data/'):
                continue          # recognisers such as Term.is_frac_number return verdicts, not values
            seen.add(id(f))
            cfg = None
            for br in walk_no_nested(f.node, include_root=False):
                if not (isinstance(br, ast.If) and isinstance(br.test, ast.Call) and call_attr(br.test) in ('is_divides', 'is_real_inverse')
                        and isinstance(br.test.func.value, ast.Name)):
                    continue
                t = br.test.func.value.id
                cfg = cfg or cfg_of(f.node)

                def nonzero(e, pol):
                    if isinstance(e, ast.Call) and call_attr(e) == 'is_nonzero_constant':
                        return pol
                    cp = compare_parts(e)
                    if not cp:
                        return False
                    for a, b in ((cp[1], cp[2]), (cp[2], cp[1])):
                        if isinstance(b, ast.Constant) and b.value == 0 and isinstance(a, ast.Name):
                            if cp[0] is ast.Eq:
                                return not pol
                            if cp[0] in (ast.NotEq, ast.Gt, ast.Lt):
                                return pol
                    return False
                edges = cfg.establishing_edges(nonzero)
                tn = cfg.node_for(br.test)
                first = [b for b, l in tn.succ if l == 'true'][0] if tn is not None else None
                rets = [r for st in br.body for r in ast.walk(st) if isinstance(r, ast.Return) and r.value is not None]
                need(first is not None, '%s: entry of the %s branch not found in the CFG' % (f.qualname, call_attr(br.test)))
                bad = []
                for r in rets:
                    opaque = any(isinstance(x, ast.Name) and x.id == t and not isinstance(_parent_attr(r.value, x), ast.Attribute)
                                 for x in ast.walk(r.value))
                    if opaque:
                        continue
                    rn = cfg.node_for(r)
                    if rn is None or cfg.path_avoiding(rn, skip_edges=edges, start=first) is not None:
                        bad.append(r)
                res.add('%s :: %s :: %s-branch' % (f.module.rel, f.qualname, call_attr(br.test)[3:]), not bad,
                        'every simplifying return is behind a non-zero test of the denominator' if not bad else
                        '`%s` (line %d) replaces the quotient without a non-zero test of the evaluated denominator: with x / 0 = 0 in the '
                        'library, an identity such as x / x = 1 is accepted although it is false at 0' % (src(bad[0], 60), bad[0].lineno),
                        '%s:%d' % (f.module.rel, br.lineno))
    return res


def _parent_attr(root, node):
    """the Attribute node whose value is `node` (t.arg, t.args), if any"""
    for p in ast.walk(root):
        if isinstance(p, ast.Attribute) and p.value is node:
            return p
    return None


def rule_t8(repo):
    """real_norm (trust level 0) decides equations through util/poly.py.  p ^ 0 = 1 for every polynomial p,
    the zero polynomial included (x ^ (0::nat) = 1 is a theorem): the exponent-zero case of Polynomial.__pow__ must be
    decided before any other answer is given."""
    res = RuleResult('C05.T8', 'the power of a polynomial decides the exponent 0 before any other case', floor=1)
    f = repo.func('util/poly.py', 'Polynomial.__pow__')
    exp = f.params()[1]
    cfg = cfg_of(f.node)
    tests = [t for t in cfg.test_nodes() if compare_parts(t.ast) and compare_parts(t.ast)[0] in (ast.Eq, ast.NotEq) and
             is_name(compare_parts(t.ast)[1], exp) and isinstance(compare_parts(t.ast)[2], ast.Constant) and compare_parts(t.ast)[2].value == 0]
    need(tests, 'Polynomial.__pow__: test of the exponent against 0 not found')
    t = tests[0]
    zero_side = 'true' if compare_parts(t.ast)[0] is ast.Eq else 'false'
    other_side = 'false' if zero_side == 'true' else 'true'
    bad = []
    for r in cfg.return_nodes():
        # reachable without passing the test at all
        if cfg.path_avoiding(r, skip_nodes=[t]) is not None:
            bad.append('line %d `%s` is reached without the test `%s`' % (r.lineno, src(r.ast, 40), src(t.ast, 20)))
    unit = [r for r in cfg.return_nodes() if r.id in cfg.reach_from([b for b, l in t.succ if l == zero_side], skip_edges=[(t.id, other_side)])]
    res.add('util/poly.py :: Polynomial.__pow__ :: exponent-zero-first', not bad,
            'every answer is given behind the test `%s`' % src(t.ast, 20) if not bad else
            '; '.join(bad) + ' -- for the exponent 0 the answer is not the unit polynomial: real_norm accepts (y - y) ^ (0::nat) = 0, and with '
            'x ^ (0::nat) = 1 the checker accepts 1 = 0', f.loc)
    return res


def rule_t9(repo):
    """What a numeric evaluator returns is a number; 0 is one of them and it is false in Python.  `res or fallback`,
    `if not res:` read "the evaluator gave nothing" where it gave zero - and the fallback (here: floating point) decides a
    comparison whose exact value was known.  In the functions a trusted macro evaluates through, a value that comes out of
    nat_eval / int_eval / real_eval is never used as a truth value."""
    res = RuleResult('C05.T9', 'the number returned by an exact evaluator is never tested by its truth value', floor=12)
    names = {q for (_rel, q) in EVALUATORS}
    seen = set()
    for mi in trusted_macros(repo):
        for f in closure(repo, mi.eval):
            if id(f.node) in seen:
                continue
            seen.add(id(f.node))
            flow = flow_of(f.node)

            def numeric(e, depth=0):
                if isinstance(e, ast.Call):
                    return (call_name(e) or '').split('.')[-1] in names
                if isinstance(e, ast.Name) and flow.is_local(e.id) and depth < 3:
                    vals = [r for k, r in flow.defs[e.id] if k == 'value']
                    return any(numeric(r, depth + 1) for r in vals)
                return False
            subjects = [n for n in ast.walk(f.node) if isinstance(n, (ast.Name, ast.Call)) and numeric(n)]
            if not subjects:
                continue
            bad = []
            for n in ast.walk(f.node):
                tested = []
                if isinstance(n, ast.BoolOp):
                    tested = n.values[:-1] if not _in_test_position(f.node, n) else n.values
                elif isinstance(n, (ast.If, ast.While, ast.IfExp, ast.Assert)):
                    tested = [n.test]
                for t in tested:
                    while isinstance(t, ast.UnaryOp) and isinstance(t.op, ast.Not):
                        t = t.operand
                    if isinstance(t, (ast.Name, ast.Call)) and numeric(t):
                        bad.append(t)
            res.add('%s :: %s :: number-not-a-truth-value' % (f.module.rel, f.qualname), not bad,
                    'no evaluator result is used as a condition' if not bad else
                    'line %d: `%s` is the result of an exact evaluator and is used as a truth value: the exact result 0 counts as "no result" '
                    '(2/20 + 4/20 - 6/20 = 0 is then decided by its floating-point value 5.5e-17)' % (bad[0].lineno, src(bad[0], 40)),
                    '%s:%d' % (f.module.rel, (bad[0] if bad else f.node).lineno), nontrivial=True)
    return res


def _in_test_position(funcnode, boolop):
    for n in ast.walk(funcnode):
        if isinstance(n, (ast.If, ast.While, ast.IfExp, ast.Assert)) and n.test is boolop:
            return True
    return False

def rule_t10(repo):
    """`is_number()` is true of every numeral in normal form: 3, -3, 1 / 2, at any type.  The evaluator for natural numbers
    returns the value of such a leaf as the value of a natural number; it may do so only for a non-negative integer (the
    other forms are written with operations the natural numbers do not have, and what they denote there is not the
    number they spell).  The return of the `dest_number()` value in nat_eval is behind both tests."""
    from ..astutil import comparison_holding
    res = RuleResult('C05.T10', 'the evaluator for natural numbers takes the value of a numeral only if it is a non-negative integer', floor=1)
    f = repo.func('data/nat.py', 'nat_eval')
    cfg = cfg_of(f.node)
    flow = flow_of(f.node)
    def is_value(e, at):
        # the value of a numeral: `<x>.dest_number()`, or a local that holds it where it is read (n is also the name of an operand elsewhere)
        v = cfg.value_at(at, e) if at is not None else flow.inline(e)
        return isinstance(v, ast.Call) and call_attr(v) == 'dest_number'
    rets = [r for r in cfg.return_nodes() if r.ast.value is not None and is_value(r.ast.value, r)]
    need(rets, 'nat_eval: the return of a numeral\'s value (dest_number) not found')
    e1, e2 = set(), set()
    for t in cfg.test_nodes():
        for pol, lab in ((True, 'true'), (False, 'false')):
            if any(is_value(a, t) and isinstance(b, ast.Constant) and ((op is ast.GtE and b.value == 0) or (op is ast.Gt and b.value == -1))
                   for op, a, b in comparison_holding(t.ast, pol)):
                e1.add((t.id, lab))
        e = t.ast
        if isinstance(e, ast.Call) and is_name(e.func, 'isinstance') and len(e.args) == 2 and is_value(e.args[0], t) and is_name(e.args[1], 'int'):
            e2.add((t.id, 'true'))
    for i, r in enumerate(rets):
        ok1 = bool(e1) and cfg.path_avoiding(r, skip_edges=e1) is None
        ok2 = bool(e2) and cfg.path_avoiding(r, skip_edges=e2) is None
        res.add('data/nat.py :: nat_eval :: numeral-leaf#%d' % (i + 1), ok1 and ok2,
                'returned only for a non-negative integer' if ok1 and ok2 else
                'line %d returns the value of any numeral%s: -(3::nat) evaluates to -3 and the trusted step proves -(3::nat) + 3 = 0' % (
                    r.lineno, '' if ok2 else ' (fractions included)'), 'data/nat.py:%d' % r.lineno)
    return res


def rules(repo):
    return [rule_t1(repo), rule_t2(repo), rule_t3(repo), rule_t4(repo), rule_t5(repo), rule_t6(repo), rule_t7(repo), rule_t8(repo), rule_t9(repo), rule_t10(repo)]
