"""How the proof checker walks over the items of a block.

Either inline (`for s in X.items: self._check_proof_item(prf, s, ..)`) or through a helper method of Theory
that does the same for a list it is given.  `helper_name(repo)` returns the helper's name if Theory has a
method that loops over one of its parameters and hands *every* element to _check_proof_item: the only thing
that may come before the call in the loop body is a test that raises."""
import ast

from ..cfg import cfg_of
from ..astutil import call_name, is_name, path_of

THEORY = 'kernel/theory.py'

_item_funcs = {}


def check_item_func(repo):
    """Theory._check_proof_item as it reads with the helpers it is split into expanded in place (sa/inline.py): helpers of
    the same module that take part in reading cited steps, dispatching the rule or judging the result.  The block
    checker (which calls back into _check_proof_item) and the theory look-ups stay calls."""
    from ..inline import inlined
    if id(repo) not in _item_funcs:
        func = repo.func(THEORY, 'Theory._check_proof_item')
        part = ('find_item', 'can_depend_on', 'eval', 'expand', 'check_thm_type', 'can_prove')

        def want(h):
            if h.parent is not None:        # a function defined inside the step checker is part of it
                return True
            names = set()
            for n in ast.walk(h.node):
                if isinstance(n, ast.Call):
                    names.add(n.func.attr if isinstance(n.func, ast.Attribute) else getattr(n.func, 'id', None))
                if isinstance(n, ast.Name) and n.id == 'primitive_deriv':
                    names.add('find_item')
            if '_check_proof_item' in names or h.name == block_checker or h.name.startswith('check_proof'):
                return False
            return bool(names & set(part))
        block_checker = helper_name(repo)[0]
        f, done, left = inlined(func, want)
        from ..cfg import inline_named_conditions
        from ..normalize import as_func
        f = as_func(f, inline_named_conditions(f.node))      # `trusted = macro.level is not None and ..; if not trusted:`
        _item_funcs[id(repo)] = (repo, f, done, left)
    return _item_funcs[id(repo)][1]


def helper_name(repo):
    th = repo.cls(THEORY, 'Theory')
    for name, f in th.methods.items():
        if name == '_check_proof_item':
            continue
        params = f.params()
        for loop in [n for n in ast.walk(f.node) if isinstance(n, ast.For)]:
            it = loop.iter
            if isinstance(it, ast.Call) and call_name(it) == 'enumerate' and it.args:
                it = it.args[0]
                tgt = loop.target.elts[-1] if isinstance(loop.target, ast.Tuple) else None
            else:
                tgt = loop.target
            if not (isinstance(it, ast.Name) and it.id in params and isinstance(tgt, ast.Name)):
                continue
            cfg = cfg_of(f.node)
            head = [n for n in cfg.nodes_of_kind('iter') if n.ast is loop]
            calls = [n for n in cfg.nodes if n.kind == 'stmt' and any(
                isinstance(c, ast.Call) and call_name(c) == 'self._check_proof_item' and len(c.args) >= 2 and is_name(c.args[1], tgt.id)
                for c in ast.walk(n.ast))]
            if not head or not calls:
                continue
            # from the start of the body the loop head (next round) or the end is not reachable without the call
            start = [b for b, l in head[0].succ if l == 'loop']
            after = cfg.reach_from(start, skip_nodes=calls)
            if head[0].id not in after and cfg.exit.id not in after:
                return name, params.index(it.id)
    return None, None


def checks_block(repo, cfg, items_path, prf_name):
    """CFG nodes that check every item of the list denoted by items_path: an inline loop head, or a call of the helper"""
    out = []
    for it in cfg.nodes_of_kind('iter'):
        # `for s in X.items:` or `for i, s in enumerate(X.items):` - every element reaches the step checker: from the start of the body neither
        # the next round nor the end of the function is reachable without the call (a test in front of it can only raise)
        seq = it.ast.iter
        tgt = it.ast.target
        if isinstance(seq, ast.Call) and call_name(seq) == 'enumerate' and seq.args:
            seq = seq.args[0]
            tgt = tgt.elts[-1] if isinstance(tgt, ast.Tuple) and tgt.elts else None
        if path_of(seq) != items_path or not isinstance(tgt, ast.Name):
            continue
        calls = [n for n in cfg.nodes if n.kind == 'stmt' and any(
            isinstance(c, ast.Call) and call_name(c) == 'self._check_proof_item' and len(c.args) >= 2 and is_name(c.args[1], tgt.id)
            for c in ast.walk(n.ast)) and any(n.ast is x for st in it.ast.body for x in ast.walk(st))]
        if not calls:
            continue
        start = [b for b, l in it.succ if l == 'loop']
        after = cfg.reach_from(start, skip_nodes=calls)
        if it.id not in after and cfg.exit.id not in after:
            out.append(it)
    name, pos = helper_name(repo)
    if name:
        for n in cfg.nodes:
            if n.kind == 'stmt' and isinstance(n.ast, ast.Expr) and isinstance(n.ast.value, ast.Call) and call_name(n.ast.value) == 'self.' + name:
                c = n.ast.value
                # positional index of the list parameter (without self)
                i = pos - 1
                if i < len(c.args) and path_of(c.args[i]) == items_path:
                    out.append(n)
    return out


_extend_funcs = {}


def extend_func(repo, fn):
    """Theory.unchecked_extend / checked_extend in the form the rules read: a table of handlers indexed by the kind of
    the extension is written as the chain of kind tests it abbreviates (sa/normalize.py), and handlers defined inside
    the function are expanded at their calls (sa/inline.py)."""
    from ..normalize import dispatch_to_branches, kind_predicates, as_func
    from ..inline import inlined
    key = (id(repo), fn)
    if key not in _extend_funcs:
        f = repo.func(THEORY, fn if fn.startswith('Theory.') else 'Theory.' + fn)
        node, n = dispatch_to_branches(f.node, kind_predicates(repo.cls('kernel/extension.py', 'Extension')))
        g = as_func(f, node)
        g = inlined(g, lambda h: h.parent is not None)[0]
        _extend_funcs[key] = (repo, g)
    return _extend_funcs[key][1]
