"""C04 - macro expansion agrees with evaluation: hypothesis agreement of fast paths, truncation, trust levels."""
import ast
import re

from ..core import RuleResult, need
from ..cfg import cfg_of
from ..astutil import src, call_attr, call_name, is_name, path_of, attr_stores, returns_of, compare_parts
from ..macros import macro_index, MACRO
from . import macro_rules as mr

NOT_DECIDED = ('equality of the conclusions of eval and of the expansion for all arguments; that every expansion '
               'is accepted by the checker (runtime)')
ASSUMPTIONS = ['kernel rules carry hypotheses of their premises (decided by C01.K1), so an expansion always keeps them',
               'a macro whose eval is inherited agrees with its expansion by construction (C04.M5 checks the base class)']


def rule_m3(repo):
    res = RuleResult('C04.M3', 'trust level of every macro is None or a non-negative integer literal set in its constructor; nobody else writes it', floor=100)
    base = repo.cls(MACRO, 'Macro')
    for mi in macro_index(repo):
        lv = mi.level()
        ok = lv is None or (isinstance(lv, int) and not isinstance(lv, bool) and lv >= 0)
        res.add('%s :: level' % mi.key, ok, 'level %r' % (lv,) if ok else 'trust level is %r (not None / non-negative int literal)' % (lv,),
                mi.cls.loc, nontrivial=False)
    # who may write .level
    for m in repo.source_modules():
        for t, stmt in attr_stores(m.tree):
            if t.attr != 'level':
                continue
            owner = None
            for c in m.class_list:
                if c.node.lineno <= stmt.lineno <= c.node.end_lineno:
                    owner = c
            in_init = owner is not None and '__init__' in owner.methods and \
                owner.methods['__init__'].node.lineno <= stmt.lineno <= owner.methods['__init__'].node.end_lineno
            if owner is not None and not owner.is_subclass_of(base):
                # unrelated classes with their own `level` attribute (e.g. SAT solver decision level)
                if is_name(t.value, 'self'):
                    continue
            ok = owner is not None and owner.is_subclass_of(base) and in_init and is_name(t.value, 'self')
            res.add('%s :: write(.level)@%s' % (m.rel, owner.name if owner else '<module>'), ok,
                    'set in the macro constructor' if ok else
                    '`%s` changes a trust level outside a macro constructor: the checker may then evaluate instead of expand' % src(stmt),
                    '%s:%d' % (m.rel, stmt.lineno), nontrivial=False)
    return res


def rule_m5(repo):
    res = RuleResult('C04.M5', 'the inherited evaluation is the conclusion of the expansion; expand exports that same expansion', floor=2)
    base = repo.cls(MACRO, 'Macro')
    ev = need(base.methods.get('eval'), 'Macro.eval not found')
    ex = need(base.methods.get('expand'), 'Macro.expand not found')
    args, prevs = ev.params()[1:3]
    from ..flow import flow_of
    ok = False
    fl = flow_of(ev.node)
    for r in returns_of(ev.node):
        v = fl.inline(r.value)
        if isinstance(v, ast.Attribute) and v.attr == 'th' and isinstance(v.value, ast.Call) and \
                call_name(v.value) == 'self.get_proof_term' and len(v.value.args) == 2 and is_name(v.value.args[0], args):
            # second argument: proof terms built from exactly the premises
            call = [c for c in ast.walk(r.value) if isinstance(c, ast.Call) and call_name(c) == 'self.get_proof_term'] or \
                [c for d in fl.defs.values() for _k, e in d for c in ast.walk(e) if isinstance(c, ast.Call) and call_name(c) == 'self.get_proof_term']
            roots = fl.resolve(call[0].args[1]) if call else set()
            ok = any(p.startswith(prevs) for p in roots) and len(returns_of(ev.node)) == 1
    res.add('%s :: Macro.eval :: is-conclusion-of-expansion' % MACRO, ok,
            'return self.get_proof_term(args, <premises>).th' if ok else 'Macro.eval no longer returns the sequent of get_proof_term', ev.loc)
    eargs = ex.params()
    ok = False
    flx = flow_of(ex.node)
    for r in returns_of(ex.node):
        v = flx.inline(r.value)
        if isinstance(v, ast.Call) and call_attr(v) == 'export' and isinstance(v.func.value, ast.Call) and \
                call_name(v.func.value) == 'self.get_proof_term' and v.args and is_name(v.args[0], eargs[1]):
            ok = len(returns_of(ex.node)) == 1
    res.add('%s :: Macro.expand :: exports-expansion' % MACRO, ok,
            'return self.get_proof_term(args, pts).export(prefix)' if ok else 'Macro.expand no longer exports get_proof_term under the given prefix', ex.loc)
    # overriding `expand` elsewhere would bypass get_proof_term
    for mi in macro_index(repo):
        if 'expand' in mi.cls.methods:
            body = [s for s in mi.cls.methods['expand'].node.body
                    if not (isinstance(s, ast.Expr) and isinstance(s.value, ast.Constant))]
            if body and all(isinstance(s, ast.Raise) for s in body):
                res.add('%s :: overrides expand' % mi.key, True, 'only raises: the macro has no expansion',
                        mi.cls.methods['expand'].loc, nontrivial=False)
                continue
            res.add('%s :: overrides expand' % mi.key, False, 'expansion no longer derived from get_proof_term', mi.cls.methods['expand'].loc)
    return res


NORMALISERS = {'subst_norm', 'beta_norm', 'beta_norm_conv'}


def _norm_guards(func):
    """{(test text, polarity)} that every path to a beta-normalising call must pass, or None if the
    function never normalises.  Only `if` tests count (asserts guard everything that follows)."""
    from ..cfg import cfg_of
    cfg = cfg_of(func.node)
    nodes = [n for n in cfg.nodes if n.kind in ('stmt', 'test') and any(
        isinstance(c, ast.Call) and call_attr(c) in NORMALISERS for h in cfg.headers(n) for c in ast.walk(h))]
    if not nodes:
        return None
    sigs = []
    for n in nodes:
        sig = set()
        for t in cfg.test_nodes():
            if not isinstance(t.stmt, ast.If) or t is n:
                continue
            for label in ('true', 'false'):
                if cfg.path_avoiding(n, skip_edges={(t.id, label)}) is None and cfg.path_avoiding(n, skip_nodes=[t]) is None:
                    sig.add((src(t.ast, 200), label == 'true'))    # without this edge the call is unreachable: it must be taken
        sigs.append(frozenset(sig))
    return set(sigs)


def rule_m6(repo):
    res = RuleResult('C04.M6', 'where evaluation and expansion of a macro both beta-normalise, they do so under the same condition', floor=1)
    for mi in macro_index(repo):
        if mi.eval is None or mi.gpt is None or mi.eval.cls is not mi.gpt.cls:
            continue
        ge, gp = _norm_guards(mi.eval), _norm_guards(mi.gpt)
        if ge is None or gp is None:
            continue
        ok = ge == gp
        fmt = lambda s: ' | '.join(sorted(' & '.join(('' if pol else 'not ') + '(%s)' % t for t, pol in sorted(x)) or 'always' for x in s))
        res.add('%s :: eval-vs-expansion :: normalisation-guard' % mi.key, ok,
                'both normalise when: %s' % fmt(ge) if ok else
                'evaluation beta-normalises when [%s] but the expansion when [%s]: on other inputs they state different '
                '(beta-equivalent, not equal) conclusions and the checker rejects the expansion' % (fmt(ge), fmt(gp)), mi.eval.loc)
    return res


def pure_combinators(repo):
    """methods of ProofTerm / Thm / Term / Type that return a value and never store into self: calling
    one of them as a statement does nothing"""
    pure = set()
    for rel, cls in (('kernel/proofterm.py', 'ProofTerm'), ('kernel/thm.py', 'Thm'), ('kernel/term.py', 'Term'), ('kernel/type.py', 'Type')):
        c = repo.cls(rel, cls)
        for name, f in c.methods.items():
            if name.startswith('__'):
                continue
            # the method's own returns: those of a helper defined inside it are the helper's
            inner = {id(x) for g in ast.walk(f.node) if isinstance(g, (ast.FunctionDef, ast.Lambda)) and g is not f.node for x in ast.walk(g)}
            rets = [n for n in ast.walk(f.node) if isinstance(n, ast.Return) and n.value is not None and id(n) not in inner]
            # a method that stores into self or into one of its arguments works by effect
            params = set(f.params()) | {'self'}
            stores = [n for n in ast.walk(f.node) if isinstance(n, (ast.Assign, ast.AugAssign)) and any(
                isinstance(t, (ast.Attribute, ast.Subscript)) and isinstance(getattr(t, 'value', None), ast.Name) and t.value.id in params
                for t in (n.targets if isinstance(n, ast.Assign) else [n.target]))]
            if rets and not stores:
                pure.add(name)
    need(len(pure) >= 60, 'fewer than 60 value-returning methods found on ProofTerm / Thm / Term / Type')
    return pure


def rule_m8(repo):
    """Proof terms, theorems and terms are immutable values: pt.on_rhs(cv) returns the rewritten proof
    term and leaves pt as it was.  A statement that calls such a method and drops the result is a step of
    the expansion that does not happen - the expansion then proves something else than the evaluation
    reports."""
    res = RuleResult('C04.M8', 'no step of a macro expansion is computed and thrown away: results of proof-term / theorem / term combinators are used', floor=100)
    pure = pure_combinators(repo)
    for m in repo.source_modules():
        if '/tests/' in m.rel:
            continue
        bad = []
        in_try = set()
        for n in ast.walk(m.tree):
            if isinstance(n, ast.Try) and n.handlers:
                for st in n.body:
                    for x in ast.walk(st):
                        in_try.add(id(x))
        for n in ast.walk(m.tree):
            if isinstance(n, ast.Expr) and isinstance(n.value, ast.Call) and isinstance(n.value.func, ast.Attribute) and \
                    n.value.func.attr in pure and id(n) not in in_try:
                bad.append(n)
        res.add('%s :: results-used' % m.rel, not bad,
                'no discarded combinator call' if not bad else
                '; '.join('line %d: the value of `%s` is discarded' % (b.lineno, src(b.value, 60)) for b in bad[:3]) +
                ' -- the object it is called on is unchanged, so this step of the proof is missing', '%s:%d' % (m.rel, bad[0].lineno if bad else 1),
                nontrivial=bool(bad))
    res.info['combinators'] = len(pure)
    return res


def rule_m9(repo):
    """The shape rule of C18.R9 for the macros outside the veriT reconstruction: a fast path reads the
    parts of its goal or of a premise by position only after testing the head connective.  The expansion
    fails (or proves something else) on a goal of another shape; the evaluation must not accept it."""
    from .c18 import shape_sites
    res = RuleResult('C04.M9', 'a fast path takes its goal or a premise apart only after testing the head connective', floor=5)
    for mi in macro_index(repo):
        if mi.eval is None or mr.verit_macros(mi):
            continue
        for key, ok, why, loc in shape_sites(repo, mi):
            res.add(key, ok, why, loc)
    return res


def rule_m10(repo, rid='C04.M10', scope=None):
    """Fast path and expansion compared over the conditions both test (rules/agree.py): no case in
    which the evaluation reaches `return Thm(..)` while the expansion can only raise."""
    from .agree import compare
    res = RuleResult(rid, 'no case distinguished by tests common to a fast path and its expansion is accepted by the one and impossible for the other', floor=15 if scope is None else 8)
    for mi in macro_index(repo):
        if mi.eval is None or (scope is not None and not scope(mi)):
            continue
        gp = mi.cls.methods.get('get_proof_term')
        if gp is None:
            continue
        r = compare(mi.eval, gp)
        if r is None:
            continue
        shared, bad = r
        if bad:
            case = ', '.join(('' if v else 'not ') + a for a, v in sorted(bad[0].items()))
        res.add('%s :: eval-vs-expansion' % mi.key, not bad,
                'agree on all cases of %d common tests' % len(shared) if not bad else
                'in %d cases of the %d common tests the evaluation can return a theorem while the expansion can only raise, e.g. when [%s]: '
                'one of the two has the test the wrong way round' % (len(bad), len(shared), case), mi.eval.loc)
    return res


def rule_m7(repo):
    """The `auto` macro evaluates through logic.auto.norm / solve, whose process-wide memo tables are keyed by the
    term alone: what is stored must have been obtained without side conditions (the rule of C10.V4)."""
    from .c10 import rule_v4
    return rule_v4(repo, 'C04.M7')


def rule_m13(repo):
    """Expansions bottom out in the theorems of the library; those stated without proof are axioms.  Every
    statement in the decidable fragment (sa/libcheck.py) must hold in every row of its small-domain table."""
    from ..libcheck import check_library
    res = RuleResult('C04.M13', 'the stated theorems of the library that expansions rest on hold for all small values of their variables', floor=750)
    files, rows = check_library(repo)
    need(files >= 30, 'library/*.json: only %d theory files readable' % files)
    outside = 0
    for rel, name, prop, verdict, detail in rows:
        if verdict == 'outside':
            outside += 1
            continue
        res.add('%s :: %s' % (rel, name), verdict == 'holds',
                detail if verdict == 'holds' else 'the statement `%s` is false for %s -- every theory that imports this file can derive anything from it' % (prop, detail),
                rel, nontrivial=False)
    res.info['statements_outside_the_fragment'] = outside
    res.info['theory_files'] = files
    return res


def rule_m14(repo):
    """The theorems about bit0 / bit1 (bit1_nonzero: ~(bit1 m = 0), ...) speak about bit strings.  The
    expansions of the constant (in)equality macros instantiate them with the bit string of half the number,
    `Binary(k)`; `Nat(k)` is the numeral `of_nat <bits>`, equal to the bit string only for 0 and 1 - the expansion
    then proves ~(of_nat (bit1 2) = 0) where the evaluation reported ~(5 = 0), and the checker rejects the step."""
    res = RuleResult('C04.M14', 'theorems about bit0 / bit1 are instantiated with bit strings (Binary), not with numerals', floor=3)
    m = repo.module('data/nat.py')
    for f in m.all_funcs:
        for c in ast.walk(f.node):
            if not (isinstance(c, ast.Call) and call_name(c) in ('apply_theorem', 'logic.apply_theorem') and c.args and isinstance(c.args[0], ast.Constant) and
                    isinstance(c.args[0].value, str) and c.args[0].value.startswith(('bit0', 'bit1'))):
                continue
            for kw in c.keywords:
                if kw.arg != 'inst' or not (isinstance(kw.value, ast.Call) and call_name(kw.value) == 'Inst'):
                    continue
                bad = [k for k in kw.value.keywords if not (isinstance(k.value, ast.Call) and call_name(k.value) == 'Binary')]
                res.add('data/nat.py :: %s :: %s(%s)' % (f.qualname, c.args[0].value, ','.join(k.arg for k in kw.value.keywords)), not bad,
                        'bit strings' if not bad else
                        'line %d instantiates %s with `%s`: a numeral (of_nat ..) under bit1 is not the number the evaluation reports, the expansion '
                        'proves another statement and the step is rejected (~(5 = 0) fails for every number whose odd part is at least 5)' % (
                            c.lineno, bad[0].arg, src(bad[0].value, 30)), 'data/nat.py:%d' % c.lineno)
    return res


def rule_m15(repo):
    """An expansion that strips a prefix (quantified variables, assumptions) off a statement, proves the
    core and puts the prefix back wraps from the inside out: the list that the stripping returned outermost-first is
    walked in reverse.  Walking it forward rebuilds !y. !x. P for !x. !y. P - a theorem, but not the statement the
    evaluation reports, so the checker rejects the step."""
    res = RuleResult('C04.M15', 'a prefix that was stripped outermost-first is put back by wrapping in reverse order', floor=2)
    WRAP_METHODS = ('forall_intr', 'implies_intr', 'abstraction')
    WRAP_CTORS = ('Forall', 'Exists', 'Implies', 'Lambda')
    for m in repo.source_modules():
        for f in m.all_funcs:
            stripped = {}
            for a in ast.walk(f.node):
                if isinstance(a, ast.Assign) and isinstance(a.value, ast.Call) and (call_name(a.value) or call_attr(a.value) or '').split('.')[-1].startswith('strip_'):
                    for t in a.targets:
                        for x in ast.walk(t):
                            if isinstance(x, ast.Name):
                                stripped[x.id] = (call_name(a.value) or call_attr(a.value)).split('.')[-1]
            if not stripped:
                continue
            for l in ast.walk(f.node):
                if not (isinstance(l, ast.For) and len(l.body) == 1 and isinstance(l.body[0], ast.Assign) and isinstance(l.target, ast.Name) and
                        isinstance(l.body[0].targets[0], ast.Name)):
                    continue
                a = l.body[0]
                acc, v, x = a.targets[0].id, a.value, l.target.id
                wrap = None
                if isinstance(v, ast.Call) and isinstance(v.func, ast.Attribute) and v.func.attr in WRAP_METHODS and is_name(v.func.value, acc) and \
                        len(v.args) == 1 and is_name(v.args[0], x):
                    wrap = v.func.attr
                if isinstance(v, ast.Call) and isinstance(v.func, ast.Name) and v.func.id in WRAP_CTORS and len(v.args) == 2 and is_name(v.args[0], x) and is_name(v.args[1], acc):
                    wrap = v.func.id
                if not wrap:
                    continue
                it = l.iter
                rev = isinstance(it, ast.Call) and call_name(it) == 'reversed' and it.args
                base = it.args[0] if rev else it
                if isinstance(base, ast.Subscript) and isinstance(base.slice, ast.Slice) and base.slice.step is not None:
                    continue      # an explicit step: order chosen deliberately
                if not (isinstance(base, ast.Name) and base.id in stripped):
                    continue
                res.add('%s :: %s :: rewrap(%s by %s)' % (m.rel, f.qualname, base.id, wrap), bool(rev),
                        'the list returned by %s is wrapped in reverse' % stripped[base.id] if rev else
                        'line %d walks `%s` (from %s, outermost first) forward while wrapping with %s: the prefix comes back in the opposite order '
                        '(trivial proved !y. !x. .. for the advertised !x. !y. ..)' % (l.lineno, base.id, stripped[base.id], wrap), '%s:%d' % (m.rel, l.lineno))
    return res


def _closing_loops(f):
    """[(kernel step, CFG loop node, sequence as it reads at the loop)] for loops `for v in SEQ: acc = ..step(v, ..)..` that apply one
    kernel step per element to an accumulator"""
    STEPS = ('forall_intr', 'implies_intr', 'forall_elim', 'implies_elim')
    cfg = cfg_of(f.node)
    out = []
    for it in cfg.nodes_of_kind('iter'):
        lp = it.ast
        if not isinstance(lp.target, ast.Name) or len(lp.body) != 1 or not isinstance(lp.body[0], ast.Assign):
            continue
        st = lp.body[0]
        c = st.value
        if not (isinstance(c, ast.Call) and call_attr(c) in STEPS and len(st.targets) == 1 and isinstance(st.targets[0], ast.Name)):
            continue
        acc = st.targets[0].id
        if not any(is_name(x, acc) for x in ast.walk(c)) or not any(is_name(a, lp.target.id) for a in c.args):
            continue
        out.append((call_attr(c), it, cfg.value_at(it, lp.iter)))
    return out


def _normal_text(e, renames):
    """text of an expression with the premises parameter named alike on both sides, bound variables of comprehensions numbered,
    reversed(x) / x[::-1] and list / tuple wrappers identified"""
    import copy
    e = copy.deepcopy(e)
    counter = [0]

    class N(ast.NodeTransformer):
        def __init__(self, env):
            self.env = env

        def visit_Name(self, n):
            return ast.copy_location(ast.Name(id=self.env.get(n.id, renames.get(n.id, n.id)), ctx=n.ctx), n)

        def _comp(self, n):
            env = dict(self.env)
            for g in n.generators:
                for x in ast.walk(g.target):
                    if isinstance(x, ast.Name):
                        counter[0] += 1
                        env[x.id] = '_b%d' % counter[0]
            return N(env).generic_visit(n)
        visit_ListComp = visit_SetComp = visit_GeneratorExp = visit_DictComp = _comp

        def visit_Call(self, n):
            self.generic_visit(n)
            if isinstance(n.func, ast.Name) and n.func.id in ('list', 'tuple') and len(n.args) == 1 and not n.keywords:
                return n.args[0]
            return n

        def visit_Subscript(self, n):
            self.generic_visit(n)
            sl = n.slice
            if isinstance(sl, ast.Slice) and sl.lower is None and sl.upper is None and isinstance(sl.step, ast.UnaryOp) and \
                    isinstance(sl.step.op, ast.USub) and isinstance(sl.step.operand, ast.Constant) and sl.step.operand.value == 1:
                return ast.Call(func=ast.Name(id='reversed', ctx=ast.Load()), args=[n.value], keywords=[])
            return n
    return src(N({}).visit(e), 400)


def rule_m16(repo):
    """A macro that ends by applying one kernel step per element of a sequence (generalising over the schematic variables
    that are left, discharging assumptions) must do so over the same sequence in the evaluation and in the expansion -
    otherwise the two state different theorems for the inputs on which the sequences differ.  The sequences are read
    where the loops stand (each local replaced by its one reaching definition) and compared as expressions over the
    macro's parameters."""
    res = RuleResult('C04.M16', 'evaluation and expansion apply their closing steps (forall_intr, implies_intr ..) over the same sequence', floor=1)
    for mi in macro_index(repo):
        gp = mi.cls.methods.get('get_proof_term')
        if mi.eval is None or gp is None:
            continue
        le, lg = _closing_loops(mi.eval), _closing_loops(gp)
        pe, pg = mi.eval.params(), gp.params()
        ren = {}
        for a, b in zip(pe[1:], pg[1:]):
            ren[a] = ren[b] = '_p%d' % (pe.index(a))
        for step in sorted({k for k, _n, _s in le} & {k for k, _n, _s in lg}):
            se = [_normal_text(x, ren) for k, _n, x in le if k == step]
            sg = [_normal_text(x, ren) for k, _n, x in lg if k == step]
            if len(se) != 1 or len(sg) != 1:
                continue
            ok = se[0] == sg[0]
            if not ok:
                # the same ingredients combined in another way are not judged: only a sequence drawn from something else is reported
                leaves = lambda t: sorted(set(re.findall(r'[A-Za-z_][A-Za-z_0-9.]*', t)) - {'for', 'in', 'if', 'not', 'and', 'or', 'reversed'})
                if leaves(se[0]) == leaves(sg[0]):
                    res.info.setdefault('not_compared', []).append('%s %s: `%s` / `%s`' % (mi.key, step, se[0], sg[0]))
                    continue
            loc = [n for k, n, _s in le if k == step][0]
            res.add('%s :: eval-vs-expansion :: closing(%s)' % (mi.key, step), ok,
                    'both run over `%s`' % se[0][:120] if ok else
                    'the evaluation applies %s over `%s`, the expansion over `%s`: for inputs on which these differ (a premise that still has schematic '
                    'variables of its own) the evaluation states another theorem than the expansion proves' % (step, se[0][:160], sg[0][:160]),
                    '%s:%d' % (mi.eval.module.rel, loc.lineno))
    return res

def rule_m17(repo, rid='C04.M17'):
    """An evaluation may state a sequent with a hypothesis of its own making (`Thm(goal, h)`: the step *assumes* h).  The
    expansion then has to assume that same h (`ProofTerm.assume(h)`), in every case - otherwise the proof it produces has
    another left-hand side than the sequent the evaluation reported, and the checker refuses the expansion of a step it
    accepted by evaluation.  Where several cases can apply to one input (x = y with both x := y and y := x in the context)
    "the same in every case" includes trying the cases in the same order.  Both methods are read as decision tables over
    their atomic tests (loops over written-out tuples unrolled); for every assignment under which both answer, the sets
    of invented hypotheses are compared."""
    import itertools
    from ..normalize import unroll_literal_loops
    from ..decide import atoms_of, decision_table
    from ..flow import LocalFlow
    from ..core import AnalysisError
    from .agree import exclusive_ok
    res = RuleResult(rid, 'the hypothesis an evaluation invents is the one the expansion assumes, case by case', floor=1)

    def canon(flow, e, ren):
        t = src(flow.inline(e), 300)
        for a, b in ren.items():
            t = re.sub(r'(?<![\w.])%s(?![\w])' % re.escape(a), b, t)
        # Eq(X.lhs, X.rhs) is X for an equation X (both methods reach these returns behind is_equals / by reading .lhs)
        t = re.sub(r'Eq\((\w[\w.]*)\.lhs, \1\.rhs\)', r'\1', t)
        return t
    for mi in macro_index(repo):
        if mi.eval is None or mi.gpt is None:
            continue
        ev, gp = unroll_literal_loops(mi.eval.node), unroll_literal_loops(mi.gpt.node)
        invented = [r for r in ast.walk(ev) if isinstance(r, ast.Return) and isinstance(r.value, ast.Call) and call_name(r.value) == 'Thm' and
                    len(r.value.args) >= 2 and all(isinstance(a, (ast.Name, ast.Call)) and 'hyps' not in src(a, 200) for a in r.value.args[1:])]
        assumed = [c for c in ast.walk(gp) if isinstance(c, ast.Call) and (call_name(c) or '').endswith('ProofTerm.assume')]
        if not invented or not assumed:
            continue
        fe, fg = LocalFlow(ev), LocalFlow(gp)
        pe = [a.arg for a in ev.args.args][1:]
        pg = [a.arg for a in gp.args.args][1:]
        ren = dict(zip(pg, pe))
        ce, cg = cfg_of(ev), cfg_of(gp)
        try:
            atoms = sorted(set(atoms_of(ce)) | set(atoms_of(cg, ren)))
            te = decision_table(ce, atoms, lambda r: frozenset(canon(fe, a, {}) for a in r.value.args[1:])
                                if isinstance(r.value, ast.Call) and call_name(r.value) == 'Thm' else 'other', what=mi.key + ' eval')
            tg = decision_table(cg, atoms, lambda r: frozenset(canon(fg, c.args[0], ren) for c in ast.walk(fg.inline(r.value))
                                                               if isinstance(c, ast.Call) and (call_name(c) or '').endswith('ProofTerm.assume') and c.args),
                                rename=ren, what=mi.key + ' expansion')
        except AnalysisError as e:
            res.info.setdefault('not_compared', []).append('%s: %s' % (mi.key, e))
            continue
        bad = []
        for vals in itertools.product((False, True), repeat=len(atoms)):
            a, b = te.get(vals), tg.get(vals)
            if not isinstance(a, frozenset) or not isinstance(b, frozenset) or not exclusive_ok(dict(zip(atoms, vals))):
                continue
            if a != b:
                bad.append((vals, a, b))
        detail = ''
        if bad:
            vals, a, b = min(bad, key=lambda x: -sum(x[0]))
            detail = ('when %s: the evaluation states the hypothesis %s, the expansion assumes %s - the expansion of an accepted step is then no proof of the '
                      'sequent that was reported (refl with x := y and y := x in the context, goal x = y)' % (
                          ' and '.join('%s%s' % ('' if v else 'not ', t) for t, v in zip(atoms, vals) if v) or 'no test holds',
                          ' / '.join(sorted(a)) or 'nothing', ' / '.join(sorted(b)) or 'nothing'))
        res.add('%s :: eval-vs-expansion :: invented-hypotheses' % mi.key, not bad,
                '%d atomic tests, the same hypotheses under every assignment' % len(atoms) if not bad else detail,
                '%s:%d' % (mi.eval.module.rel, mi.eval.node.lineno))
    return res

def rule_m18(repo):
    """Where the last element of a macro's argument list is the goal and the elements in front of it are the literals the
    step works with, both methods have to divide the list that way.  If one of them reads `args[-1]` apart and walks over
    `args[:-1]` only, the other must not walk over the whole of `args`: it would treat the goal as one more literal, and the
    expansion proves another clause than the evaluation reports (imp_to_or: .. | ~~goal | C)."""
    res = RuleResult('C04.M18', 'evaluation and expansion divide the argument list in the same way (literals / goal)', floor=4)

    def domains(fn):
        if len(fn.params()) < 2:
            return [], [], False
        p_ = fn.params()[1]
        whole, part, last = [], [], False
        for n in ast.walk(fn.node):
            its = [n.iter] if isinstance(n, (ast.For, ast.comprehension)) else []
            for it in its:
                while isinstance(it, ast.Call) and isinstance(it.func, ast.Name) and it.func.id in ('reversed', 'enumerate', 'list', 'tuple') and it.args:
                    it = it.args[0]
                if is_name(it, p_):
                    whole.append(n)
                if isinstance(it, ast.Subscript) and is_name(it.value, p_) and isinstance(it.slice, ast.Slice):
                    part.append(src(it))
            if isinstance(n, ast.Subscript) and is_name(n.value, p_) and isinstance(n.slice, ast.UnaryOp) and isinstance(n.slice.op, ast.USub) and \
                    isinstance(n.slice.operand, ast.Constant) and n.slice.operand.value == 1:
                last = True
        return whole, part, last
    for mi in macro_index(repo):
        if mi.eval is None or mi.gpt is None:
            continue
        we, pe, le = domains(mi.eval)
        wg, pg, lg = domains(mi.gpt)
        if not (we or pe or wg or pg):
            continue
        bad = None
        if pe and le and not we and wg and not pg:
            bad = ('evaluation', pe[0], 'expansion', wg[0])
        if pg and lg and not wg and we and not pe:
            bad = ('expansion', pg[0], 'evaluation', we[0])
        res.add('%s :: eval-vs-expansion :: argument-list-divided-alike' % mi.key, bad is None,
                'both walk over the same part of the argument list' if bad is None else
                'the %s takes the last argument apart and walks over `%s`, the %s walks over the whole list (line %d): the goal is treated as one more '
                'literal and the two state different clauses' % (bad[0], bad[1], bad[2], getattr(bad[3], 'lineno', None) or bad[3].iter.lineno),
                '%s:%d' % (mi.eval.module.rel, mi.eval.node.lineno), nontrivial=bad is not None)
    return res

def numeral_type_rule(repo, rid):
    """`dest_number()` gives the value of a numeral whatever its type: 2 :: nat, 2 :: int and 2 :: real all give 2.  A macro that
    decides a goal by comparing such values (m != n, m <= n) and hands the goal back as the theorem makes a statement at the
    type the goal happens to have, while its expansion is written for one type (the lemmas about natural numbers).  So in
    a method of a macro where two `dest_number()` values are compared and the answer can be yes, the same path carries a
    test that pins the type of the numerals (`get_type() == NatType`, `is_nat()` ..).  Without it the evaluation of
    ~((2::real) = 3) reports the real statement and the expansion proves the one about nat - and the method that offers
    the step (its search asks the same predicate) writes a line that does not check."""
    from ..cfg import desugar_bool_returns
    res = RuleResult(rid, 'a macro that decides a goal from the values of its numerals pins the type of those numerals', floor=2)
    PINS = ('is_nat', 'is_int', 'is_real')
    TYPES = ('NatType', 'IntType', 'RealType')
    for mi in macro_index(repo):
        for fname, f in sorted(mi.cls.methods.items()):
            if fname not in ('eval', 'can_eval'):
                continue
            cmps = [c for c in ast.walk(f.node) if isinstance(c, ast.Compare) and len(c.comparators) == 1 and
                    all(isinstance(x, ast.Call) and call_attr(x) == 'dest_number' and isinstance(x.func.value, ast.Name) for x in (c.left, c.comparators[0]))]
            if not cmps:
                continue
            from ..cfg import inline_named_conditions
            node = inline_named_conditions(desugar_bool_returns(f.node))       # `ok = <type test> and ..; return ok and <comparison>`
            cfg = cfg_of(node)
            subjects = {x.func.value.id for c in cmps for x in (c.left, c.comparators[0])}
            tests = [t for t in cfg.test_nodes() if isinstance(t.ast, ast.Compare) and any(src(t.ast) == src(c) for c in cmps)]
            yes = [r for r in cfg.return_nodes() if r.ast.value is not None and not (isinstance(r.ast.value, ast.Constant) and r.ast.value.value in (False, None))]
            if not tests or not yes:
                continue

            def pin(e, pol):
                if not pol:
                    return False
                if isinstance(e, ast.Call) and call_attr(e) in PINS and src(e.func.value).split('.')[0] in subjects:
                    return True
                cp = compare_parts(e)
                return bool(cp) and cp[0] is ast.Eq and any(src(a).split('.')[0] in subjects and ('get_type()' in src(a) or src(a).endswith('.T')) for a in cp[1:]) and \
                    any(src(a).split('.')[-1] in TYPES for a in cp[1:])
            edges = cfg.establishing_edges(pin)
            # the answers that depend on the comparison
            bad = []
            for r in yes:
                depends = any(cfg.path_avoiding(r, skip_edges={(t.id, 'true')}) is None or cfg.path_avoiding(r, skip_edges={(t.id, 'false')}) is None for t in tests)
                if depends and (not edges or cfg.path_avoiding(r, skip_edges=edges) is not None):
                    bad.append(r)
            res.add('%s :: %s :: numerals-of-one-type' % (mi.key, fname), not bad,
                    'the comparison of numeral values is made behind a test of their type' if not bad else
                    'line %d answers from `%s` alone: dest_number() is the same for 2::nat, 2::int and 2::real, so a goal about real or integer numerals is '
                    'evaluated to itself while the expansion proves the statement about one fixed type' % (bad[0].lineno, src(cmps[0], 60)),
                    '%s:%d' % (f.module.rel, cmps[0].lineno))
    return res


def rule_m19(repo):
    return numeral_type_rule(repo, 'C04.M19')


def rules(repo):
    m1 = mr.hyps_rule(repo, 'C04.M1', mr.all_macros, floor=95)
    m2 = mr.zip_rule(repo, 'C04.M2', mr.macro_eval_functions(repo), floor=4)
    return [m1, m2, rule_m3(repo), rule_m5(repo), rule_m6(repo), rule_m7(repo), rule_m8(repo), rule_m9(repo), rule_m10(repo), mr.expansion_uses_rule(repo, 'C04.M11', mr.all_macros, floor=25),
            mr.argument_dependence_rule(repo, 'C04.M12', mr.all_macros, floor=30), rule_m13(repo), rule_m14(repo), rule_m15(repo), rule_m16(repo), rule_m17(repo), rule_m18(repo), rule_m19(repo)]
