"""C14 - suggestions are applicable: search / apply / display interface agreement of the proof methods."""
import ast

from ..core import RuleResult, need
from ..cfg import cfg_of
from ..flow import flow_of
from ..astutil import src, call_attr, call_name, compare_parts, is_name, path_of, walk_no_nested
from ..macros import macro_index
from ..repo import dotted

METHOD = 'server/method.py'
FRAMEWORK_KEYS = {'method_name', 'goal_id', 'fact_ids'}

NOT_DECIDED = ('that the subgoals a suggestion advertises are the ones its application leaves (needs running the tactic); '
               'that application of a suggestion cannot fail for other reasons (runtime)')
ASSUMPTIONS = ['search_method adds method_name, goal_id (and fact_ids when facts were selected) to every suggestion (read)',
               'apply_method passes the step dictionary itself as the data argument of Method.apply (read)']


class MethodInfo:
    def __init__(self, cls, name):
        self.cls = cls
        self.name = name
        self.search = cls.find_method('search')
        self.apply = cls.find_method('apply')
        self.display = cls.find_method('display_step')

    @property
    def key(self):
        return '%s :: %s(%s)' % (self.cls.module.rel, self.cls.name, self.name)

    def sig(self):
        v = self.cls.init_const('sig')
        if isinstance(v, (ast.List, ast.Tuple)):
            return [e.value for e in v.elts if isinstance(e, ast.Constant)]
        return []


def method_index(repo):
    base = repo.cls(METHOD, 'Method')
    res = []
    for c in repo.all_classes():
        for dn, call in c.decorators():
            if dn and dn.split('.')[-1] == 'register_method' and call is not None and call.args and isinstance(call.args[0], ast.Constant):
                res.append(MethodInfo(c, call.args[0].value))
    need(len(res) >= 20, 'method index: only %d registered methods found' % len(res))
    return res


def _search_dicts(f):
    """dict literals that can become suggestions: returned in a list, or appended to the result list"""
    out = []
    for n in ast.walk(f.node):
        if isinstance(n, ast.Return) and isinstance(n.value, ast.List):
            out += [e for e in n.value.elts if isinstance(e, ast.Dict)]
        if isinstance(n, ast.Call) and call_attr(n) == 'append' and n.args and isinstance(n.args[0], ast.Dict):
            out.append(n.args[0])
        if isinstance(n, ast.Return) and isinstance(n.value, ast.List) and any(is_name(e, 'data') for e in n.value.elts):
            out.append('DATA')
    return out


def _keys(d):
    return {k.value for k in d.keys if isinstance(k, ast.Constant)}


def _search_nonempty(f):
    for n in ast.walk(f.node):
        if isinstance(n, ast.Return) and n.value is not None and not (isinstance(n.value, ast.List) and not n.value.elts):
            return True
    return False


def _reads(f, param):
    """(unconditional, guarded, queried): keys read from param; guarded by `'k' in param`; named in a
    ParameterQueryException"""
    cfg = cfg_of(f.node)
    uncond, guarded, queried = set(), set(), set()
    for n in walk_no_nested(f.node, include_root=False):
        if isinstance(n, ast.Subscript) and is_name(n.value, param) and isinstance(n.slice, ast.Constant) and isinstance(n.ctx, ast.Load):
            k = n.slice.value
            cn = cfg.node_for(n)

            def pred(e, pol, k=k):
                cp = compare_parts(e)
                return bool(cp) and cp[0] is ast.In and pol and isinstance(cp[1], ast.Constant) and cp[1].value == k and is_name(cp[2], param)
            edges = cfg.establishing_edges(pred)
            same_test = False
            # `'k' in data and data['k'] == ...` inside one expression (conditional expression / assignment)
            for b in walk_no_nested(f.node):
                if isinstance(b, ast.BoolOp) and isinstance(b.op, ast.And):
                    vals = b.values
                    for i, v in enumerate(vals):
                        if any(x is n for x in ast.walk(v)):
                            for prev in vals[:i]:
                                cp = compare_parts(prev)
                                if cp and cp[0] is ast.In and isinstance(cp[1], ast.Constant) and cp[1].value == k and is_name(cp[2], param):
                                    same_test = True
            if same_test or (cn is not None and edges and cfg.path_avoiding(cn, skip_edges=edges) is None):
                guarded.add(k)
            else:
                uncond.add(k)
        if isinstance(n, ast.Call) and isinstance(n.func, ast.Attribute) and n.func.attr == 'get' and is_name(n.func.value, param) and \
                n.args and isinstance(n.args[0], ast.Constant):
            guarded.add(n.args[0].value)
        if isinstance(n, ast.Raise) and n.exc is not None and 'ParameterQueryException' in src(n.exc, 400):
            for c in ast.walk(n.exc):
                if isinstance(c, ast.Constant) and isinstance(c.value, str):
                    queried.add(c.value)
    uncond -= guarded & set()  # a key read both ways counts as unconditional somewhere
    return uncond, guarded, queried


def rule_s1(repo):
    res = RuleResult('C14.S1', 'applying a suggestion only needs keys the suggestion carries, the declared parameters, or keys it asks for', floor=20)
    for mi in method_index(repo):
        if mi.apply is None or mi.search is None:
            continue
        params = mi.apply.params()
        need(len(params) >= 4, '%s.apply has no data parameter' % mi.key)
        data = params[3]
        uncond, guarded, queried = _reads(mi.apply, data)
        dicts = [d for d in _search_dicts(mi.search)]
        lits = [d for d in dicts if d != 'DATA']
        every = set.intersection(*[_keys(d) for d in lits]) if lits else set()
        sig = set(mi.sig())
        # a key is unavailable when it is neither declared, nor carried by every suggestion, nor asked for
        ok_keys = sig | FRAMEWORK_KEYS | queried
        if _search_nonempty(mi.search):
            ok_keys |= every
        miss = sorted(k for k in uncond if k not in ok_keys)
        # keys carried only by some suggestions
        partial = sorted(k for k in uncond if k in every and False)
        res.add('%s :: apply :: keys' % mi.key, not miss,
                'reads %s unconditionally (declared %s, in every suggestion %s)' % (sorted(uncond), sorted(sig), sorted(every)) if not miss else
                'apply reads %s from the step unconditionally, but it is neither a declared parameter %s nor present in every suggestion '
                '%s nor asked for: applying a suggestion raises KeyError' % (miss, sorted(sig), sorted(every)), mi.apply.loc)
        # a declared parameter missing from a suggestion must lead to a parameter query, not to KeyError:
        # i.e. declared keys that suggestions leave open are legitimately supplied by the user (sig)
    return res


def _ops(repo, f, mname_to_cls):
    """proof-producing operations a method body uses: tactic classes and macro classes"""
    ops = set()
    for n in ast.walk(f.node):
        if not isinstance(n, ast.Call):
            continue
        nm = call_name(n) or ''
        if nm.startswith('tactic.') and nm.count('.') == 1:
            ops.add(nm)
            if nm == 'tactic.MacroTactic' and n.args and isinstance(n.args[0], ast.Constant):
                ops.discard(nm)
                ops.add('macro:' + mname_to_cls.get(n.args[0].value, n.args[0].value))
        elif nm in ('MacroTactic',) and n.args and isinstance(n.args[0], ast.Constant):
            ops.add('macro:' + mname_to_cls.get(n.args[0].value, n.args[0].value))
        elif nm.split('.')[-1].endswith('_macro') or nm.split('.')[-1].endswith('Macro'):
            ops.add('macro:' + nm.split('.')[-1])
        elif call_attr(n) == 'set_line' and len(n.args) >= 2 and isinstance(n.args[1], ast.Constant) and n.args[1].value not in ('sorry', ''):
            ops.add('macro:' + mname_to_cls.get(n.args[1].value, n.args[1].value))
    return ops


def rule_s2(repo):
    res = RuleResult('C14.S2', 'the preview of a suggestion is computed by an operation its application also performs, with the same direction flag', floor=8)
    mname_to_cls = {}
    for mi in macro_index(repo):
        for n in mi.names:
            mname_to_cls[n] = mi.cls.name
    for mi in method_index(repo):
        if mi.apply is None or mi.search is None:
            continue
        lits = [d for d in _search_dicts(mi.search) if d != 'DATA']
        if not any(_keys(d) & {'_goal', '_fact'} for d in lits):
            continue
        s_ops = _ops(repo, mi.search, mname_to_cls)
        a_ops = _ops(repo, mi.apply, mname_to_cls)
        extra = sorted(s_ops - a_ops)
        res.add('%s :: search-vs-apply :: operations' % mi.key, bool(s_ops) and not extra,
                'preview and application both use %s' % sorted(s_ops) if s_ops and not extra else
                ('search computes its preview with %s, which apply never uses (apply uses %s): the advertised result is not what '
                 'applying the suggestion does' % (extra, sorted(a_ops)) if s_ops else 'search advertises a result without computing it'),
                mi.search.loc)
        # direction flag
        def sym_consts(f):
            vals = set()
            for n in ast.walk(f.node):
                cp = compare_parts(n) if isinstance(n, ast.Compare) else None
                if cp and cp[0] is ast.Eq and isinstance(cp[2], ast.Constant) and 'sym' in src(cp[1]):
                    vals.add(cp[2].value)
            return vals
        ss, sa = sym_consts(mi.search), sym_consts(mi.apply)
        if ss or sa:
            ok = ss == sa
            res.add('%s :: search-vs-apply :: sym-flag' % mi.key, ok,
                    'both sides decode the direction flag as == %s' % sorted(ss) if ok else
                    'search decodes the direction flag with %s, apply with %s' % (sorted(ss), sorted(sa)), mi.search.loc)
    return res


def rule_s3(repo):
    res = RuleResult('C14.S3', 'every suggestion a method can return can be displayed', floor=15)
    # search_method renders each suggestion through output_hint -> display_step without a guard
    oh = repo.func(METHOD, 'output_hint')
    calls = [c for c in ast.walk(oh.node) if isinstance(c, ast.Call) and call_attr(c) == 'display_step']
    need(calls, 'output_hint no longer calls display_step (anchor moved)')
    for mi in method_index(repo):
        if mi.display is None or mi.search is None or not _search_nonempty(mi.search):
            continue
        params = mi.display.params()
        need(len(params) >= 3, '%s.display_step has no data parameter' % mi.key)
        data = params[2]
        uncond, guarded, _q = _reads(mi.display, data)
        dicts = _search_dicts(mi.search)
        lits = [d for d in dicts if d != 'DATA']
        if not lits:
            # suggestions are the caller's own data or computed elsewhere: nothing to compare
            res.add('%s :: display_step :: keys' % mi.key, True, 'search returns no literal suggestion', mi.display.loc, nontrivial=False)
            continue
        every = set.intersection(*[_keys(d) for d in lits])
        miss = sorted(uncond - every - FRAMEWORK_KEYS)
        res.add('%s :: display_step :: keys' % mi.key, not miss,
                'needs %s, present in every suggestion' % sorted(uncond - FRAMEWORK_KEYS) if not miss else
                'display_step reads %s unconditionally but some suggestion returned by search lacks it: searching raises KeyError' % miss,
                mi.display.loc)
    return res


def rule_s4(repo):
    """search_method tries the selected facts in several orders; the suggestion must record the order
    under which the method's search produced it, because apply hands fact_ids to the method as they are."""
    res = RuleResult('C14.S4', 'a suggestion records the goal and the fact order that were given to the search that produced it', floor=2)
    f = repo.func(METHOD, 'ProofState.search_method')
    flow = flow_of(f.node)
    calls = [c for c in ast.walk(f.node) if isinstance(c, ast.Call) and call_attr(c) == 'search' and len(c.args) >= 3]
    need(calls, 'ProofState.search_method: call of Method.search not found')
    goal_arg, facts_arg = calls[0].args[1], calls[0].args[2]
    need(isinstance(goal_arg, ast.Name) and isinstance(facts_arg, ast.Name), 'ProofState.search_method: search(...) arguments are not plain names')
    stores = {}
    for n in ast.walk(f.node):
        if isinstance(n, ast.Assign) and len(n.targets) == 1 and isinstance(n.targets[0], ast.Subscript) and \
                isinstance(n.targets[0].slice, ast.Constant) and n.targets[0].slice.value in ('goal_id', 'fact_ids'):
            stores[n.targets[0].slice.value] = n
    for key, arg in (('goal_id', goal_arg), ('fact_ids', facts_arg)):
        st = need(stores.get(key), 'ProofState.search_method: store of %r not found' % key)
        names = flow.names_closure(st.value)
        ok = arg.id in names
        res.add('%s :: ProofState.search_method :: %s-from-search-argument' % (METHOD, key), ok,
                '%s is computed from `%s`, the argument given to search' % (key, arg.id) if ok else
                '%s is computed from %s, not from `%s` which the search was called with: a suggestion found under one order of the '
                'selected facts is recorded (and later applied) with another' % (key, sorted(names)[:4], arg.id), '%s:%d' % (METHOD, st.lineno))
    return res


def rule_s5(repo):
    """A method whose application asserts how many facts it takes (`assert len(prevs) == N`) must not
    suggest itself for another number of selected facts: every non-empty list of suggestions its search
    returns is behind the same test on the number of facts."""
    res = RuleResult('C14.S5', 'a method that asserts the number of facts on application suggests itself only for that number of facts', floor=5)
    for mi in method_index(repo):
        if not mi.apply or not mi.search:
            continue
        wants = None
        prm_a = mi.apply.params()
        for n in ast.walk(mi.apply.node):
            if isinstance(n, ast.Assert):
                cp = compare_parts(n.test)
                if cp and cp[0] is ast.Eq and isinstance(cp[1], ast.Call) and call_name(cp[1]) == 'len' and cp[1].args and \
                        isinstance(cp[1].args[0], ast.Name) and cp[1].args[0].id in prm_a and 'prev' in cp[1].args[0].id and \
                        isinstance(cp[2], ast.Constant):
                    wants = cp[2].value
        if wants is None:
            continue
        cfg = cfg_of(mi.search.node)
        prm_s = [p for p in mi.search.params() if 'prev' in p]
        need(prm_s, '%s.search has no parameter for the selected facts' % mi.key)
        pv = prm_s[0]

        def right_number(e, pol):
            cp = compare_parts(e)
            if not (cp and isinstance(cp[1], ast.Call) and call_name(cp[1]) == 'len' and cp[1].args and is_name(cp[1].args[0], pv) and
                    isinstance(cp[2], ast.Constant) and cp[2].value == wants):
                return False
            return (cp[0] is ast.Eq and pol) or (cp[0] is ast.NotEq and not pol)
        edges = cfg.establishing_edges(right_number)
        # a re-application with recorded data (`if data: return [data]`) is not a suggestion
        rets = [r for r in cfg.return_nodes() if r.ast.value is not None and not (isinstance(r.ast.value, ast.List) and not r.ast.value.elts) and
                not (isinstance(r.ast.value, ast.List) and len(r.ast.value.elts) == 1 and is_name(r.ast.value.elts[0], 'data'))]
        bad = [r for r in rets if cfg.path_avoiding(r, skip_edges=edges) is not None]
        ok = not bad
        res.add('%s :: search :: number-of-facts(%d)' % (mi.key, wants), ok,
                'suggestions only when len(%s) == %d' % (pv, wants) if ok else
                '`%s` (line %d) can be returned for any number of selected facts, but apply asserts len(prevs) == %d: with a fact selected the '
                'suggestion is shown and applying it fails' % (src(bad[0].ast, 40), bad[0].lineno, wants), mi.search.loc)
    return res


def rule_s6(repo):
    """Applying a suggestion splices lines into the proof and renumbers what follows (see C13.A10)."""
    from .c13 import renumbering_rule
    return renumbering_rule(repo, 'C14.S6')


def rule_s7(repo):
    """A subgoal that `trivial` closes is closed by a line whose statement the macro computes: the order in
    which an expansion puts a stripped prefix back (C04.M15) decides whether that line proves what the suggestion
    advertised."""
    from .c04 import rule_m15
    r = rule_m15(repo)
    res = RuleResult('C14.S7', 'the line that closes a trivial subgoal proves the advertised statement: stripped prefixes are put back in order', floor=2)
    for i in r.instances:
        if 'logic/logic.py' in i.key:
            res.add(i.key, i.ok, i.detail, i.loc)
    return res


def rule_s8(repo):
    """What the user types for a parameter of a method is a term over the variables visible at the *goal*: the selected
    line `id`.  A fact that is applied lies before the goal, possibly outside the block in which the goal's variables are
    introduced.  Every context in which a method parses its parameters is therefore built from `state.get_vars(id)` with
    `id` the method's goal parameter; built from a fact, a parameter that mentions a variable of the goal's own block
    fails to parse and a suggestion that was offered fails outright."""
    res = RuleResult('C14.S8', 'a method parses its parameters in the context of the goal line, not of a fact', floor=7)
    m = repo.module(METHOD)
    for c in m.classes.values():
        for mname in ('apply', 'search', 'display_step'):
            f = c.methods.get(mname)
            if f is None or len(f.params()) < 3:
                continue
            # the goal line: the parameter `id`, or a local read from the request's 'goal_id'
            goals = {p for p in f.params() if p in ('id', 'goal_id')}
            for n in ast.walk(f.node):
                if isinstance(n, ast.Assign) and any(isinstance(x, ast.Constant) and x.value == 'goal_id' for x in ast.walk(n.value)):
                    goals |= {t.id for t in n.targets if isinstance(t, ast.Name)}
            if not goals:
                continue
            goal = sorted(goals)[0]
            for w in ast.walk(f.node):
                if not isinstance(w, ast.With):
                    continue
                for it in w.items:
                    ce = it.context_expr
                    if not (isinstance(ce, ast.Call) and (call_name(ce) or '').endswith('fresh_context')):
                        continue
                    for k in ce.keywords:
                        if k.arg != 'vars' or not (isinstance(k.value, ast.Call) and call_attr(k.value) == 'get_vars' and k.value.args):
                            continue
                        parses = any(isinstance(x, ast.Call) and (call_name(x) or '').split('.')[-1].startswith('parse_') for st in w.body for x in ast.walk(st))
                        if not parses:
                            continue
                        ok = isinstance(k.value.args[0], ast.Name) and k.value.args[0].id in goals
                        res.add('%s :: %s.%s :: parse-context@%s' % (METHOD, c.name, mname, src(ce, 60)), ok,
                                'parameters are read over the variables of the goal line' if ok else
                                'line %d parses the parameters over the variables visible at `%s`, not at the goal `%s`: a parameter that mentions a variable '
                                'introduced in the goal\'s block (after the fact) is rejected, and the suggested step fails' % (
                                    w.lineno, src(k.value.args[0], 30), goal), '%s:%d' % (METHOD, w.lineno))
    return res

def rule_s9(repo):
    """A forward suggestion adds a fact in front of the goal and then asks whether some earlier line already proves the
    goal; if so the goal is removed and what cited it cites that line (C13.A9).  For this property: the suggestion said
    "adds the fact F" - redirected to anything but the line find_goal returned, the goal is "closed" by a line that does
    not prove it and the step has not done what was advertised."""
    from .c13 import rule_a9
    r = rule_a9(repo)
    res = RuleResult('C14.S9', 'a goal found already proved is closed by the line that proves it', floor=4)
    for i in r.instances:
        res.add(i.key, i.ok, i.detail, i.loc)
    return res

def rule_s10(repo):
    """A suggestion that is applied closes the subgoals that are already proved or trivial; the line numbers it works with
    must survive its own removals (C13.A14), or the step removes another goal than it reported."""
    from .c13 import stale_id_rule
    return stale_id_rule(repo, 'C14.S10')

def rule_s11(repo):
    """A method offers a step when the macro's own predicate says it can evaluate the goal; the line it writes is checked
    by that macro's expansion.  Where the predicate looks at the values of numerals only (C04.M19), the step is offered for
    goals about other number types and the written line does not check."""
    from .c04 import numeral_type_rule
    return numeral_type_rule(repo, 'C14.S11')

def rule_s12(repo):
    """A forward suggestion says "this adds the fact F in front of the goal".  Applying it has to add that line on every way it completes:
    a return in front of the insertion ("the fact is already there") makes the applied suggestion a no-op while the search still offers
    it, and a script that replays the step finds the proof one line shorter than recorded.  In the apply of the methods that insert a
    line (`add_line_before` + `set_line`), no normal exit is reachable without the insertion."""
    res = RuleResult('C14.S12', 'a method that adds a fact adds it on every normal completion of apply', floor=3)
    m = repo.module(METHOD)
    for c in m.classes.values():
        f = c.methods.get('apply')
        if f is None:
            continue
        cfg = cfg_of(f.node)
        ins = [n for n in cfg.nodes if n.kind == 'stmt' and any(isinstance(x, ast.Call) and call_attr(x) == 'add_line_before' for x in ast.walk(n.ast))]
        sets = [n for n in cfg.nodes if n.kind == 'stmt' and any(isinstance(x, ast.Call) and call_attr(x) == 'set_line' for x in ast.walk(n.ast))]
        if not ins or not sets:
            continue
        # conditional insertion is this rule's subject only when the method always inserts elsewhere: all insert sites unconditional in the clean tree
        ok = cfg.path_avoiding(cfg.exit, skip_nodes=ins) is None
        early = [r for r in cfg.return_nodes() if cfg.path_avoiding(r, skip_nodes=ins) is not None]
        res.add('%s :: %s.apply :: inserts-on-every-completion' % (METHOD, c.name), ok,
                'every normal exit lies behind add_line_before' if ok else
                'line %d leaves apply without having added the line the suggestion advertises' % (early[0].lineno if early else f.node.lineno),
                '%s:%d' % (METHOD, (early[0] if early else ins[0]).lineno))
    return res


def rules(repo):
    return [rule_s1(repo), rule_s2(repo), rule_s3(repo), rule_s4(repo), rule_s5(repo), rule_s6(repo), rule_s7(repo), rule_s8(repo), rule_s9(repo), rule_s10(repo), rule_s11(repo), rule_s12(repo)]
