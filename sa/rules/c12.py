"""C12 - theory loading independent of process history: no theory swap inside a build region, validity
marker last, per-user context forwarded, errors raised, who may write the global theory."""
import ast

from ..core import RuleResult, need
from ..cfg import cfg_of
from ..flow import flow_of, path_base
from ..astutil import src, call_attr, call_name, compare_parts, is_name, path_of, walk_no_nested
from ..repo import dotted

BASIC = 'logic/basic.py'
THEORY = 'kernel/theory.py'

NOT_DECIDED = ('equality of the resulting theory contents across process histories (needs a runtime dump); that a changed '
               'file is re-read (depends on file system timestamps)')
ASSUMPTIONS = ['a module body runs at most once per process, on the first import of the module',
               'parser callbacks of lark (HOLTransformer methods) run during items.parse_item']

REGION_MODULES = ('syntax/parser.py', 'syntax/infertype.py', 'server/items.py')


def swapper_modules(repo):
    """modules whose body (outside functions, classes and a __main__ guard) replaces the global theory"""
    res = {}
    for m in repo.source_modules():
        hits = []
        for n in m.tree.body:
            if isinstance(n, (ast.FunctionDef, ast.AsyncFunctionDef, ast.ClassDef)):
                continue
            if isinstance(n, ast.If):
                cp = compare_parts(n.test)
                if cp and any(is_name(x, '__name__') for x in (cp[1], cp[2])):
                    continue
            for c in ast.walk(n):
                if isinstance(c, ast.Call) and call_attr(c) in ('load_theory', 'set_context'):
                    hits.append('%s at line %d' % (src(c, 40), c.lineno))
                if isinstance(c, ast.Assign) and any(path_of(t) == 'theory.thy' for t in c.targets):
                    hits.append('%s at line %d' % (src(c, 40), c.lineno))
        if hits:
            res[m.rel] = hits
    return res


def build_region(repo):
    entries = [repo.func(BASIC, 'load_theory_cache'), repo.func(BASIC, 'load_theory')]
    fs = {id(f): f for f in repo.reachable_funcs(entries, depth=6) if not f.module.is_test}
    for rel in REGION_MODULES:
        m = repo.modules.get(rel)
        if m is not None:
            for f in m.all_funcs:
                fs[id(f)] = f
    return list(fs.values())



def _cache_func(repo):
    """load_theory_cache with conditions that were given a name read at their tests (`up_to_date = 'timestamp' in cache and ..; if up_to_date:`)"""
    from ..cfg import inline_named_conditions
    from ..normalize import as_func
    f = repo.func(BASIC, 'load_theory_cache')
    return as_func(f, inline_named_conditions(f.node))


def rule_l1(repo):
    res = RuleResult('C12.L1', 'a function-level import reachable while a theory is being built cannot replace the current theory', floor=8)
    swappers = swapper_modules(repo)
    need(len(swappers) >= 5, 'fewer than 5 modules load a theory from their module body (anchor family vanished)')
    region = build_region(repo)
    region_ids = {id(f) for f in region}
    n_lazy = 0
    for f in region:
        m = f.module
        for (modname, lineno, lazy, node, owner, name) in m.imports:
            if not lazy or owner is None or id(owner) not in region_ids or owner is not f:
                continue
            n_lazy += 1
            targets = repo.import_target(modname, name)
            bad_chain = None
            for t in targets:
                for cm in repo.toplevel_import_closure(t):
                    if cm.rel in swappers:
                        bad_chain = (t.rel, cm.rel, swappers[cm.rel][0])
                        break
                if bad_chain:
                    break
            key = '%s :: %s :: import(%s)' % (m.rel, f.qualname, (modname + '.' + name) if name and name != '*' else modname)
            if bad_chain is None:
                res.add(key, True, 'imports no module that loads a theory when first imported', '%s:%d' % (m.rel, lineno), nontrivial=True)
                continue
            # protected by save / restore of theory.thy around the import
            cfg = cfg_of(f.node)
            inode = cfg.node_for(node) or next((n for n in cfg.nodes if n.ast is node), None)
            ok = False
            if inode is not None:
                saves = [n for n in cfg.stmt_nodes(ast.Assign) if path_of(n.ast.value) == 'theory.thy' and
                         len(n.ast.targets) == 1 and isinstance(n.ast.targets[0], ast.Name)]
                for s in saves:
                    x = s.ast.targets[0].id
                    restores = [n for n in cfg.stmt_nodes(ast.Assign) if any(path_of(t) == 'theory.thy' for t in n.ast.targets) and is_name(n.ast.value, x)]
                    if restores and cfg.dominates(s, inode) and cfg.exit.id not in cfg.reach_from([b for b, _l in inode.succ], skip_nodes=restores):
                        ok = True
            res.add(key, ok,
                    'first import of %s runs `%s` (via %s); protected by save/restore of theory.thy' % (bad_chain[1], bad_chain[2], bad_chain[0]) if ok else
                    'the first import of %s runs `%s` in its module body (reached through %s): if that happens while a theory is being '
                    'built, the theory under construction is replaced, so the result of loading depends on what was imported before' % (
                        bad_chain[1], bad_chain[2], bad_chain[0]), '%s:%d' % (m.rel, lineno))
    res.info['lazy_imports_in_region'] = n_lazy
    res.info['swapper_modules'] = sorted(swappers)
    return res


def rule_l2(repo):
    res = RuleResult('C12.L2', 'the timestamp that marks a theory cache valid is written after everything that can fail', floor=1)
    f = _cache_func(repo)
    cfg = cfg_of(f.node)
    marks = [n for n in cfg.stmt_nodes(ast.Assign) if any(
        isinstance(t, ast.Subscript) and isinstance(t.slice, ast.Constant) and t.slice.value == 'timestamp' for t in n.ast.targets)]
    need(marks, 'load_theory_cache: store of the timestamp marker not found')
    # the validity test that trusts the marker
    trusts = [n for n in cfg.test_nodes() if any(isinstance(x, ast.Subscript) and isinstance(x.slice, ast.Constant) and x.slice.value == 'timestamp'
                                                 for x in ast.walk(n.ast))]
    need(trusts, 'load_theory_cache: test of the timestamp marker not found')
    for mk in marks:
        after = cfg.reach_from([b for b, _l in mk.succ])
        risky = []
        for n in cfg.nodes:
            if n.id in after and n.kind in ('stmt', 'test', 'iter'):
                for h in cfg.headers(n):
                    for c in ast.walk(h):
                        if isinstance(c, ast.Call):
                            risky.append('line %d: %s' % (n.lineno, src(c, 40)))
        ok = not risky
        res.add('%s :: load_theory_cache :: marker-last' % BASIC, ok,
                'nothing that can raise follows the store of the marker' if ok else
                'after the cache is marked valid the function still runs %s: an error there leaves a partial cache that later loads trust' % '; '.join(risky[:4]),
                '%s:%d' % (BASIC, mk.lineno))
        # content stored before the marker
        contents = [n for n in cfg.stmt_nodes(ast.Assign) if any(
            isinstance(t, ast.Subscript) and isinstance(t.slice, ast.Constant) and t.slice.value == 'content' for t in n.ast.targets)]
        ok = bool(contents) and all(cfg.path_avoiding(mk, skip_nodes=contents) is None for _ in [0])
        res.add('%s :: load_theory_cache :: content-before-marker' % BASIC, ok,
                'cache content is stored on every path before the marker' if ok else 'the marker can be written without the content', '%s:%d' % (BASIC, mk.lineno))
    return res


def rule_l3(repo):
    res = RuleResult('C12.L3', 'a function working for one user passes that user on to every callee that takes one', floor=6)
    m = repo.module(BASIC)
    for f in m.all_funcs:
        top = f
        while top.parent is not None:
            top = top.parent
        if 'username' not in top.params():
            continue
        for c in walk_no_nested(f.node, include_root=False):
            if not isinstance(c, ast.Call):
                continue
            for t in repo.resolve_call(f, c):
                if t.module.rel != BASIC or 'username' not in t.params():
                    continue
                idx = t.params().index('username')
                got = c.args[idx] if idx < len(c.args) else next((k.value for k in c.keywords if k.arg == 'username'), None)
                ok = is_name(got, 'username')
                res.add('%s :: %s :: call(%s)@%s' % (BASIC, f.qualname, t.qualname, src(c, 30)), ok,
                        'username forwarded' if ok else
                        '`%s` does not pass username: the callee works on the files of its default user (master)' % src(c), '%s:%d' % (BASIC, c.lineno))
    return res


def rule_l4(repo):
    res = RuleResult('C12.L4', 'a missing limit and an import cycle are reported as errors', floor=2)
    f = repo.func(BASIC, 'load_theory')
    cfg = cfg_of(f.node)
    loops = [n for n in cfg.nodes_of_kind('iter') if any(isinstance(x, ast.Break) for s in n.ast.body for x in ast.walk(s))]
    need(loops, 'load_theory: item loop with break not found')
    it = loops[-1]
    # the test of `limit` after the loop: the loop head is no longer reachable from it
    lim_tests = [n for n in cfg.test_nodes() if is_name(n.ast, 'limit') and it.id not in cfg.reach_from(n)]
    found_tests = [n for n in cfg.test_nodes() if is_name(n.ast, 'found_limit')]
    done = [b for b, l in it.succ if l == 'done']
    skip = {(n.id, 'false') for n in lim_tests} | {(n.id, 'true') for n in found_tests}
    # (a search loop with an else clause that raises needs neither flag nor later test)
    ok = bool(done) and cfg.exit.id not in cfg.reach_from(done, skip_edges=skip)
    res.add('%s :: load_theory :: missing-limit-raises' % BASIC, ok,
            'when the items are exhausted with a limit that was not found, an exception is raised' if ok else
            'load_theory can return normally although the requested limit was never found', f.loc)
    # found_limit is set only where the loop breaks
    sets = [n for n in cfg.stmt_nodes(ast.Assign) if any(is_name(t, 'found_limit') for t in n.ast.targets) and
            isinstance(n.ast.value, ast.Constant) and n.ast.value.value is True]
    ok2 = all(any(isinstance(b.ast, ast.Break) for b, _l in s.succ) for s in sets)
    res.add('%s :: load_theory :: found-limit-breaks' % BASIC, ok2,
            ('found_limit = True is immediately followed by break' if sets else 'no found-flag: the search loop reports a missing limit itself') if ok2 else 'found_limit is set without leaving the loop', f.loc,
            nontrivial=False)
    g = repo.func(BASIC, 'check_topological_sort.<locals>.dfs')
    gcfg = cfg_of(g.node)
    nm, path = g.params()[:2]
    tests = [n for n in gcfg.test_nodes() if (lambda cp: cp and cp[0] is ast.In and is_name(cp[1], nm) and is_name(cp[2], path))(compare_parts(n.ast))]
    ok = bool(tests) and all(gcfg.exit.id not in gcfg.reach_from([b for b, l in t.succ if l == 'true']) for t in tests) and \
        any(isinstance(x, ast.Raise) for x in ast.walk(g.node))
    # the recursive calls extend the path with the current name
    rec_ok = any(isinstance(c, ast.Call) and is_name(c.func, g.name) and len(c.args) == 2 and nm in {x.id for x in ast.walk(c.args[1]) if isinstance(x, ast.Name)}
                 for c in ast.walk(g.node))
    res.add('%s :: check_topological_sort.dfs :: cycle-raises' % BASIC, ok and rec_ok,
            'a theory met again on the current search path raises' if ok and rec_ok else
            'an import cycle is not reported (test `%s in %s` with raise, or the path extension, is missing)' % (nm, path), g.loc)
    return res

def rule_l12(repo):
    """The limit names an item of the file: loading stops *at that item*, whatever else is true of it.  An item that failed
    to parse is still an item of the file (the editor asks for exactly this: load up to the broken item, so that it can be
    repaired in the context in front of it).  In the item loop, therefore, no item goes by without having been compared
    with the limit: every way round the loop passes a test that mentions the limit."""
    res = RuleResult('C12.L12', 'every item of the file is compared with the limit before anything else decides about it', floor=1)
    f = repo.func(BASIC, 'load_theory')
    cfg = cfg_of(f.node)
    loops = [n for n in cfg.nodes_of_kind('iter') if any(isinstance(x, ast.Break) for s_ in n.ast.body for x in ast.walk(s_))]
    need(loops, 'load_theory: item loop with break not found')
    it = loops[-1]
    lim = [n for n in cfg.test_nodes() if any(isinstance(x, ast.Name) and x.id == 'limit' for x in ast.walk(n.ast)) and it.id in cfg.reach_from(n)]
    need(lim, 'load_theory: no test of the limit inside the item loop')
    body = [b for b, l in it.succ if l == 'loop']
    # once round the loop without meeting a test of the limit
    r = cfg.reach_from(body, skip_nodes=lim)
    bad = it.id in r
    where = ''
    if bad:
        cands = [n for n in cfg.nodes if n.id in r and n.kind == 'test' and n.lineno >= it.lineno]
        where = ' (line %d: `%s` decides first)' % (cands[0].lineno, src(cands[0].ast, 40)) if cands else ''
    res.add('%s :: load_theory :: every-item-compared-with-limit' % BASIC, not bad,
            'every pass through the loop body begins with the test of the limit' if not bad else
            'an item can go by without being compared with the limit%s: with the limit at an item that failed to parse, load_theory reports the limit as '
            'missing or runs on to a later item of the same name' % where, '%s:%d' % (BASIC, it.lineno))
    return res


# confirmed writers of the global theory: (file, function) -> reason
WRITERS = {
    (THEORY, 'EmptyTheory'): 'local variable named thy (builds and returns a fresh theory)',
    (THEORY, 'fresh_theory'): 'context manager: saves, replaces and restores the global theory',
    (BASIC, 'load_theory'): 'the loader itself',
    (BASIC, 'load_theory_cache'): 'restore of the value saved before the lazy imports',
    ('server/monitor.py', 'check_theory'): 'save / restore pair around the edit round trip of the monitor script',
    ('server/monitor.py', 'check_modify'): 'save / restore pair of the monitor script',
}


def rule_l5(repo):
    res = RuleResult('C12.L5', 'the global theory is assigned only by the loader, the fresh-theory context manager and confirmed save/restore pairs', floor=4)
    for m in repo.source_modules():
        for f in m.all_funcs:
            if f.parent is not None:
                continue
            for n in ast.walk(f.node):
                if isinstance(n, ast.Assign) and any(path_of(t) == 'theory.thy' for t in n.targets) or \
                        (m.rel == THEORY and isinstance(n, ast.Assign) and any(is_name(t, 'thy') for t in n.targets)):
                    key = (m.rel, f.qualname)
                    ok = key in WRITERS
                    # a restore of the value this function saved itself (`prev = theory.thy ... theory.thy = prev`) keeps the theory
                    # of the caller, wherever the function lives
                    if not ok and isinstance(n.value, ast.Name):
                        from ..flow import flow_of
                        fl = flow_of(f.node)
                        ds = fl.defs.get(n.value.id, [])
                        ok = bool(ds) and all(k == 'value' and path_of(v) == 'theory.thy' for k, v in ds) and n.value.id not in f.params()
                    res.add('%s :: %s :: write(theory.thy)@%s' % (m.rel, f.qualname, src(n.value, 30)), ok,
                            WRITERS.get(key, '') if ok else
                            '`%s` replaces the global theory outside the loader: later loads and parses see a different theory' % src(n),
                            '%s:%d' % (m.rel, n.lineno), nontrivial=False)
        for n in m.tree.body:
            if isinstance(n, ast.Assign) and any(path_of(t) == 'theory.thy' for t in n.targets):
                res.add('%s :: <module> :: write(theory.thy)' % m.rel, False,
                        'module body replaces the global theory on import: `%s`' % src(n), '%s:%d' % (m.rel, n.lineno), nontrivial=False)
    return res


def rule_l6(repo):
    """The content of a cached theory may be used only after load_theory_cache has compared the
    file's modification time for *that* theory: a cache entry read directly may be stale."""
    res = RuleResult('C12.L6', 'cached theory content is used only through the call that re-validates the file timestamp', floor=3)
    m = repo.module(BASIC)
    n_reads = 0
    for f in m.all_funcs:
        if f.parent is not None:
            continue
        cfg = cfg_of(f.node)
        from ..flow import flow_of
        flow = flow_of(f.node)
        for n in cfg.nodes:
            for h in cfg.headers(n):
                for x in ast.walk(h):
                    if not (isinstance(x, ast.Subscript) and isinstance(x.ctx, ast.Load) and isinstance(x.slice, ast.Constant) and x.slice.value == 'content'):
                        continue
                    base = x.value
                    if isinstance(base, ast.Name) and flow.is_local(base.id) and all(
                            isinstance(r, ast.Call) and call_name(r) in ('load_json_data', 'json.load') for k, r in flow.defs[base.id]):
                        continue          # the file that was just read, not a cache entry
                    n_reads += 1
                    ok = False
                    why = ''
                    defs = []
                    if isinstance(base, ast.Name) and flow.is_local(base.id):
                        defs = [cfg.node_for(r) for k, r in flow.defs[base.id] if k == 'value']
                        vals = [r for k, r in flow.defs[base.id] if k == 'value']
                    else:
                        vals = [base]
                    for v in vals:
                        if isinstance(v, ast.Call) and call_name(v) == 'load_theory_cache':
                            ok = True
                        elif isinstance(v, ast.Subscript) and (path_of(v) or '').startswith('theory_cache'):
                            # direct read: a load_theory_cache(<same key>) call must dominate it
                            key = src(v.slice)
                            loads = [c for c in cfg.nodes if c.kind == 'stmt' and any(
                                isinstance(y, ast.Call) and call_name(y) == 'load_theory_cache' and y.args and src(y.args[0]) == key
                                for y in ast.walk(c.ast))]
                            vn = cfg.node_for(v)
                            if loads and vn is not None and cfg.path_avoiding(vn, skip_nodes=loads) is None:
                                ok = True
                            elif f.name == 'load_theory_cache':
                                ok = True      # the validating function itself reads its own entry
                            else:
                                why = '`%s` is read without a load_theory_cache(%s, ...) before it' % (src(v, 50), key)
                    res.add('%s :: %s :: content-read(%s)' % (BASIC, f.qualname, src(base, 30)), ok,
                            'obtained through load_theory_cache' if ok else
                            (why or 'content read from something other than a validated cache entry') +
                            ': if the file of that theory changed since it was cached, the old items are used', '%s:%d' % (BASIC, x.lineno))
    need(n_reads >= 2, 'logic/basic.py: reads of cached content not found')
    return res


def rule_l7(repo):
    res = RuleResult('C12.L7', 'when a changed theory file is re-read, its list of imports is taken from the file as well', floor=1)
    f = _cache_func(repo)
    cfg = cfg_of(f.node)
    from ..flow import flow_of
    flow = flow_of(f.node)
    uses = [n for n in cfg.nodes if n.kind == 'stmt' and any(
        isinstance(c, ast.Call) and call_name(c) == 'get_import_order' and c.args and 'imports' in src(c.args[0]) for c in ast.walk(n.ast))]
    need(uses, 'load_theory_cache: get_import_order(cache[\'imports\'], ...) not found')
    # the (possible) refresh: a store cache['imports'] = <derived from load_json_data in this function>, or the
    # imports handed to get_import_order derive from load_json_data directly
    def file_data(e):
        """e is `X['imports']` with X bound only to the result of load_json_data"""
        return isinstance(e, ast.Subscript) and isinstance(e.slice, ast.Constant) and e.slice.value == 'imports' and \
            isinstance(e.value, ast.Name) and flow.is_local(e.value.id) and \
            all(k == 'value' and isinstance(r, ast.Call) and call_name(r) == 'load_json_data' for k, r in flow.defs[e.value.id])
    stores = [n for n in cfg.stmt_nodes(ast.Assign) if any(
        isinstance(t, ast.Subscript) and isinstance(t.slice, ast.Constant) and t.slice.value == 'imports' for t in n.ast.targets) and
        file_data(n.ast.value)]
    compares = [n for n in cfg.test_nodes() if isinstance(n.ast, ast.Compare) and any(file_data(x) for x in ast.walk(n.ast))]
    for u in uses:
        direct = any(file_data(c.args[0]) for c in ast.walk(u.ast) if isinstance(c, ast.Call) and call_name(c) == 'get_import_order')
        # either the store is on every path, or it is skipped only when a comparison found the lists equal
        skip = {(t.id, 'false') for t in compares} | {(t.id, 'true') for t in compares if False}
        ok = direct or (bool(stores) and (cfg.path_avoiding(u, skip_nodes=stores) is None or
                                          (compares and cfg.path_avoiding(u, skip_nodes=stores, skip_edges=skip) is None)))
        res.add('%s :: load_theory_cache :: imports-refreshed' % BASIC, ok,
                'imports come from the file that was just read' if ok else
                'the imports used to rebuild a changed theory are those recorded when the metadata was first loaded: an import added to '
                'the file (or a new cycle) is ignored until the process restarts', '%s:%d' % (BASIC, u.lineno))
    return res


def rule_l8(repo):
    """load_theory builds every theory from EmptyTheory().  The tables of the new theory (signatures,
    theorems, the schematic-variable cache of theorems, attributes, overloads) must be new objects: a
    module-level table handed to add_data_type would be the same object in every theory ever built in
    the process, and what one load put there is found by the next one."""
    from .. import persist
    res = RuleResult('C12.L8', 'every table of a newly built theory is a fresh object', floor=6)
    THEORY = 'kernel/theory.py'
    m = repo.module(THEORY)
    glob = set(persist.module_containers(m)) | {n for n in m.functions} | set(m.classes)
    adt = repo.func(THEORY, 'Theory.add_data_type')
    # the default: `if init is None: init = dict()` - a fresh object per call
    fresh_default = any(isinstance(n, ast.Assign) and any(is_name(t, adt.params()[2]) for t in n.targets) and persist.is_mutable_ctor(n.value)
                        for n in ast.walk(adt.node)) and not persist.mutable_defaults(adt.node)
    res.add('%s :: Theory.add_data_type :: fresh-default' % THEORY, fresh_default,
            'a missing initial value is replaced by a new container inside the call' if fresh_default else
            'the default initial table is not created per call', adt.loc)
    calls = 0
    for mod in repo.source_modules():
        for f in mod.all_funcs:
            fnode = f.node
            if any(isinstance(n, ast.For) and any(isinstance(c, ast.Call) and call_attr(c) == 'add_data_type' for c in ast.walk(n)) for n in ast.walk(fnode)):
                from ..normalize import unroll_literal_loops
                fnode = unroll_literal_loops(fnode, max_elems=16)      # the tables declared by a loop over their names, written out
            for c in walk_no_nested(fnode, include_root=False):
                if not (isinstance(c, ast.Call) and call_attr(c) == 'add_data_type'):
                    continue
                calls += 1
                init = c.args[1] if len(c.args) > 1 else next((k.value for k in c.keywords if k.arg == 'init'), None)
                nm = src(c.args[0], 30) if c.args else '?'
                if init is None or persist.is_mutable_ctor(init):
                    ok, why = True, 'fresh table'
                else:
                    flow = flow_of(f.node)
                    roots = flow.resolve(init)
                    shared = [r for r in roots if not flow.is_local(path_base(r))]
                    ok = not shared
                    why = 'initial value built in the call' if ok else \
                        'the initial value `%s` is (derived from) `%s`, which is not created in this call: every theory built here shares that ' \
                        'one table, so entries made while one theory was current are found under the next' % (src(init, 30), shared[0])
                res.add('%s :: %s :: add_data_type(%s)' % (mod.rel, f.qualname, nm), ok, why, '%s:%d' % (mod.rel, c.lineno))
    need(calls >= 5, 'fewer than 5 add_data_type calls found')
    return res


def rule_l9(repo):
    """A cached theory is reused only if the file is the one that was cached: the recorded timestamp must
    *equal* the current one.  An ordering test (`<=`) also accepts a file that was replaced by an older revision
    (restored backup, rsync -t), which is then never re-read in this process."""
    res = RuleResult('C12.L9', 'a cached theory is reused only when the recorded timestamp equals the file\'s', floor=1)
    f = _cache_func(repo)
    cfg = cfg_of(f.node)
    tests = [t for t in cfg.test_nodes() if compare_parts(t.ast) and "'timestamp'" in src(t.ast, 200) and
             not (compare_parts(t.ast)[0] in (ast.In, ast.NotIn))]
    need(tests, 'load_theory_cache: comparison with the recorded timestamp not found')
    for t in tests:
        op = compare_parts(t.ast)[0]
        # the side on which the cache is returned as it is
        reuse = 'true' if op is not ast.NotEq else 'false'
        early = [r for r in cfg.return_nodes() if r.id in cfg.reach_from([b for b, l in t.succ if l == reuse], skip_nodes=[n for n in cfg.nodes if n.kind == 'stmt' and isinstance(n.ast, ast.Assign)])]
        ok = op in (ast.Eq, ast.NotEq)
        res.add('%s :: load_theory_cache :: reuse-test(%s)' % (BASIC, src(t.ast, 50)), ok,
                'equality of the two timestamps' if ok else
                '`%s` reuses the cache whenever the file is not *newer*: a file replaced by a revision with an older modification time is never '
                're-read, and later loads keep the first revision' % src(t.ast, 50), '%s:%d' % (BASIC, t.lineno))
    return res


def rule_l10(repo):
    """`load_theory(limit=...)` and its helpers locate items by position.  A position is 0 for the first item:
    a variable that holds a position (an index from enumerate / range / .index(), or the result of a function that
    returns such an index or None) must be tested with `is None`, never by its truth value - `content[:end] if end
    else content` loads the whole theory when the limit is the first item, so the theorem being proved is available
    to its own proof."""
    res = RuleResult('C12.L10', 'a position in the item list is never tested by its truth value', floor=1)
    m = repo.module(BASIC)

    def index_names(fnode):
        idx = set()
        for x in ast.walk(fnode):
            if isinstance(x, ast.For) and isinstance(x.iter, ast.Call) and isinstance(x.iter.func, ast.Name):
                if x.iter.func.id == 'enumerate' and isinstance(x.target, (ast.Tuple, ast.List)) and isinstance(x.target.elts[0], ast.Name):
                    idx.add(x.target.elts[0].id)
                if x.iter.func.id == 'range' and isinstance(x.target, ast.Name):
                    idx.add(x.target.id)
        return idx
    index_funcs = set()
    for f in m.all_funcs:
        idx = index_names(f.node)
        rets = [r for r in ast.walk(f.node) if isinstance(r, ast.Return)]
        if any(isinstance(r.value, ast.Name) and r.value.id in idx for r in rets):
            index_funcs.add(f.name)
    n = 0
    for f in m.all_funcs:
        if f.parent is not None:
            continue
        loop_idx = index_names(f.node)
        pos = set()
        for x in ast.walk(f.node):
            if isinstance(x, ast.Assign) and isinstance(x.targets[0], ast.Name):
                v = x.value
                if isinstance(v, ast.Name) and v.id in loop_idx:
                    pos.add(x.targets[0].id)
                if isinstance(v, ast.Call) and (call_attr(v) in ('index', 'find') or call_name(v) in index_funcs):
                    pos.add(x.targets[0].id)
        if not pos and not loop_idx:
            continue
        n += 1
        bad = []
        for x in ast.walk(f.node):
            tests = []
            if isinstance(x, (ast.If, ast.While, ast.IfExp)):
                tests.append(x.test)
            if isinstance(x, ast.BoolOp):
                tests += x.values
            if isinstance(x, ast.UnaryOp) and isinstance(x.op, ast.Not):
                tests.append(x.operand)
            for t in tests:
                if isinstance(t, ast.Name) and t.id in pos:
                    bad.append('line %d tests `%s` by its truth value' % (t.lineno, t.id))
        res.add('%s :: %s :: positions-tested-with-is-None' % (BASIC, f.qualname), not bad,
                'positions %s are compared, sliced or tested with `is None` only' % (', '.join(sorted(pos | loop_idx)) or '-') if not bad else
                '; '.join(sorted(set(bad))) + ' -- position 0 (the first item of the theory) is taken for "no position": with the first item as limit the '
                'whole theory is loaded, including the item itself', f.loc)
    need(n >= 1, 'logic/basic.py: no function that handles positions found')
    return res


def rule_l11(repo):
    """Printing, parsing and type inference read the declarations of the current context, the theory and the printer settings
    from process-wide variables that `with fresh_context(..)`, `fresh_theory()`, `global_setting(..)` set for the extent of a
    block: sa/persist.scoped_state_rule."""
    from ..persist import scoped_state_rule
    return scoped_state_rule(repo, 'C12.L11')


def rule_l13(repo):
    """`get_import_order` walks the import lists *recorded in the cache*.  The list recorded for a theory is brought up to date by
    `load_theory_cache(<that theory>)` (which re-reads a changed file, rule L7) - so whoever asks for the import order of a theory
    it was handed by name has first to have that theory's entry re-validated: the call of `load_theory_cache` with the same name
    dominates the call of `get_import_order`.  Asked first, the order is that of the file as it was at the last load; an import added
    since is missing from the theory that is built, without any error."""
    res = RuleResult('C12.L13', 'the import order of a theory is asked for only after its own cache entry was re-validated', floor=1)
    m = repo.module(BASIC)
    for f in m.all_funcs:
        if f.parent is not None or f.name in ('load_theory_cache', 'get_import_order'):
            continue
        calls = [c for c in walk_no_nested(f.node) if isinstance(c, ast.Call) and call_name(c) == 'get_import_order' and c.args]
        if not calls:
            continue
        cfg = cfg_of(f.node)
        flow = flow_of(f.node)
        params = f.params()
        for i, c in enumerate(calls):
            passed_on = {x.id for a in c.args[1:] for x in ast.walk(a) if isinstance(x, ast.Name)} | \
                        {x.id for k in c.keywords for x in ast.walk(k.value) if isinstance(x, ast.Name)}
            about = [x.id for x in ast.walk(flow.inline(c.args[0])) if isinstance(x, ast.Name) and x.id in params and x.id not in passed_on]
            about = sorted(set(about))
            node = cfg.node_for(c)
            if not about or node is None:
                continue
            for p in about:
                fresh = [n for n in cfg.nodes if n.ast is not None and n is not node and any(
                    isinstance(x, ast.Call) and call_name(x) == 'load_theory_cache' and x.args and is_name(x.args[0], p)
                    for h in cfg.headers(n) for x in ast.walk(h))]
                ok = any(cfg.dominates(n, node) for n in fresh)
                res.add('%s :: %s :: import-order(%s)#%d' % (BASIC, f.qualname, p, i + 1), ok,
                        'load_theory_cache(%s, ..) is called on every path to line %d' % (p, c.lineno) if ok else
                        'line %d asks for the import order of `%s` from the recorded import lists before load_theory_cache(%s, ..) has re-read the file: after the '
                        'imports of the file were edited, the first load builds the theory from the old list and the items of a new import are silently missing'
                        % (c.lineno, p, p), '%s:%d' % (BASIC, c.lineno))
    return res


def rules(repo):
    return [rule_l1(repo), rule_l2(repo), rule_l3(repo), rule_l4(repo), rule_l5(repo), rule_l6(repo), rule_l7(repo), rule_l8(repo), rule_l9(repo), rule_l10(repo), rule_l11(repo), rule_l12(repo), rule_l13(repo)]
