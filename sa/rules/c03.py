"""C03 - identity / hash / order discipline behind 'term equality is alpha-equivalence'."""
import ast

from ..core import RuleResult, need
from ..cfg import cfg_of
from ..astutil import (src, call_attr, call_name, compare_parts, is_name, path_of, attr_stores, self_attr_stores)
from ..kinds import infeasible_edges, TERM_KINDS, TERM_CONSTS, TYPE_KINDS, TYPE_CONSTS

TERM = 'kernel/term.py'
TYPE = 'kernel/type.py'
ORD = 'kernel/term_ord.py'

NOT_DECIDED = ('de Bruijn index arithmetic of subst_bound / abstract_over / incr_boundvars, capture-freeness, '
               'preservation of typing and denotation, beta-normalisation (runtime values)')
ASSUMPTIONS = ['id(obj) is unique among live objects (CPython)',
               'receivers of attribute stores are identified by name and module, not by inferred type']

KIND_CLASS = {'svar': 'SVar', 'var': 'Var', 'const': 'Const', 'comb': 'Comb', 'abs': 'Abs', 'bound': 'Bound'}
TKIND_CLASS = {'stvar': 'STVar', 'tvar': 'TVar', 'tconst': 'TConst'}
IGNORED_FIELDS = {'ty', 'var_name'}


def _is_id_of_self(v, recv='self'):
    return isinstance(v, ast.Call) and is_name(v.func, 'id') and len(v.args) == 1 and is_name(v.args[0], recv)


def _bulk_copies(funcnode):
    """statements copying the whole instance state of another object onto self"""
    res = []
    for n in ast.walk(funcnode):
        if isinstance(n, ast.Call) and call_attr(n) == 'update' and path_of(n.func.value) == 'self.__dict__':
            res.append(n)
        if isinstance(n, ast.Assign) and any(path_of(t) == 'self.__dict__' for t in n.targets):
            res.append(n)
    return res


def rule_i1(repo):
    res = RuleResult('C03.I1', 'the identity token _id is unique per object: only `self._id = id(self)`, re-established after bulk state copies', floor=8)
    # every write of _id in the repository
    for m in repo.source_modules():
        for t, stmt in attr_stores(m.tree):
            if t.attr != '_id':
                continue
            v = getattr(stmt, 'value', None)
            ok = is_name(t.value, 'self') and isinstance(stmt, ast.Assign) and _is_id_of_self(v)
            fn = _enclosing(m, stmt)
            res.add('%s :: %s :: write(_id)' % (m.rel, fn), ok,
                    'self._id = id(self)' if ok else 'identity token written as `%s`' % src(stmt), '%s:%d' % (m.rel, stmt.lineno),
                    nontrivial=False)
    term = repo.cls(TERM, 'Term')
    fam = [term] + repo.subclasses_of(term)
    # constructors of concrete kinds assign _id on every normal path
    for c in fam:
        init = c.methods.get('__init__')
        if init is None:
            continue
        cfg = cfg_of(init.node)
        resets = [n for n in cfg.stmt_nodes(ast.Assign) if any(path_of(t) == 'self._id' for t in n.ast.targets) and _is_id_of_self(n.ast.value)]
        copies = [cfg.node_for(b) for b in _bulk_copies(init.node)]
        if c is not term or copies:
            if c is term:
                pass
            else:
                ok = cfg.path_avoiding(cfg.exit, skip_nodes=resets) is None
                res.add('%s :: %s.__init__ :: assigns(_id)' % (c.module.rel, c.name), ok,
                        'every normal path sets self._id = id(self)' if ok else 'a constructor path leaves _id unset', init.loc)
        for b in copies:
            ok = bool(resets) and cfg.exit.id not in cfg.reach_from(b, skip_nodes=resets)
            res.add('%s :: %s.__init__ :: bulk-copy-then-reset(_id)' % (c.module.rel, c.name), ok,
                    'state copy is followed by self._id = id(self) on every path' if ok else
                    '`%s` copies the source object\'s _id and it is never re-assigned: two distinct objects share an '
                    'identity token, and a later object allocated at the freed address compares equal' % src(b.ast, 60),
                    '%s:%d' % (c.module.rel, b.lineno))
    # other methods of the family must not copy state wholesale
    for c in fam:
        for name, f in c.methods.items():
            if name == '__init__':
                continue
            for b in _bulk_copies(f.node):
                res.add('%s :: %s.%s :: bulk-copy' % (c.module.rel, c.name, name), False,
                        'instance state copied outside a constructor: %s' % src(b), '%s:%d' % (c.module.rel, b.lineno))
            for n in ast.walk(f.node):
                if isinstance(n, ast.FunctionDef) and n.name in ('__setstate__', '__deepcopy__', '__reduce__'):
                    pass
        for special in ('__setstate__', '__deepcopy__', '__reduce__', '__getstate__'):
            if special in c.methods:
                res.add('%s :: %s.%s' % (c.module.rel, c.name, special), False,
                        'custom state transfer on a term class would duplicate _id', c.methods[special].loc)
    return res


def _enclosing(m, stmt):
    best = '<module>'
    for f in m.all_funcs:
        if f.node.lineno <= stmt.lineno <= getattr(f.node, 'end_lineno', f.node.lineno):
            if best == '<module>' or len(f.qualname) > len(best):
                best = f.qualname
    return best


# ---------------------------------------------------------------------- field sets per kind
def _properties(cls):
    """property name -> set of first-level self attributes its body reads"""
    res = {}
    for name, f in cls.methods.items():
        if 'property' in f.decorators():
            attrs = set()
            for n in ast.walk(f.node):
                if isinstance(n, ast.Attribute) and is_name(n.value, 'self'):
                    attrs.add(n.attr)
            res[name] = attrs
    return res


def _first_level_fields(nodes_exprs, recvs, props, methods):
    """First-level attributes read from the receivers in the given expressions (methods called are
    skipped, properties are replaced by the attributes they read)."""
    fields = set()
    for e in nodes_exprs:
        called = {id(c.func) for c in ast.walk(e) if isinstance(c, ast.Call)}
        for n in ast.walk(e):
            if isinstance(n, ast.Attribute) and isinstance(n.value, ast.Name) and n.value.id in recvs:
                if id(n) in called and n.attr in methods:
                    continue
                if isinstance(n.ctx, ast.Store):
                    continue
                if n.attr in props:
                    fields |= props[n.attr]
                else:
                    fields.add(n.attr)
    return fields


def _reachable_exprs(cfg, skip):
    reach = cfg.reach_from(cfg.entry, skip_edges=skip)
    exprs = []
    for n in cfg.nodes:
        if n.id in reach:
            exprs.extend(cfg.headers(n))
    return exprs, reach


def _kind_fields(cfg, recv_names, kind, kinds, consts, props, methods, only_returns=False, extra_recv=()):
    pred = lambda e: isinstance(e, ast.Name) and e.id in recv_names
    skip = infeasible_edges(cfg, pred, kind, kinds, consts)
    exprs, reach = _reachable_exprs(cfg, skip)
    if only_returns:
        exprs = [n.ast for n in cfg.return_nodes() if n.id in reach and n.ast.value is not None]
    # drop the kind tests themselves
    fields = _first_level_fields(exprs, set(recv_names) | set(extra_recv), props, methods)
    completes = cfg.exit.id in reach
    return fields, completes


def _init_fields(cls):
    init = cls.methods.get('__init__')
    return {a for a, _v, _s in self_attr_stores(init.node)} if init else set()


def rule_i2(repo):
    res = RuleResult('C03.I2', 'equality compares exactly the structural fields of each kind, and the hash reads no more than equality compares', floor=18)
    for rel, clsname, kinds, consts, kcls in ((TERM, 'Term', TERM_KINDS, TERM_CONSTS, KIND_CLASS),
                                              (TYPE, 'Type', TYPE_KINDS, TYPE_CONSTS, TKIND_CLASS)):
        cls = repo.cls(rel, clsname)
        props = _properties(cls)
        methods = set(cls.methods) - set(props)
        eq = need(cls.methods.get('__eq__'), '%s.__eq__ not found' % clsname)
        hs = need(cls.methods.get('__hash__'), '%s.__hash__ not found' % clsname)
        other = eq.params()[1]
        ecfg = cfg_of(eq.node)
        hcfg = cfg_of(hs.node)
        for k in kinds:
            # --- equality: fields compared pairwise self.X == other.X in the returns reachable for kind k
            pred = lambda e: is_name(e, 'self')
            skip = infeasible_edges(ecfg, pred, k, kinds, consts)
            reach = ecfg.reach_from(ecfg.entry, skip_edges=skip)
            compared = set()
            for r in ecfg.return_nodes():
                if r.id not in reach or r.ast.value is None:
                    continue
                for c in ast.walk(r.ast.value):
                    cp = compare_parts(c)
                    if cp and cp[0] is ast.Eq:
                        a, b = cp[1], cp[2]
                        if isinstance(a, ast.Attribute) and isinstance(b, ast.Attribute) and a.attr == b.attr and \
                                {getattr(a.value, 'id', None), getattr(b.value, 'id', None)} == {'self', other}:
                            compared.add(a.attr)
            kc = repo.cls(rel, kcls[k])
            structural = {f for f in _init_fields(kc) if not f.startswith('_')} - IGNORED_FIELDS
            ok = compared == structural
            res.add('%s :: %s.__eq__ :: fields(%s)' % (rel, clsname, k), ok,
                    'compares %s' % sorted(compared) if ok else
                    'compares %s but %s objects consist of %s' % (sorted(compared), kcls[k], sorted(structural)), eq.loc)
            # --- hash
            hf, completes = _kind_fields(hcfg, ['self'], k, kinds, consts, props, methods, extra_recv=['t'])
            hf -= {'ty', '_hash_val'}
            extra = hf - compared
            ok = not extra and 'var_name' not in hf and completes
            res.add('%s :: %s.__hash__ :: fields(%s)' % (rel, clsname, k), ok,
                    'reads %s' % sorted(hf) if ok else
                    ('hash reads %s which equality ignores: equal objects may hash differently' % sorted(extra) if extra
                     else 'no hash value produced for this kind'), hs.loc)
    # --- equality consults nothing but the identity token, the kind tag and the structural fields: memoised
    # values (hashes, sizes) are dropped only on the nodes an in-place update visits, so a parent that shares
    # a sub-term with an updated term keeps stale ones, and a verdict based on them is wrong
    for rel, clsname, kinds, kcls in ((TERM, 'Term', TERM_KINDS, KIND_CLASS), (TYPE, 'Type', TYPE_KINDS, TKIND_CLASS)):
        cls = repo.cls(rel, clsname)
        eq = cls.methods['__eq__']
        other = eq.params()[1]
        allowed = {'ty', '_id'}
        for k in kinds:
            allowed |= {f for f in _init_fields(repo.cls(rel, kcls[k]))}
        read = set()
        for n in ast.walk(eq.node):
            if isinstance(n, ast.Attribute) and isinstance(n.value, ast.Name) and n.value.id in ('self', other):
                if n.attr in cls.methods or n.attr.isupper():
                    continue
                read.add(n.attr)
            if isinstance(n, ast.Call) and call_name(n) in ('getattr', 'hasattr') and len(n.args) >= 2 and \
                    isinstance(n.args[0], ast.Name) and n.args[0].id in ('self', other) and isinstance(n.args[1], ast.Constant):
                read.add(n.args[1].value)
            if isinstance(n, ast.Call) and call_name(n) == 'hash' and n.args and isinstance(n.args[0], ast.Name) and n.args[0].id in ('self', other):
                read.add('__hash__')
        extra = sorted(read - allowed)
        res.add('%s :: %s.__eq__ :: reads-structure-only' % (rel, clsname), not extra,
                'reads %s' % sorted(read) if not extra else
                'equality consults %s, which is not part of the structure of the object: a memoised value can be stale after an in-place '
                'type instantiation of a shared sub-term, and equal terms then compare unequal' % extra, eq.loc)
    # --- every kind has a branch in the structural recursions
    term = repo.cls(TERM, 'Term')
    for meth in ('__eq__', '__hash__', '__copy__', 'size', 'subst_type', 'subst_type_inplace', 'occurs_var', 'beta_norm'):
        f = term.methods.get(meth)
        if f is None:
            continue
        cfg = cfg_of(f.node)
        missing = []
        for k in TERM_KINDS:
            skip = infeasible_edges(cfg, lambda e: is_name(e, 'self'), k)
            if cfg.exit.id not in cfg.reach_from(cfg.entry, skip_edges=skip):
                missing.append(k)
        res.add('%s :: Term.%s :: kind-exhaustive' % (TERM, meth), not missing,
                'all six kinds complete' if not missing else 'no normal completion for kinds %s' % missing, f.loc, nontrivial=False)
    return res


def rule_i3(repo):
    res = RuleResult('C03.I3', 'equality-relevant fields of terms are written only by constructors, hash-invalidating methods, and the confirmed construction pipeline', floor=15)
    # confirmed table of pipeline writers (function -> reason)
    ALLOWED = {
        ('syntax/parser.py', 'HOLTransformer.typed_term'): 'annotates the term the parser has just built, before anyone else holds it',
        ('syntax/infertype.py', 'type_infer'): 'fills types of a freshly parsed term in place; ends in subst_type_inplace, which drops every memoised hash',
        ('syntax/infertype.py', 'infer_printed_type'): 'clears and restores annotations on the printer\'s private copy',
    }
    DISTINCT = {'T', 'var_T', 'fun', '_hash_val'}
    GENERIC = {'ty', 'name', 'arg', 'body', 'n'}
    CORE_DIRS = ('kernel/', 'syntax/', 'logic/', 'data/', 'prover/', 'server/')
    seen_allowed = set()
    for m in repo.source_modules():
        for f in m.all_funcs:
            if f.parent is not None:
                continue
            for t, stmt in attr_stores(f.node):
                if is_name(t.value, 'self'):
                    continue
                if t.attr in DISTINCT or (t.attr in GENERIC and m.rel.startswith(CORE_DIRS) and _looks_like_term(t)):
                    key = (m.rel, f.qualname)
                    if m.rel == TERM and f.cls is not None and t.attr == '_hash_val':
                        ok, why = True, 'memoised hash'
                    elif key in ALLOWED:
                        ok, why = True, ALLOWED[key]
                        seen_allowed.add(key)
                    else:
                        ok, why = False, 'store `%s` outside constructors and the confirmed pipeline: a term that may already be shared, hashed or cached is modified' % src(stmt)
                    res.add('%s :: %s :: store(.%s)' % (m.rel, f.qualname, t.attr), ok, why, '%s:%d' % (m.rel, stmt.lineno),
                            nontrivial=False)
    # self-stores in the Term family outside constructors must invalidate the hash first
    term = repo.cls(TERM, 'Term')
    for c in [term] + repo.subclasses_of(term):
        for name, f in c.methods.items():
            if name == '__init__':
                continue
            stores = [(a, s) for a, _v, s in self_attr_stores(f.node) if a in (DISTINCT | GENERIC) - {'_hash_val'}]
            if not stores:
                continue
            cfg = cfg_of(f.node)
            dels = [n for n in cfg.stmt_nodes(ast.Delete) if any(path_of(t) == 'self._hash_val' for t in n.ast.targets)]
            tests = [n for n in cfg.test_nodes() if isinstance(n.ast, ast.Call) and is_name(n.ast.func, 'hasattr') and
                     len(n.ast.args) == 2 and is_name(n.ast.args[0], 'self') and getattr(n.ast.args[1], 'value', None) == '_hash_val']
            for a, s in stores:
                sn = cfg.node_for(s)
                ok = bool(dels) and bool(tests) and all(cfg.dominates(t, sn) for t in tests) and \
                    all(cfg.path_avoiding(sn, skip_nodes=dels, skip_edges={(t.id, 'false') for t in tests}) is None for _ in [0])
                res.add('%s :: %s.%s :: self-store(.%s)' % (c.module.rel, c.name, name, a), ok,
                        'memoised hash deleted before the field is rewritten' if ok else
                        'field rewritten while a memoised hash may survive', '%s:%d' % (c.module.rel, s.lineno))
    for key in ALLOWED:
        need(repo.opt_func(*key) is not None, 'confirmed pipeline writer %s :: %s no longer exists (table out of date)' % key)
    return res


def _looks_like_term(t):
    """generic field names count only when the receiver is conventionally a term variable"""
    recv = t.value
    if isinstance(recv, ast.Name):
        return recv.id in ('t', 's', 'tm', 'term', 'body', 'res', 'u', 'v', 'x', 'f', 'lhs', 'rhs', 'goal', 'prop', 'concl')
    if isinstance(recv, ast.Attribute):
        return recv.attr in ('fun', 'arg', 'body', 'prop', 'lhs', 'rhs', 'arg1', 'head')
    return False


def rule_i4(repo):
    res = RuleResult('C03.I4', 'the term/type ordering compares exactly the fields equality compares', floor=9)
    for fn, rel, clsname, kinds, consts, kcls in (('fast_compare', TERM, 'Term', TERM_KINDS, TERM_CONSTS, KIND_CLASS),
                                                  ('fast_compare_typ', TYPE, 'Type', TYPE_KINDS, TYPE_CONSTS, TKIND_CLASS)):
        f = repo.func(ORD, fn)
        cls = repo.cls(rel, clsname)
        props = _properties(cls)
        methods = set(cls.methods) - set(props)
        a, b = f.params()[:2]
        cfg = cfg_of(f.node)
        pred = lambda e: isinstance(e, ast.Name) and e.id == a
        reach_of = {k: cfg.reach_from(cfg.entry, skip_edges=infeasible_edges(cfg, pred, k, kinds, consts)) for k in kinds}
        for k in kinds:
            # what is evaluated for this kind only (the common prelude - size, constructor tag - is reachable for every kind):
            # whether the parts are compared in one returned expression or one after the other makes no difference
            common = set.intersection(*[set(reach_of[j]) for j in kinds])
            own = [n for n in cfg.nodes if n.id in reach_of[k] and n.id not in common]
            fa, fb = set(), set()
            for n in own:
                for h in cfg.headers(n):
                    called = {id(c.func) for c in ast.walk(h) if isinstance(c, ast.Call)}
                    fa |= {x.attr for x in ast.walk(h) if isinstance(x, ast.Attribute) and is_name(x.value, a) and id(x) not in called}
                    fb |= {x.attr for x in ast.walk(h) if isinstance(x, ast.Attribute) and is_name(x.value, b) and id(x) not in called}
            fa -= {'ty'}
            fb -= {'ty'}
            kc = repo.cls(rel, kcls[k])
            structural = {x for x in _init_fields(kc) if not x.startswith('_')} - IGNORED_FIELDS
            ok = fa == structural and fb == structural
            res.add('%s :: %s :: fields(%s)' % (ORD, fn, k), ok,
                    'orders by %s' % sorted(fa) if ok else
                    'orders %s by %s / %s but equality of %s is on %s: the order is not compatible with equality' % (
                        k, sorted(fa), sorted(fb), kcls[k], sorted(structural)), f.loc)
    return res


def rule_i5(repo):
    """A memo table inside a recursive helper must be keyed by every parameter of the helper: the
    result of rec(s, n) for a sub-term depends on the binder depth n as well as on the node."""
    res = RuleResult('C03.I5', 'a memo table inside a recursive term traversal is keyed by every parameter of the recursion', floor=2)
    for rel in (TERM, TYPE):
        m = repo.module(rel)
        for f in m.all_funcs:
            if f.parent is None:
                continue
            # a nested recursive helper that reads / writes a dict of the enclosing function
            outer = f.parent
            caches = set()
            for n in ast.walk(outer.node):
                if isinstance(n, ast.Assign) and len(n.targets) == 1 and isinstance(n.targets[0], ast.Name) and \
                        isinstance(n.value, (ast.Dict, ast.Call)) and (isinstance(n.value, ast.Dict) or call_name(n.value) == 'dict'):
                    caches.add(n.targets[0].id)
            recursive = any(isinstance(c, ast.Call) and is_name(c.func, f.name) for c in ast.walk(f.node))
            if not caches or not recursive:
                continue
            params = f.params()
            from ..flow import flow_of
            flow = flow_of(f.node)
            for cname in sorted(caches):
                keys = []
                for n in ast.walk(f.node):
                    if isinstance(n, ast.Subscript) and is_name(n.value, cname):
                        keys.append(n.slice)
                    cp = compare_parts(n) if isinstance(n, ast.Compare) else None
                    if cp and cp[0] in (ast.In, ast.NotIn) and is_name(cp[2], cname):
                        keys.append(cp[1])
                if not keys:
                    continue
                missing = set()
                for k in keys:
                    used = flow.names_closure(k)
                    for p in params:
                        if p not in used:
                            missing.add(p)
                res.add('%s :: %s :: memo(%s)' % (rel, f.qualname, cname), not missing,
                        'keyed by all of %s' % params if not missing else
                        'memo table `%s` of %s(%s) is keyed without %s: a node reached again with a different value of it gets the '
                        'result computed for the first one' % (cname, f.name, ', '.join(params), sorted(missing)), f.loc)
    return res


def rule_i6(repo):
    """Abstraction respects the distinction equality makes: SVar('x', T) != Var('x', T), so abstracting over one
    must not bind the other (the rule of C01.K13)."""
    from .c01 import rule_k13
    r = rule_k13(repo)
    res = RuleResult('C03.I6', 'abstraction binds exactly the leaves equal to the abstracted variable, kind included', floor=2)
    for i in r.instances:
        res.add(i.key, i.ok, i.detail, i.loc)
    return res


def rule_i7(repo):
    """Substitution under binders counts binders: every recursion over terms that carries the number of
    binders passed (incr_boundvars, subst_bound, is_open, abstract_over) must enter the body of an
    abstraction with that number plus one and the parts of an application with it unchanged.  Off by one,
    variables bound inside a substituted term are shifted as if they were loose, and are captured."""
    from ..traverse import depth_rule
    return depth_rule(repo, 'C03.I7', 'recursions that count binders pass depth + 1 into an abstraction and the depth unchanged into an application',
                      [TERM], 8, 'beta_conv / forall_elim / substitution then return a term with another meaning: '
                      '%y. (%P. %w. P c) (%z. f z y) normalises to %y. %w. f w y')


def rule_i8(repo):
    """A substitution first completes its table of type instantiations (match_incr adds to it) and then
    applies it.  Applying the table before the last addition uses an incomplete table: the schematic type variables
    that are inferred from the instantiating terms stay in the result, which is then ill-typed - and the same call
    gives another result the second time, because the table was filled meanwhile."""
    res = RuleResult('C03.I8', 'a table of type instantiations is applied only after the last addition to it', floor=2)
    from ..inline import inlined
    for rel, qual in (('kernel/term.py', 'Term.subst'), ('kernel/thm.py', 'Thm.substitution')):
        f = repo.func(rel, qual)
        # the matching step may have been moved into a helper of the module: read it in place
        f = inlined(f, lambda h: h.parent is None and any(isinstance(c, ast.Call) and call_attr(c) == 'match_incr' for c in ast.walk(h.node)) and
                    not any(isinstance(c, ast.Call) and call_attr(c) in ('subst', 'subst_type') for c in ast.walk(h.node)))[0]
        cfg = cfg_of(f.node)
        adds, uses = [], []
        # a nested helper that adds to the table counts at its call sites
        adders = {}
        for g in f.nested.values():
            for c in ast.walk(g.node):
                if isinstance(c, ast.Call) and call_attr(c) == 'match_incr' and len(c.args) == 2:
                    adders[g.name] = src(c.args[1], 40)
        for n in cfg.nodes:
            if n.ast is None or n.kind not in ('stmt', 'test', 'return'):
                continue
            for c in ast.walk(n.ast) if not isinstance(n.ast, (ast.For, ast.If, ast.Try, ast.While, ast.FunctionDef)) else []:
                if isinstance(c, ast.Call) and call_attr(c) == 'match_incr' and len(c.args) == 2:
                    adds.append((n, src(c.args[1], 40)))
                if isinstance(c, ast.Call) and isinstance(c.func, ast.Name) and c.func.id in adders:
                    adds.append((n, adders[c.func.id]))
                if isinstance(c, ast.Call) and call_attr(c) in ('subst_type', 'subst', 'subst_norm') and c.args:
                    uses.append((n, src(c.args[0], 40), c))
        need(adds, '%s: no addition to a type instantiation found' % qual)
        tables = {t for _n, t in adds}
        bad = []
        checked = 0
        for n, t, c in uses:
            # the table itself, or an instantiation that carries it (inst / inst.tyinst)
            hit = [tb for tb in tables if t == tb or tb.startswith(t + '.')]
            if not hit:
                continue
            checked += 1
            reach = cfg.reach_from([b for b, _l in n.succ])
            later = [a for a, tb in adds if tb in hit and a.id in reach and a is not n]
            if later:
                bad.append('line %d applies `%s` (`%s`), line %d still adds to it' % (n.lineno, t, src(c, 40), later[0].lineno))
        need(checked, '%s: no application of the completed table found' % qual)
        res.add('%s :: %s :: table-complete-before-use' % (rel, qual), not bad,
                '%d application(s), none followed by an addition' % checked if not bad else '; '.join(bad) +
                ' -- (?x = ?y :: ?\'a).subst(x = 1, y = 2) keeps equals at ?\'a => ?\'a => bool over two natural numbers', f.loc)
    return res


def rule_i9(repo):
    """Term.subst determines the type instantiation by matching the type of each instantiated schematic variable against
    the type of its instance (Type.match_incr, incrementally, into one table).  The result is well typed only if that
    matcher is exact: the case rules of C09.N5, which are about the same function."""
    from .c09 import rule_n5
    r = rule_n5(repo)
    res = RuleResult('C03.I9', 'the incremental type matcher behind Term.subst binds, compares and recurses exactly', floor=5)
    for i in r.instances:
        res.add(i.key, i.ok, i.detail, i.loc)
    return res

def rule_i10(repo):
    """Substitution replaces every schematic variable whose *name* the instantiation mentions.  Each of them has its own
    type annotation, and the type instantiation is inferred by matching that annotation with the type of the instance
    (`v.T.match_incr(inst[v.name].get_type(), ..)`).  The matching therefore has to run over the schematic variables of the
    term themselves - everything `get_svars()` lists, possibly filtered - and not over a table that keeps one of them per
    name: with ?x :: ?'a and ?x :: ?'b in one term only one annotation would be matched, both occurrences replaced, and the
    result is ill-typed."""
    res = RuleResult('C03.I10', 'the types of all schematic variables that a substitution replaces are matched, not one per name', floor=2)
    from ..flow import flow_of

    def all_of_them(e, target):
        """e lists every schematic variable: get_svars() itself, re-packed, sorted or filtered"""
        if isinstance(e, ast.Call) and call_attr(e) in ('get_svars',):
            return True
        if isinstance(e, ast.Call) and isinstance(e.func, ast.Name) and e.func.id in ('list', 'tuple', 'sorted', 'reversed', 'set', 'frozenset') and e.args:
            return all_of_them(e.args[0], target)
        if isinstance(e, (ast.ListComp, ast.GeneratorExp, ast.SetComp)) and len(e.generators) == 1 and isinstance(e.elt, ast.Name) and \
                isinstance(e.generators[0].target, ast.Name) and e.elt.id == e.generators[0].target.id:
            return all_of_them(e.generators[0].iter, target)
        if isinstance(e, ast.BinOp) and isinstance(e.op, ast.Add):
            return all_of_them(e.left, target) or all_of_them(e.right, target)
        return False

    def by_name(e):
        """a table with one entry per name: {v.name: v for v in ..}, or what is read out of one"""
        for n in ast.walk(e):
            if isinstance(n, ast.DictComp) and isinstance(n.key, ast.Attribute) and n.key.attr == 'name':
                return n
        return None
    for m in repo.source_modules():
        for f in m.all_funcs:
            sites = []
            for c in ast.walk(f.node):
                if isinstance(c, ast.Call) and call_attr(c) == 'match_incr' and len(c.args) == 2:
                    sites.append(c)
            if not sites:
                continue
            flow = flow_of(f.node)
            for c in sites:
                recv = flow.inline(c.func.value)
                if not (isinstance(recv, ast.Attribute) and recv.attr == 'T'):
                    continue
                subj = recv.value
                # the other side is the type of what the instantiation holds under the subject's name (or under a loop key)
                other = flow.inline(c.args[0])
                from_inst = any(isinstance(s_, ast.Subscript) and isinstance(s_.value, ast.Name) and s_.value.id.startswith('inst') for s_ in ast.walk(other)) or \
                    any(isinstance(s_, ast.Name) and any(k == 'elem' and isinstance(r, ast.Call) and call_attr(r) == 'items' and
                                                        src(r.func.value, 20).startswith('inst') for k, r in flow.defs.get(s_.id, []))
                        for s_ in ast.walk(other))
                if not from_inst:
                    continue
                verdict, why = None, ''
                if isinstance(subj, ast.Name):
                    loops = [l for l in ast.walk(f.node) if isinstance(l, ast.For) and is_name(l.target, subj.id) and
                             any(x is c for b in l.body for x in ast.walk(b))]
                    if loops:
                        # the innermost loop over that name around the call
                        it = flow.inline(min(loops, key=lambda l: (l.end_lineno - l.lineno)).iter)
                        its = [it]
                        if isinstance(it, ast.Name) and it.id in f.params():
                            # the loop stands in a helper that is handed the sequence: what its callers hand over
                            idx = f.params().index(it.id)
                            off = 1 if (f.params() and f.params()[0] == 'self' and f.parent is None) else 0
                            its = []
                            for g in m.all_funcs:
                                gflow = None
                                for cc in ast.walk(g.node):
                                    if isinstance(cc, ast.Call) and ((isinstance(cc.func, ast.Name) and cc.func.id == f.name) or
                                                                     (isinstance(cc.func, ast.Attribute) and cc.func.attr == f.name)) and len(cc.args) > idx - off:
                                        gflow = gflow or flow_of(g.node)
                                        its.append(gflow.inline(cc.args[idx - off]))
                        if its and all(all_of_them(x, subj.id) for x in its):
                            verdict = True
                        elif any(by_name(x) is not None for x in its):
                            bn = [by_name(x) for x in its if by_name(x) is not None][0]
                            verdict, why = False, src(bn, 60)
                elif isinstance(subj, ast.Subscript):
                    tb = by_name(subj.value)
                    if tb is not None:
                        verdict, why = False, src(tb, 60)
                if verdict is None:
                    # a parameter of the function, a pattern node: one variable, matched where it stands - not this rule's subject
                    continue
                res.add('%s :: %s :: every-schematic-variable-matched(%s)' % (m.rel, f.qualname, src(c.func.value, 30)), verdict,
                        'the loop runs over the schematic variables of the term' if verdict else
                        'line %d matches the type of `%s`, which is read from `%s`: one schematic variable per name.  With ?x :: ?\'a and ?x :: ?\'b in one '
                        'term only one annotation is matched while both occurrences are replaced: p (?x :: ?\'a) & q (?x :: ?\'b) with ?x := 0 :: nat is '
                        'ill-typed afterwards' % (c.lineno, src(c.func.value, 30), why), '%s:%d' % (m.rel, c.lineno))
    return res


def rule_i11(repo):
    """Substitution is simultaneous: the type instantiation belongs to the *pattern*, the instances are inserted as they are.
    `Term.subst` therefore instantiates the types of the pattern first and hands the result to the replacement worker; nothing
    instantiates types in a term the worker has produced - the instances in it would be instantiated a second time
    (?x :: ?'a with ?'a := ?'a list and ?x := c :: ?'a list gives c :: ?'a list list).  Decided on the flow of values in the body:
    the receiver of every `subst_type` call does not derive, through the assignments that can reach it, from a call of the worker."""
    res = RuleResult('C03.I11', 'types are instantiated in the pattern, never in a term the replacement worker has produced', floor=1)
    f = repo.func('kernel/term.py', 'Term.subst')
    workers = set(f.nested)
    need(workers, 'Term.subst: the nested replacement worker not found')
    from ..astutil import walk_no_nested
    cfg = cfg_of(f.node)
    sites = [c for c in walk_no_nested(f.node) if isinstance(c, ast.Call) and call_attr(c) == 'subst_type']
    need(sites, 'Term.subst: no call of subst_type in the body (where is the type instantiation applied?)')

    def from_worker(e, node, seen):
        """an offending sub-expression of e: a call of the worker, or a local whose reaching assignment has one"""
        for x in ast.walk(e):
            if isinstance(x, ast.Call) and isinstance(x.func, ast.Name) and x.func.id in workers:
                return x
            if isinstance(x, ast.Name) and isinstance(x.ctx, ast.Load):
                for d in cfg.reaching_assignments(node, x.id):
                    if (d.id, x.id) in seen or not isinstance(d.ast, ast.Assign):
                        continue
                    seen.add((d.id, x.id))
                    r = from_worker(d.ast.value, d, seen)
                    if r is not None:
                        return r
        return None

    for i, c in enumerate(sites):
        node = cfg.node_for(c)
        bad = from_worker(c.func.value, node, set()) if node is not None else None
        res.add('kernel/term.py :: Term.subst :: subst_type#%d' % (i + 1), bad is None,
                'applied to `%s`, which no call of the worker has produced' % src(c.func.value, 40) if bad is None else
                'line %d instantiates types in `%s`, which comes from `%s` (line %d): the instances inserted there are type-instantiated a second time, '
                'and ?x :: ?\'a with ?\'a := ?\'a list, ?x := c :: ?\'a list gives c :: ?\'a list list' % (c.lineno, src(c.func.value, 40), src(bad, 40), bad.lineno),
                'kernel/term.py:%d' % c.lineno)
    return res


def rules(repo):
    return [rule_i1(repo), rule_i2(repo), rule_i3(repo), rule_i4(repo), rule_i5(repo), rule_i6(repo), rule_i7(repo), rule_i8(repo), rule_i9(repo), rule_i10(repo), rule_i11(repo)]
