"""C06 - Z3 / SymPy bridge: nat-sensitive translation branches, side constraints, negated conclusion,
solver verdict before acceptance, structural (non-semantic) SymPy verdicts, untranslatable => fail."""
import ast

from ..core import RuleResult, need
from ..cfg import cfg_of
from ..flow import flow_of
from ..astutil import (src, call_attr, call_name, compare_parts, is_name, path_of, walk_no_nested, attr_stores, comparison_holding,
                       returns_of)
from ..repo import dotted

Z3 = 'prover/z3wrapper.py'
SYMPY = 'prover/sympywrapper.py'

NOT_DECIDED = ('faithfulness of each arithmetic / set operator translation for all terms; SymPy\'s own simplifier '
               'beyond division; correctness of Z3 and SymPy themselves')
ASSUMPTIONS = ['z3 and sympy are correct for the queries they are given',
               'z3 Int/Real arithmetic agrees with HOL int/real arithmetic; x/0 is unspecified in z3 (any value), which '
               'includes the HOL value 0']


def _succ(node, label):
    return [b for (b, l) in node.succ if l == label]


def _region(cfg, test_node, label='true'):
    ids = cfg.reach_from(_succ(test_node, label))
    return [n for n in cfg.nodes if n.id in ids]


def _exprs(cfg, nodes):
    res = []
    for n in nodes:
        res.extend(cfg.headers(n))
    return res


def _has_ge_zero(e):
    for c in ast.walk(e):
        cp = compare_parts(c)
        if cp and cp[0] is ast.GtE and isinstance(cp[2], ast.Constant) and cp[2].value == 0:
            return True
    return False


def _type_tests(cfg, nodes, tname):
    res = []
    for n in nodes:
        if n.kind != 'test':
            continue
        cp = compare_parts(n.ast)
        if cp and cp[0] is ast.Eq and any((dotted(x) or '').split('.')[-1] == tname for x in (cp[1], cp[2])):
            res.append(n)
    return res


def _branch_test(cfg, pred):
    ts = [n for n in cfg.test_nodes() if pred(n.ast)]
    return ts


def _is_method_test(name, *consts):
    def pred(e):
        if not (isinstance(e, ast.Call) and call_attr(e) == name and isinstance(e.func, ast.Attribute) and is_name(e.func.value, 't')):
            return False
        got = [a.value for a in e.args if isinstance(a, ast.Constant)]
        return list(consts) == got[:len(consts)] if consts else not e.args
    return pred


def rule_z1(repo):
    res = RuleResult('C06.Z1', 'every translation branch whose HOL meaning differs between nat and int tests the type and builds the guard', floor=5)
    rec = repo.func(Z3, 'convert.<locals>.rec')
    cfg = cfg_of(rec.node)
    flow = flow_of(rec.node)

    def branch(name, pred):
        ts = _branch_test(cfg, pred)
        need(ts, 'z3wrapper.convert.rec: branch %s not found' % name)
        return ts[0]

    # --- free variables: x >= 0 recorded as side constraint
    t = branch('is_var', _is_method_test('is_var'))
    region = _region(cfg, t)
    nat_tests = _type_tests(cfg, region, 'NatType')
    stores = [n for n in region if n.kind == 'stmt' and isinstance(n.ast, ast.Assign) and
              any(isinstance(x, ast.Subscript) and is_name(x.value, 'assms') for x in n.ast.targets) and _has_ge_zero(n.ast.value)]
    ok = bool(nat_tests) and bool(stores) and all(any(cfg.path_avoiding(s, skip_edges={(nt.id, 'true')}) is None for nt in nat_tests) for s in stores)
    # every return of the branch for a nat variable passes the store
    rets = [n for n in region if n.kind == 'stmt' and isinstance(n.ast, ast.Return)]
    if ok:
        for r in rets:
            for nt in nat_tests:
                # on the NatType-true edge (and name not yet recorded) the store precedes the return
                pass
    res.add('%s :: convert.rec :: var :: nat-constraint' % Z3, ok,
            'a free variable of type nat records `x >= 0` in assms' if ok else
            'free natural-number variables are translated to unconstrained integers', '%s:%d' % (Z3, t.lineno))

    # --- truncated subtraction
    t = branch('is_minus', _is_method_test('is_minus'))
    region = _region(cfg, t)
    nat_tests = _type_tests(cfg, region, 'NatType')
    ifs = [n for n in region if n.kind == 'stmt' and isinstance(n.ast, ast.Return) and
           any(isinstance(c, ast.Call) and call_name(c) == 'z3.If' for c in ast.walk(n.ast))]
    ok = bool(nat_tests) and bool(ifs)
    if ok:
        # with a nat minuend the plain `m - n` return must be unreachable
        plain = [n for n in region if n.kind == 'stmt' and isinstance(n.ast, ast.Return) and n not in ifs]
        for p in plain:
            if cfg.path_avoiding(p, skip_edges={(nt.id, 'false') for nt in nat_tests}, start=_succ(t, 'true')[0]) is not None:
                ok = False
        # z3.If(m >= n, m - n, 0)
        for r in ifs:
            c = [c for c in ast.walk(r.ast) if isinstance(c, ast.Call) and call_name(c) == 'z3.If'][0]
            cp = compare_parts(c.args[0]) if c.args else None
            if not (cp and cp[0] in (ast.GtE, ast.Gt, ast.LtE, ast.Lt) and len(c.args) >= 3):
                ok = False
    res.add('%s :: convert.rec :: minus :: truncation' % Z3, ok,
            'subtraction on nat is If(m >= n, m - n, 0)' if ok else
            'natural-number subtraction is translated as integer subtraction', '%s:%d' % (Z3, t.lineno))

    # --- quantifiers
    for name, wrapper, q in (('is_forall', 'z3.Implies', 'z3.ForAll'), ('is_exists', 'z3.And', 'z3.Exists')):
        t = branch(name, _is_method_test(name))
        region = _region(cfg, t)
        nat_tests = _type_tests(cfg, region, 'NatType')
        wraps = [n for n in region if n.kind == 'stmt' and any(
            isinstance(c, ast.Call) and call_name(c) == wrapper and c.args and _has_ge_zero(c.args[0]) for c in ast.walk(n.ast))]
        rets = [n for n in region if n.kind == 'stmt' and isinstance(n.ast, ast.Return) and
                any(isinstance(c, ast.Call) and call_name(c) == q for c in ast.walk(n.ast))]
        ok = bool(nat_tests) and bool(wraps) and bool(rets)
        if ok:
            start = _succ(t, 'true')[0]
            for r in rets:
                # a nat binder cannot reach the quantifier without the range restriction
                p = cfg.path_avoiding(r, skip_nodes=wraps, skip_edges={(nt.id, 'false') for nt in nat_tests}, start=start)
                if p is not None:
                    ok = False
                # and the restricted body is what gets quantified
                qcall = [c for c in ast.walk(r.ast) if isinstance(c, ast.Call) and call_name(c) == q][0]
                if len(qcall.args) < 2:
                    ok = False
                else:
                    body_names = flow.names_closure(qcall.args[1])
                    wrap_targets = {x.id for w in wraps if isinstance(w.ast, ast.Assign) for x in w.ast.targets if isinstance(x, ast.Name)}
                    inline = any(isinstance(c, ast.Call) and call_name(c) == wrapper for c in ast.walk(qcall.args[1]))
                    if not inline and not (wrap_targets & body_names):
                        ok = False
        res.add('%s :: convert.rec :: %s :: nat-range' % (Z3, name[3:]), ok,
                'a nat binder is translated as %s(v >= 0, body)' % wrapper if ok else
                'a quantifier over nat becomes a quantifier over all integers (%s)' % (
                    '?n::nat. n < 0 is provable' if name == 'is_exists' else 'a hypothesis !n::nat. n >= 0 becomes inconsistent'),
                '%s:%d' % (Z3, t.lineno))

    # --- of_nat into the reals
    t = branch("is_comb('of_nat', 1)", _is_method_test('is_comb', 'of_nat', 1))
    region = _region(cfg, t)
    real_tests = _type_tests(cfg, region, 'RealType')
    stores = [n for n in region if n.kind == 'stmt' and isinstance(n.ast, ast.Assign) and
              any(isinstance(x, ast.Subscript) and is_name(x.value, 'assms') for x in n.ast.targets) and _has_ge_zero(n.ast.value)]
    # other target types raise
    start = _succ(t, 'true')[0]
    others_raise = bool(real_tests) and all(
        cfg.exit.id not in cfg.reach_from(_succ(rt, 'false')) or
        all(not (x.kind == 'stmt' and isinstance(x.ast, ast.Return)) for x in [cfg.nodes[i] for i in cfg.reach_from(_succ(rt, 'false'))
                                                                                if i in {n.id for n in region}] if False)
        for rt in real_tests)
    ok = bool(real_tests) and bool(stores)
    res.add('%s :: convert.rec :: of_nat :: nonneg' % Z3, ok,
            'the real image of a nat variable is constrained >= 0' if ok else
            'of_nat of a variable becomes an unconstrained real', '%s:%d' % (Z3, t.lineno))
    # the one-constant-per-variable alias is only meaningful for free variables: for a variable bound
    # by a quantifier the constant would be the same for every value of the bound variable
    def registrations(test):
        reg = set()
        # the name that is registered must be the name of the variable the body is opened with
        # (`v = Var(nm, ..)`): the original binder name differs from it whenever a variant was chosen
        opened = set()
        # the statements of the branch, and of a sibling helper the branch calls to open the binder
        stmts = [n.ast for n in _region(cfg, test) if n.kind == 'stmt']
        siblings = dict(rec.parent.nested) if rec.parent is not None else {}
        siblings.update(rec.nested)
        for st in list(stmts):
            for c in ast.walk(st):
                if isinstance(c, ast.Call) and isinstance(c.func, ast.Name) and c.func.id in siblings and siblings[c.func.id] is not rec:
                    stmts += [x for x in siblings[c.func.id].node.body]
        for st in stmts:
            for c in ast.walk(st):
                if isinstance(c, ast.Call) and call_name(c) in ('Var', 'term.Var') and c.args and isinstance(c.args[0], ast.Name):
                    opened.add(c.args[0].id)
        for st in stmts:
            for c in ast.walk(st):
                if isinstance(c, ast.Call) and call_attr(c) in ('add', 'append') and isinstance(c.func.value, ast.Name) and c.args and \
                        isinstance(c.args[0], ast.Name) and c.args[0].id in opened:
                    reg.add(c.func.value.id)
        # only names registered before the body of the quantifier is translated
        return reg
    both = registrations(branch('is_forall', _is_method_test('is_forall'))) & registrations(branch('is_exists', _is_method_test('is_exists')))
    alias_nodes = [n for n in region if n.kind == 'stmt' and any(
        isinstance(x, ast.Subscript) and is_name(x.value, 'to_real') for x in ast.walk(n.ast))]
    alias_nodes += [n for n in region if n.kind == 'stmt' and isinstance(n.ast, ast.Return) and any(
        isinstance(x, ast.Subscript) and is_name(x.value, 'to_real') for x in ast.walk(n.ast))]

    def free_only(e, pol):
        cp = compare_parts(e)
        return bool(cp) and cp[0] is ast.NotIn and pol and isinstance(cp[2], ast.Name) and cp[2].id in both and \
            (path_of(cp[1]) or '').endswith('.name')
    edges = cfg.establishing_edges(free_only)
    ok = bool(alias_nodes) and bool(edges) and all(cfg.path_avoiding(n, skip_edges=edges, start=start) is None for n in alias_nodes)
    res.add('%s :: convert.rec :: of_nat :: alias-only-for-free-variables' % Z3, ok,
            'the real constant standing for of_nat v is used only when v is not bound by a quantifier' if ok else
            'of_nat of a quantifier-bound variable is replaced by one global real constant: the premise '
            '!n::nat. (n = 0 --> of_nat n = 0) & (n = 1 --> of_nat n = 1) becomes inconsistent and proves false', '%s:%d' % (Z3, t.lineno))
    return res


def rule_z2_z3(repo):
    z2 = RuleResult('C06.Z2', 'recorded side constraints are asserted to the solver on every path that returns it', floor=1)
    z3r = RuleResult('C06.Z3', 'the conclusion reaches the solver only negated', floor=1)
    from ..normalize import split_table_loops, as_func
    f = repo.func(Z3, 'solve_core')
    f = as_func(f, split_table_loops(f.node))       # assumptions and conclusion handled by one loop over a table of cases
    cfg = cfg_of(f.node)
    flow = flow_of(f.node)
    s = f.params()[0]
    # loop `for nm, A in assms.items(): s.add(A)` dominates every return
    loops = [n for n in cfg.nodes_of_kind('iter') if (path_of(n.ast.iter.func.value) if isinstance(n.ast.iter, ast.Call) and
             isinstance(n.ast.iter.func, ast.Attribute) else None) == 'assms' and call_attr(n.ast.iter) in ('items', 'values')]
    ok = False
    for it in loops:
        tn = [x.id for x in ast.walk(it.ast.target) if isinstance(x, ast.Name)]
        adds = [c for st in it.ast.body for c in ast.walk(st) if isinstance(c, ast.Call) and call_attr(c) == 'add' and
                is_name(c.func.value, s) and c.args and isinstance(c.args[0], ast.Name) and c.args[0].id in tn]
        plain = not any(isinstance(x, (ast.If, ast.Break, ast.Continue, ast.Try)) for st in it.ast.body for x in ast.walk(st))
        # every return that can be reached after something was recorded (a call that is handed `assms`, a store into it) lies behind the
        # loop; a return in front of every recording - giving up before anything is translated - has nothing to assert
        writers = [n for n in cfg.nodes if n.ast is not None and n.kind in ('stmt', 'test') and any(
            (isinstance(c, ast.Call) and any(is_name(a, 'assms') for a in c.args)) or
            (isinstance(c, ast.Subscript) and is_name(c.value, 'assms') and isinstance(c.ctx, ast.Store))
            for h in cfg.headers(n) for c in ast.walk(h))]
        behind = all(r.id not in cfg.reach_from([b for w in writers for b, _l in w.succ], skip_nodes=[it]) for r in cfg.return_nodes())
        if adds and plain and writers and behind:
            ok = True
    z2.add('%s :: solve_core :: assms-asserted' % Z3, ok,
           'for _, A in assms.items(): s.add(A) dominates the return' if ok else
           'side constraints (x >= 0 for nat variables) are recorded but not given to the solver', f.loc)
    # every s.add of a value derived from the conclusion is s.add(z3.Not(...))
    concl_names = set()
    for n in ast.walk(f.node):
        if isinstance(n, ast.Assign) and isinstance(n.value, ast.Call) and call_name(n.value) == 'logic.strip_all_implies':
            tgt = n.targets[0]
            if isinstance(tgt, ast.Tuple) and len(tgt.elts) == 3 and isinstance(tgt.elts[2], ast.Name):
                concl_names.add(tgt.elts[2].id)
    need(concl_names, 'solve_core: conclusion variable (third component of logic.strip_all_implies) not found')
    n_adds = 0
    for c in ast.walk(f.node):
        if isinstance(c, ast.Call) and call_attr(c) == 'add' and is_name(c.func.value, s) and c.args:
            # which HOL term was translated into the asserted value: first argument of convert(...)
            subjects = set()
            todo = [c.args[0]]
            seen_names = set()
            while todo:
                e = todo.pop()
                for x in ast.walk(e):
                    if isinstance(x, ast.Call) and call_name(x) == 'convert' and x.args:
                        subjects |= {y.id for y in ast.walk(x.args[0]) if isinstance(y, ast.Name)}
                    elif isinstance(x, ast.Name) and x.id not in seen_names and flow.is_local(x.id) and x.id != s:
                        seen_names.add(x.id)
                        todo.extend(r for k, r in flow.defs[x.id] if k == 'value')
            if subjects & concl_names:
                n_adds += 1
                a = c.args[0]
                ok = isinstance(a, ast.Call) and call_name(a) == 'z3.Not'
                z3r.add('%s :: solve_core :: add(%s)' % (Z3, src(a, 40)), ok,
                        'conclusion asserted negated' if ok else
                        'the conclusion is asserted positively: unsat then proves nothing about the goal', '%s:%d' % (Z3, c.lineno))
    if n_adds == 0:
        z3r.add('%s :: solve_core :: conclusion-added' % Z3, False, 'the negated conclusion is never given to the solver', f.loc)
    return [z2, z3r]


def rule_z4(repo):
    res = RuleResult('C06.Z4', 'a Z3 step is accepted only after the solver answered unsat; check_z3 is a constant', floor=4)
    m = repo.module(Z3)
    # solve returns the comparison with 'unsat'
    f = repo.func(Z3, 'solve')
    ok = False
    rets = returns_of(f.node)
    if len(rets) == 1:
        cp = compare_parts(rets[0].value)
        if cp and cp[0] is ast.Eq and any(isinstance(x, ast.Constant) and x.value == 'unsat' for x in (cp[1], cp[2])) and \
                any(isinstance(c, ast.Call) and call_attr(c) == 'check' for c in ast.walk(rets[0].value)):
            ok = True
    res.add('%s :: solve :: verdict' % Z3, ok, "returns str(s.check()) == 'unsat'" if ok else
            'solve no longer returns the comparison of the solver verdict with unsat', f.loc)
    from ..inline import inlined

    def asks_solver(h):
        return any((isinstance(n, ast.Call) and call_name(n) == 'solve') or is_name(n, 'check_z3') for n in ast.walk(h.node)) and h.name != 'solve'
    for qual, accept in (('Z3Macro.eval', 'return'), ('Z3Method.apply', 'set_line')):
        f = inlined(repo.func(Z3, qual), asks_solver)[0]       # the question to the solver may sit in a helper of the module
        cfg = cfg_of(f.node)
        if accept == 'return':
            targets = [r for r in cfg.return_nodes() if r.ast.value is not None and
                       any(isinstance(c, ast.Call) and call_name(c) == 'Thm' for c in ast.walk(r.ast.value))]
        else:
            targets = [n for n in cfg.nodes if n.kind == 'stmt' and any(
                isinstance(c, ast.Call) and call_attr(c) == 'set_line' for c in ast.walk(n.ast))]
        need(targets, '%s: acceptance point not found' % qual)

        def solved(e, pol):
            return pol and isinstance(e, ast.Call) and call_name(e) == 'solve'

        def off(e, pol):
            # configuration switches: solver absent or checking disabled
            return (is_name(e, 'check_z3') or is_name(e, 'z3_loaded')) and not pol
        edges = cfg.establishing_edges(solved) | cfg.establishing_edges(off)
        bad = [t for t in targets if cfg.path_avoiding(t, skip_edges=edges) is not None]
        res.add('%s :: %s :: solver-before-accept' % (Z3, qual), not bad,
                'with z3 loaded and check_z3 set, acceptance is preceded by assert solve(...)' if not bad else
                'acceptance reachable with z3_loaded and check_z3 true without a successful solve()', f.loc)
        # the query is premises --> goal
        for c in ast.walk(f.node):
            if isinstance(c, ast.Call) and call_name(c) == 'solve':
                a = c.args[0] if c.args else None
                ok = isinstance(a, ast.Call) and call_name(a) == 'Implies'
                res.add('%s :: %s :: query-shape' % (Z3, qual), ok,
                        'solve(Implies(*(assms + [goal])))' if ok else 'solver query is not premises --> goal: %s' % src(a), f.loc,
                        nontrivial=False)
    # who may write check_z3
    for mod in repo.source_modules():
        for n in ast.walk(mod.tree):
            targets = []
            if isinstance(n, ast.Assign):
                targets = n.targets
            elif isinstance(n, (ast.AugAssign, ast.AnnAssign)):
                targets = [n.target]
            for t in targets:
                nm = dotted(t) or ''
                if nm.split('.')[-1] != 'check_z3':
                    continue
                in_main = _under_main_guard(mod, n)
                at_top = mod.rel == Z3 and n in mod.tree.body and isinstance(n.value, ast.Constant) and n.value.value is True
                ok = at_top or in_main
                res.add('%s :: write(check_z3)' % mod.rel, ok,
                        'module default True' if at_top else ('script configuration under __main__' if in_main else
                                                              '`%s` disables solver checking from library code' % src(n)),
                        '%s:%d' % (mod.rel, n.lineno), nontrivial=False)
    return res


def _under_main_guard(mod, stmt):
    for n in mod.tree.body:
        if isinstance(n, ast.If):
            cp = compare_parts(n.test)
            if cp and cp[0] is ast.Eq and any(is_name(x, '__name__') for x in (cp[1], cp[2])):
                if any(x is stmt for b in n.body for x in ast.walk(b)):
                    return True
    return False


def rule_s1(repo):
    res = RuleResult('C06.S1', 'SymPy verdicts are not structural comparisons of translated expressions where the meaning is semantic', floor=2)
    for qual in ('solve_goal', 'solve_with_interval'):
        f = repo.func(SYMPY, qual)
        flow = flow_of(f.node)
        bad = []
        for r in returns_of(f.node):
            if r.value is None:
                continue
            for c in ast.walk(r.value):
                cp = compare_parts(c)
                if cp and cp[0] is ast.NotEq:
                    sides = [flow.resolve(cp[1]), flow.resolve(cp[2])]
                    if all(any(p.startswith('convert()') for p in s) for s in sides):
                        bad.append('line %d: `%s`' % (r.lineno, src(c)))
        res.add('%s :: %s :: no-structural-disequality' % (SYMPY, qual), not bad,
                'no verdict of the form convert(a) != convert(b)' if not bad else
                'verdict %s only says the two expressions are written differently, not that their values differ' % '; '.join(bad), f.loc)
    return res


def rule_s2(repo):
    res = RuleResult('C06.S2', 'a goal the translation cannot express makes the step fail, never succeed', floor=5)
    for rel, exc in ((SYMPY, 'SymPyException'), (Z3, 'Z3Exception')):
        m = repo.module(rel)
        for f in m.all_funcs:
            if f.parent is not None:
                continue
            for n in ast.walk(f.node):
                if not isinstance(n, ast.ExceptHandler):
                    continue
                tn = dotted(n.type) if n.type is not None else None
                if tn is None or tn.split('.')[-1] != exc:
                    continue
                accepting = []
                for x in n.body:
                    for y in ast.walk(x):
                        if isinstance(y, ast.Return) and not (y.value is None or (isinstance(y.value, ast.Constant) and y.value.value in (False, None))):
                            accepting.append(src(y))
                res.add('%s :: %s :: except %s@%s' % (rel, f.qualname, exc, _try_subject(f, n)), not accepting,
                        'handler rejects / drops a premise' if not accepting else
                        'handler of an untranslatable term returns %s' % '; '.join(accepting), '%s:%d' % (rel, n.lineno))
    return res


def _try_subject(f, handler):
    for n in ast.walk(f.node):
        if isinstance(n, ast.Try) and handler in n.handlers:
            for c in ast.walk(n):
                if isinstance(c, ast.Call) and call_name(c) == 'convert' and c.args:
                    return src(c.args[0], 30)
    return '?'


def rule_s3(repo):
    res = RuleResult('C06.S3', 'the SymPy translation divides only by non-zero constants (SymPy simplifies x/x to 1; HOL has x/0 = 0)', floor=1)
    f = repo.func(SYMPY, 'convert')
    cfg = cfg_of(f.node)
    tests = [n for n in cfg.test_nodes() if isinstance(n.ast, ast.Call) and call_attr(n.ast) in ('is_divides', 'is_real_inverse')]
    need(tests, 'sympywrapper.convert: division branch not found')
    for t in tests:
        region = _region(cfg, t)
        rets = [n for n in region if n.kind == 'stmt' and isinstance(n.ast, ast.Return) and
                any(isinstance(b, ast.BinOp) and isinstance(b.op, ast.Div) for b in ast.walk(n.ast))]
        # only returns that belong to this branch: reachable before any other branch test is evaluated
        own = cfg.reach_from(_succ(t, 'true'))
        rets = [r for r in rets if r.id in own]
        ok = bool(rets)
        for r in rets:
            div = [b for b in ast.walk(r.ast) if isinstance(b, ast.BinOp) and isinstance(b.op, ast.Div)][0]
            d = div.right
            if not isinstance(d, ast.Name):
                ok = False
                continue

            def nonzero(e, pol, nm=d.id):
                # `denom.is_zero is False` holds, or its negation leads away
                for op, a, b in comparison_holding(e, pol):
                    if op is ast.Is and path_of(a) == nm + '.is_zero' and isinstance(b, ast.Constant) and b.value is False:
                        return True
                    if op is ast.NotEq and is_name(a, nm) and isinstance(b, ast.Constant) and b.value == 0:
                        return True
                return False

            def isnumber(e, pol, nm=d.id):
                return pol and path_of(e) == nm + '.is_number'
            e1 = cfg.establishing_edges(nonzero)
            e2 = cfg.establishing_edges(isnumber)
            start = _succ(t, 'true')[0]
            if not (e1 and e2 and cfg.path_avoiding(r, skip_edges=e1, start=start) is None and
                    cfg.path_avoiding(r, skip_edges=e2, start=start) is None):
                ok = False
        res.add('%s :: convert :: %s :: nonzero-constant-divisor' % (SYMPY, call_attr(t.ast)), ok,
                'division only when the divisor is a constant known to be non-zero' if ok else
                'a quotient is handed to SymPy without knowing the divisor is a non-zero constant: |- x / x = 1 is accepted', '%s:%d' % (SYMPY, t.lineno))
    return res


def rule_z5(repo):
    """Before translation z3wrapper.norm_term simplifies the goal with prover.fologic: a quantifier whose
    variable does not occur in its body (has_bound0) is dropped.  If the occurrence test skips a position
    (the head of an application), a quantifier over a function or predicate variable is treated as vacuous
    and the variable becomes a free symbol: `?n. !s. s 0 <= n` turns into `?n. _u 0 <= n`, which Z3 proves."""
    from ..traverse import traversal_rule
    return traversal_rule(repo, 'C06.Z5', 'the bound-variable occurrence test used to drop vacuous quantifiers looks at every sub-term',
                          [('prover/fologic.py', 'has_bound0.<locals>.rec')],
                          'a quantifier whose variable occurs only in the skipped position is removed as vacuous before the goal reaches Z3')


def rule_z6(repo):
    """The simplifier that prepares a goal for Z3 (prover/fologic.py) and the translation itself normalise
    operands by swapping two names.  After the swap, the expression a name was first bound to denotes the
    *other* operand: using it again is the wrong one of two similar things (`lhs, rhs = fm.arg1, fm.arg`;
    swap; `Not(fm.arg1)` turns false <--> p into ~false)."""
    from .. import persist
    res = RuleResult('C06.Z6', 'after two operands were swapped, the expressions they were first bound to are not used again', floor=20)
    for rel in ('prover/fologic.py', Z3, SYMPY):
        m = repo.module(rel)
        for f in m.all_funcs:
            cfg = cfg_of(f.node)
            bad = persist.stale_after_swap(f.node, cfg)
            res.add('%s :: %s :: no-stale-operand' % (rel, f.qualname), not bad,
                    'no use of a swapped operand through its old expression' if not bad else
                    '`%s` (line %d) is used after `%s` (line %d), where it no longer is what `%s` stands for' % (
                        bad[0][2], bad[0][1].lineno, src(bad[0][0].ast, 40), bad[0][0].lineno, bad[0][3]), f.loc, nontrivial=bool(bad))
    return res


def rule_z7(repo):
    """The goal sent to Z3 went through fologic.simplify / nnf: each of their cases must keep the truth table."""
    from .c18 import converter_rule
    return converter_rule(repo, 'C06.Z7', [('prover/fologic.py', 'simplify1'), ('prover/fologic.py', 'simplify'), ('prover/fologic.py', 'nnf')],
                          {'simplify1', 'simplify', 'nnf'}, floor=30)


def rule_z8(repo):
    """The translation to Z3 names quantified variables apart from the free ones: nat and int share Z3's
    integer sort and `x >= 0` is asserted per *name*.  (a) every fresh-name site of the translation follows the
    discipline of sa/fresh.py; (b) the list of names to avoid that solve_core hands to the translation is computed
    from the formulas that are translated (the assumptions and conclusion after the outer quantifiers were
    stripped), not from an earlier form of the goal - the variables introduced for the stripped binders are free in
    what is translated."""
    from ..fresh import fresh_sites
    from ..flow import flow_of
    res = RuleResult('C06.Z8', 'quantified variables of the translation are named apart from every free variable of the translated formulas', floor=4)
    for rel in ('prover/z3wrapper.py', 'prover/fologic.py'):
        for f in repo.module(rel).all_funcs:
            for c, avoid, how, ok, detail in fresh_sites(f):
                res.add('%s :: %s :: fresh(%s)@%d' % (rel, f.qualname, src(c.args[0], 25), [x.lineno for x in ast.walk(f.node) if x is c][0] - f.node.lineno),
                        ok, detail, '%s:%d' % (rel, c.lineno))
    f = repo.func('prover/z3wrapper.py', 'solve_core')
    flow = flow_of(f.node)
    strip = [n for n in ast.walk(f.node) if isinstance(n, ast.Assign) and isinstance(n.value, ast.Call) and (call_name(n.value) or '').endswith('strip_all_implies')]
    need(strip, 'solve_core: stripping of the outer quantifiers not found')
    stripped = {x.id for x in ast.walk(strip[0].targets[0]) if isinstance(x, ast.Name) and x.id != '_'}
    defs = [n for n in ast.walk(f.node) if isinstance(n, ast.Assign) and any(is_name(t, 'var_names') for t in n.targets)]
    need(defs, 'solve_core: the list of names to avoid (var_names) not found')
    # everything that flows into the list: assigned values, appended / extended values and the sequences such additions loop over
    contrib = [d.value for d in defs]
    for n in ast.walk(f.node):
        if isinstance(n, ast.Call) and call_attr(n) in ('append', 'extend') and is_name(n.func.value, 'var_names') and n.args:
            contrib.append(n.args[0])
        if isinstance(n, ast.For) and any(isinstance(c, ast.Call) and call_attr(c) in ('append', 'extend') and is_name(c.func.value, 'var_names') for c in ast.walk(n)):
            contrib.append(n.iter)
    def free_names(e):
        # names read by e, without the variables its own comprehensions bind (they are scoped to the comprehension: another loop of the
        # function that happens to use the same letter says nothing about them)
        bound = {x.id for c in ast.walk(e) if isinstance(c, ast.comprehension) for x in ast.walk(c.target) if isinstance(x, ast.Name)}
        return {x.id for x in ast.walk(e) if isinstance(x, ast.Name)} - bound

    def closure(e):
        seen, todo = set(), list(free_names(e))
        while todo:
            nm = todo.pop()
            if nm in seen:
                continue
            seen.add(nm)
            if nm in flow.params:
                continue
            for _k, rhs in flow.defs.get(nm, []):
                todo.extend(free_names(rhs))
        return seen
    from_stripped = any(closure(v) & stripped for v in contrib)
    bad = [] if from_stripped else defs
    res.add('prover/z3wrapper.py :: solve_core :: avoid-list-from-translated-formulas', not bad,
            'var_names is computed from %s' % ', '.join(sorted(stripped)) if not bad else
            'line %d `%s` is computed before the outer quantifiers are stripped: the variables introduced for them are missing, an inner '
            'quantifier keeps the same name, and an outer int variable inherits `x >= 0` from an inner nat binder '
            '(!x::int. (?x::nat. x > 0) --> x >= 0 was proved)' % (bad[0].lineno, src(bad[0], 60)), 'prover/z3wrapper.py:%d' % (bad[0] if bad else defs[0]).lineno)
    return res

def rule_z9(repo):
    """A leaf of the goal becomes the Z3 constant *named like it* (`convert_const(t.name, ..)`): Z3 knows a constant by name
    and sort.  Two things elsewhere rely on what kinds of leaf get that treatment.  (a) The names chosen for binders avoid
    the list `var_names`, which solve_core collects with one of the term collectors (get_vars: ordinary variables;
    get_svars: schematic ones): a kind that is translated but not collected can be captured by a binder of the same name
    (!k. k = ?k).  (b) One name stands for one HOL object only if a single kind of leaf is translated that way: ?n and n
    are different variables and would share one constant (n = 0 --> ?n = 0).  Contradiction rule between the two sites:
    kinds translated by name, within the kinds collected, and not more than one."""
    from ..kinds import infeasible_edges
    res = RuleResult('C06.Z9', 'the kinds of leaf translated to a Z3 constant of the same name are the kinds whose names binders avoid, one kind per name', floor=1)
    Z3W = 'prover/z3wrapper.py'
    f = repo.func(Z3W, 'convert.<locals>.rec')
    cfg = cfg_of(f.node)
    p = f.params()[0]
    sites = [n for n in cfg.nodes if n.ast is not None and n.kind in ('stmt', 'test', 'return') and any(
        isinstance(c, ast.Call) and (call_name(c) or '').split('.')[-1] == 'convert_const' and c.args and
        isinstance(c.args[0], ast.Attribute) and c.args[0].attr == 'name' and is_name(c.args[0].value, p)
        for h in cfg.headers(n) for c in ast.walk(h))]
    need(sites, 'convert.rec: no leaf translated to a constant of its own name (convert_const(%s.name, ..))' % p)
    translated = set()
    for k in ('var', 'svar'):
        skip = infeasible_edges(cfg, lambda e: is_name(e, p), k)
        if any(cfg.path_avoiding(s_, skip_edges=skip) is not None for s_ in sites):
            translated.add(k)
    g = repo.func(Z3W, 'solve_core')
    contrib = [n.value for n in ast.walk(g.node) if isinstance(n, ast.Assign) and any(is_name(t, 'var_names') for t in n.targets)]
    need(contrib, 'solve_core: the list of names to avoid (var_names) not found')
    # everything that flows into the list: appended / extended values and the sequences such additions loop over (as in Z8)
    for n in ast.walk(g.node):
        if isinstance(n, ast.Call) and call_attr(n) in ('append', 'extend') and is_name(n.func.value, 'var_names') and n.args:
            contrib.append(n.args[0])
        if isinstance(n, ast.For) and any(isinstance(c, ast.Call) and call_attr(c) in ('append', 'extend') and is_name(c.func.value, 'var_names') for c in ast.walk(n)):
            contrib.append(n.iter)
    flow = flow_of(g.node)
    collected = set()
    for v in contrib:
        for c in ast.walk(flow.inline(v)):
            if isinstance(c, ast.Call):
                nm = (call_name(c) or call_attr(c) or '').split('.')[-1]
                if nm == 'get_vars':
                    collected.add('var')
                if nm == 'get_svars':
                    collected.add('svar')
    need(collected, 'solve_core: var_names is not built with get_vars / get_svars')
    missing = sorted(translated - collected)
    ok = not missing and len(translated) <= 1
    res.add('%s :: convert.rec vs solve_core :: kinds-translated-by-name' % Z3W, ok,
            'translated by name: %s; names collected for binders to avoid: %s' % (sorted(translated), sorted(collected)) if ok else
            'leaves of kind %s become the Z3 constant of the same name%s%s' % (
                ' and '.join(sorted(translated)),
                ('; binder names only avoid the %s names (solve_core), so a binder can take the name of a %s: !k. k = ?k is "proved"' % (
                    '/'.join(sorted(collected)), missing[0])) if missing else '',
                '; a schematic and an ordinary variable of one name share one constant: n = 0 --> ?n = 0 is "proved"' if len(translated) > 1 else ''),
            '%s:%d' % (Z3W, sites[0].lineno))
    return res

def rule_z12(repo):
    """A bound variable of type nat is translated to a Z3 integer; what makes it a natural number is the guard `v >= 0` that the branch puts
    into the body (Z1).  A branch that opens a binder with *several* Z3 variables (unique existence: a witness and a second variable for
    the uniqueness part) owes the guard to each of them.  For every Z3 constant that a branch of `convert.rec` makes at the type of a
    binder (`convert_const(.., <..>.var_T, ..)`), the branch contains `<that constant> >= 0` under the test that the type is nat.  Without
    it the second variable ranges over the negative integers too: in a premise the formula is too strong, and
    (?!n::nat. n <= 0) --> false is "proved"."""
    res = RuleResult('C06.Z12', 'every Z3 variable made for a binder of type nat gets the guard v >= 0', floor=2)
    Z3W = 'prover/z3wrapper.py'
    from ..inline import inlined
    f = repo.func(Z3W, 'convert.<locals>.rec')
    # the opening of a binder may have been moved into a helper beside rec (open_quant(t, z3.ForAll, z3.Implies)): read it in place
    f = inlined(f, lambda h: h.parent is not None and h.name != f.name and any(
        isinstance(c, ast.Call) and (call_name(c) or '').endswith('convert_const') for c in ast.walk(h.node)))[0]
    flow = flow_of(f.node)

    def binder_type0(e):
        p_ = path_of(flow.inline(e)) or ''
        return p_.endswith('.var_T')
    # the branches of the dispatch: bodies of the top-level if / elif chain
    branches = []
    for st in f.node.body:
        cur = st
        while isinstance(cur, ast.If):
            branches.append((cur.test, cur.body))
            cur = cur.orelse[0] if len(cur.orelse) == 1 and isinstance(cur.orelse[0], ast.If) else None
    n_vars = 0
    for test, body in branches:
        made = []
        # a local of the branch that names the binder's type (T = t.arg.var_T)
        local_types = {a.targets[0].id for a in [x for st in body for x in ast.walk(st)] if isinstance(a, ast.Assign) and len(a.targets) == 1 and
                       isinstance(a.targets[0], ast.Name) and (path_of(a.value) or '').endswith('.var_T')}
        _bt = binder_type0

        def binder_type(e, local_types=local_types):
            return _bt(e) or (isinstance(e, ast.Name) and e.id in local_types)
        for a in [x for st in body for x in ast.walk(st)]:
            if not isinstance(a, ast.Assign):
                continue
            v = a.value
            if isinstance(v, ast.Call) and (call_name(v) or '').endswith('convert_const') and len(v.args) >= 2 and binder_type(v.args[1]) and isinstance(a.targets[0], ast.Name):
                made.append(a.targets[0].id)
            if isinstance(v, (ast.ListComp, ast.GeneratorExp)) and isinstance(v.elt, ast.Call) and (call_name(v.elt) or '').endswith('convert_const') and \
                    len(v.elt.args) >= 2 and binder_type(v.elt.args[1]) and isinstance(a.targets[0], (ast.Tuple, ast.List)):
                made += [e.id for e in a.targets[0].elts if isinstance(e, ast.Name)]
        for var in made:
            n_vars += 1
            guarded = False
            for i_ in [x for st in body for x in ast.walk(st) if isinstance(x, ast.If)]:
                if 'NatType' not in src(i_.test, 120):
                    continue
                for c in [y for st in i_.body for y in ast.walk(st)]:
                    cp = compare_parts(c) if isinstance(c, ast.Compare) else None
                    if cp and cp[0] is ast.GtE and is_name(cp[1], var) and isinstance(cp[2], ast.Constant) and cp[2].value == 0:
                        guarded = True
            res.add('%s :: convert.rec :: binder-variable(%s)@%s' % (Z3W, var, src(test, 30)), guarded,
                    '`%s >= 0` is added when the binder ranges over nat' % var if guarded else
                    'the branch `%s` makes the Z3 variable `%s` at the type of the binder and never adds `%s >= 0` for nat: the variable ranges over the negative '
                    'integers as well, and in a premise the translated formula says more than the HOL one ((?!n::nat. n <= 0) --> false is solved)' % (
                        src(test, 40), var, var), '%s:%d' % (Z3W, test.lineno))
    need(n_vars, 'convert.rec: no Z3 variable made at the type of a binder found')
    return res


def rule_s4(repo):
    """solve_with_interval accepts a goal when the set of solutions within the premise's interval is that interval (or, for
    a disequation, when it is empty).  A set is compared as a whole: two intervals with the same end points differ in whether
    the end points belong to them, and 1 - x*x > 0 holds on [0, 1) but not on [0, 1].  Every answer that can be True is the
    comparison `result == interval` / `result == EmptySet` of whole sets (or a subset test of the interval in the result)."""
    res = RuleResult('C06.S4', 'the SymPy bridge compares the solution set with the premise interval as whole sets, never by parts', floor=2)
    f = repo.func(SYMPY, 'solve_with_interval')
    cfg = cfg_of(f.node)
    solved = {t.id for n in ast.walk(f.node) if isinstance(n, ast.Assign) and isinstance(n.value, ast.Call) and 'solveset' in (call_name(n.value) or '')
              for t in n.targets if isinstance(t, ast.Name)}
    need(solved, 'solve_with_interval: result of solveset not bound to a name')
    n_true = 0
    for r in cfg.return_nodes():
        v = r.ast.value
        if v is None or (isinstance(v, ast.Constant) and v.value in (False, None)):
            continue
        if isinstance(v, ast.Name) and v.id not in solved:
            v = cfg.value_at(r, v, depth=1)       # `same = res == interval; return same`
        n_true += 1
        cp = compare_parts(v)
        whole = False
        if cp and cp[0] is ast.Eq:
            sides = [cp[1], cp[2]]
            whole = any(isinstance(x, ast.Name) and x.id in solved for x in sides) and all(
                isinstance(x, ast.Name) or (dotted(x) or '').endswith('EmptySet') or (isinstance(x, ast.Call) and 'solveset' in (call_name(x) or '')) for x in sides)
        if isinstance(v, ast.Call) and call_attr(v) in ('is_subset', 'issubset') and v.args and isinstance(v.args[0], ast.Name) and v.args[0].id in solved:
            whole = True
        parts = sorted({a.attr for a in ast.walk(v) if isinstance(a, ast.Attribute) and isinstance(a.value, ast.Name) and
                        (a.value.id in solved or a.value.id == 'interval') and a.attr not in ('is_subset', 'issubset')})
        res.add('%s :: solve_with_interval :: answer(%s)' % (SYMPY, src(r.ast.value, 40)), whole and not parts,
                'whole sets are compared' if whole and not parts else
                'line %d answers by `%s`%s: sets with equal end points need not be equal (open or closed ends) - from x in [0, 1] the goal 1 - x*x > 0 '
                'was accepted, which fails at x = 1' % (r.lineno, src(v, 80), (', which looks at the parts %s only' % parts) if parts else ''),
                '%s:%d' % (SYMPY, r.lineno))
    need(n_true >= 2, 'solve_with_interval: fewer than two accepting answers found')
    return res

def rule_z10(repo):
    """What the translation hands to Z3 has to be a Z3 term at every node.  A Python number among the operands lets
    Python carry out the operation before the solver sees it: int / int is a float (2 / 6 is not the exact 1 / 3), and
    number == number is a Python truth value.  Likewise a function variable becomes a Z3 *declaration*, and == between two
    declarations is Python's comparison of the declarations, not an equation.  (a) no branch of `convert.rec` returns the
    Python value of a numeral (`dest_number()` outside a `z3.*Val(..)`), (b) the equation branch is reached only after a
    test that the sides are not functions, with an exception otherwise."""
    res = RuleResult('C06.Z10', 'every operand of the Z3 translation is a Z3 term: numerals become Z3 values, equations are not formed between function declarations', floor=2)
    Z3W = 'prover/z3wrapper.py'
    f = repo.func(Z3W, 'convert.<locals>.rec')
    cfg = cfg_of(f.node)
    p_ = f.params()[0]
    bad = []
    n_num = 0
    for r in cfg.return_nodes():
        v = r.ast.value
        if v is None:
            continue
        for c in ast.walk(v):
            if isinstance(c, ast.Call) and call_attr(c) == 'dest_number':
                n_num += 1
                wrapped = any(isinstance(w, ast.Call) and (call_name(w) or '').split('.')[-1] in ('IntVal', 'RealVal', 'Q', 'RatVal') and any(x is c for x in ast.walk(w))
                              for w in ast.walk(v))
                if not wrapped:
                    bad.append(r)
    # `n = t.dest_number(); return n`
    flow = flow_of(f.node)
    for r in cfg.return_nodes():
        if isinstance(r.ast.value, ast.Name):
            inl = flow.inline(r.ast.value)
            if isinstance(inl, ast.Call) and call_attr(inl) == 'dest_number':
                n_num += 1
                bad.append(r)
    need(n_num, 'convert.rec: the branch for numerals (dest_number) not found')
    res.add('%s :: convert.rec :: numeral-is-a-Z3-value' % Z3W, not bad,
            'numerals are returned as z3.IntVal / z3.RealVal' if not bad else
            'line %d returns the Python value of a numeral: operations between two numerals are then carried out by Python - (2::real) / 6 becomes the '
            'float 0.333.., which differs from the exact 1 / 3, and ~((2::real) / 6 = 1 / 3) is accepted' % bad[0].lineno, '%s:%d' % (Z3W, (bad[0] if bad else f.node).lineno))
    eqs = [r for r in cfg.return_nodes() if (lambda cp: cp and cp[0] is ast.Eq and all(isinstance(x, ast.Call) and is_name(x.func, f.name) for x in cp[1:]))(
        compare_parts(r.ast.value) if r.ast.value is not None else None)]
    need(eqs, 'convert.rec: the equation branch (rec(..) == rec(..)) not found')

    def not_fun(e, pol):
        return not pol and isinstance(e, ast.Call) and call_attr(e) in ('is_fun',) and p_ in src(e.func.value, 60)
    edges = cfg.establishing_edges(not_fun)
    ok = bool(edges) and all(cfg.path_avoiding(r, skip_edges=edges) is None for r in eqs)
    res.add('%s :: convert.rec :: no-equation-between-declarations' % Z3W, ok,
            'the equation is formed only where the sides are not functions' if ok else
            'line %d forms `%s` for sides of any type: for two function variables these are Z3 declarations, == is False in Python, and ~(f = g) is accepted' % (
                eqs[0].lineno, src(eqs[0].ast.value, 40)), '%s:%d' % (Z3W, eqs[0].lineno))
    return res


def rule_z11(repo):
    """Z3 knows a constant by its name and its sort.  `convert_type` sends two HOL types to one sort (nat and int to the
    integers - read from the function), so a name that the goal uses at both types would become one constant, and the
    side condition x >= 0 recorded for the natural number would bind the integer.  Before anything is translated,
    solve_core therefore compares the types of the variables of one name and gives up when they differ."""
    res = RuleResult('C06.Z11', 'a variable name used at two types is not translated to one Z3 constant', floor=1)
    Z3W = 'prover/z3wrapper.py'
    ct = repo.func(Z3W, 'convert_type')
    # which HOL types share a sort
    shared = []
    for n in ast.walk(ct.node):
        if isinstance(n, ast.If):
            names = sorted({x.id for x in ast.walk(n.test) if isinstance(x, ast.Name) and x.id.endswith('Type')})
            if len(names) >= 2:
                shared.append(names)
    if not shared:
        res.add('%s :: convert_type :: sorts' % Z3W, True, 'no two HOL types share a Z3 sort', ct.loc, nontrivial=False)
        return res
    g = repo.func(Z3W, 'solve_core')
    cfg = cfg_of(g.node)
    tests = []
    for t in cfg.test_nodes():
        cp = compare_parts(t.ast)
        if not cp or cp[0] not in (ast.NotEq, ast.Eq):
            continue
        txt = [src(cp[1], 120), src(cp[2], 120)]
        if any(x.endswith('.T') or '.T)' in x or '.T,' in x for x in txt) and any('.name' in x for x in txt):
            tests.append((t, cp[0]))
    convs = [n for n in cfg.nodes if n.ast is not None and n.kind in ('stmt', 'test') and any(
        isinstance(c, ast.Call) and is_name(c.func, 'convert') for h in cfg.headers(n) for c in ast.walk(h))]
    need(convs, 'solve_core: calls of convert not found')
    ok = False
    for t, op in tests:
        lab = 'true' if op is ast.NotEq else 'false'
        away = [b for b, l in t.succ if l == lab]
        # the differing side leaves without translating anything; the loop that makes the test stands in front of every translation
        leaves = not any(c.id in cfg.reach_from(away) for c in convs)
        before = all(cfg.path_avoiding(c, skip_nodes=[t]) is None or any(
            h.kind == 'iter' and t.id in cfg.reach_from([b for b, l in h.succ if l == 'loop']) and cfg.path_avoiding(c, skip_nodes=[h]) is None for h in cfg.nodes)
            for c in convs)
        if leaves and before:
            ok = True
    res.add('%s :: solve_core :: one-type-per-name (%s share a sort)' % (Z3W, ' / '.join('+'.join(x) for x in shared)), ok,
            'the types of the variables of one name are compared before the translation' if ok else
            'nothing compares the types of two variables of one name: x::int and x::nat become one integer constant, the assumption x >= 0 of the natural '
            'number holds for the integer too, and (x::int) >= 0 | (x::nat) > 5 is accepted', g.loc)
    return res


def rule_s5(repo):
    """The SymPy translation reads - as the subtraction of real numbers.  On natural numbers m - n is cut off at zero (the
    library's definition): the branch for subtraction is reached only after a test of the type, with an exception for nat."""
    res = RuleResult('C06.S5', 'the SymPy translation does not read the subtraction of natural numbers as ordinary subtraction', floor=1)
    f = repo.func(SYMPY, 'convert')
    cfg = cfg_of(f.node)
    p_ = f.params()[0]
    subs = [r for r in cfg.return_nodes() if isinstance(r.ast.value, ast.BinOp) and isinstance(r.ast.value.op, ast.Sub) and
            all(isinstance(x, ast.Call) and is_name(x.func, 'convert') for x in (r.ast.value.left, r.ast.value.right))]
    need(subs, 'sympywrapper.convert: the branch for subtraction not found')

    def typed(e, pol):
        cp = compare_parts(e)
        if not cp:
            return False
        txt = (src(cp[1], 60), src(cp[2], 60))
        about = any(x.startswith(p_ + '.get_type()') or x.startswith(p_ + '.arg1.get_type()') or x.startswith(p_ + '.arg.get_type()') for x in txt)
        if about and 'NatType' in txt:
            return (cp[0] is ast.Eq and not pol) or (cp[0] is ast.NotEq and pol)
        if about and 'RealType' in txt:
            return (cp[0] is ast.Eq and pol) or (cp[0] is ast.NotEq and not pol)
        return False
    edges = cfg.establishing_edges(typed)
    ok = bool(edges) and all(cfg.path_avoiding(r, skip_edges=edges) is None for r in subs)
    res.add('%s :: convert :: subtraction-not-at-nat' % SYMPY, ok,
            'subtraction is translated only where the type is not nat' if ok else
            'line %d translates m - n whatever its type: (2::nat) - 3 is 0 in the library and -1 for SymPy, and the trusted step accepts ~((2::nat) - 3 = 0)' % subs[0].lineno,
            '%s:%d' % (SYMPY, subs[0].lineno))
    return res


def rules(repo):
    return [rule_z1(repo)] + rule_z2_z3(repo) + [rule_z4(repo), rule_s1(repo), rule_s2(repo), rule_s3(repo), rule_s4(repo), rule_z5(repo), rule_z6(repo), rule_z7(repo), rule_z8(repo), rule_z9(repo), rule_z10(repo), rule_z11(repo), rule_s5(repo), rule_z12(repo)]
