"""C10 - conversions: the left-hand side of fast paths, of rewr_conv and of oracle steps is the given term."""
import ast

from ..core import RuleResult, need
from ..cfg import cfg_of
from ..astutil import src, call_name, call_attr, compare_parts, is_name, path_of, returns_of
from ..macros import macro_index

CONV = 'logic/conv.py'

NOT_DECIDED = ('canonicity and idempotence of the arithmetic / propositional normal forms, checker-acceptance of the '
               'produced equations (properties of pairs of runtime values)')
ASSUMPTIONS = ['Thm(Eq(t, x)) is the sequent |- t = x']


def rule_v1(repo):
    res = RuleResult('C10.V1', 'a conversion\'s fast evaluation returns an equation whose left side is exactly the given term, without hypotheses', floor=5)
    base = repo.cls(CONV, 'Conv')
    # the inherited evaluation is the sequent of the proof term
    ev = need(base.methods.get('eval'), 'Conv.eval not found')
    rets = returns_of(ev.node)
    t = ev.params()[1]
    ok = len(rets) == 1 and isinstance(rets[0].value, ast.Attribute) and rets[0].value.attr == 'th' and \
        isinstance(rets[0].value.value, ast.Call) and call_name(rets[0].value.value) == 'self.get_proof_term' and \
        [path_of(a) for a in rets[0].value.value.args] == [t]
    res.add('%s :: Conv.eval :: is-sequent-of-proof-term' % CONV, ok,
            'return self.get_proof_term(t).th' if ok else 'the inherited evaluation no longer reports the proved equation', ev.loc)
    for c in repo.subclasses_of(base):
        f = c.methods.get('eval')
        if f is None:
            continue
        params = f.params()
        need(len(params) >= 2, '%s.eval has no term parameter' % c.key)
        t = params[1]
        bad = []
        rets = returns_of(f.node)
        for r in rets:
            v = r.value
            good = isinstance(v, ast.Call) and call_name(v) == 'Thm' and len(v.args) == 1 and not v.keywords and \
                isinstance(v.args[0], ast.Call) and call_name(v.args[0]) in ('Eq', 'term.Eq', 'hol_term.Eq') and \
                v.args[0].args and is_name(v.args[0].args[0], t)
            if not good:
                bad.append('line %d: %s' % (r.lineno, src(v) if v is not None else 'None'))
        # the parameter must not be rebound before the return
        rebinding = [n for n in ast.walk(f.node) if isinstance(n, (ast.Assign, ast.AugAssign)) and
                     any(is_name(x, t) for tt in (n.targets if isinstance(n, ast.Assign) else [n.target]) for x in ast.walk(tt))]
        if rebinding:
            bad.append('parameter %s is reassigned at line %d' % (t, rebinding[0].lineno))
        res.add('%s :: eval :: lhs-is-input' % c.key, bool(rets) and not bad,
                'Thm(Eq(%s, ...)) on every return' % t if rets and not bad else
                'fast evaluation may report an equation about another term or with hypotheses: ' + '; '.join(bad), f.loc)
    return res


def rule_v2(repo):
    res = RuleResult('C10.V2', 'rewr_conv returns only after testing that the left side of the produced equation is the input term', floor=1)
    f = repo.func(CONV, 'rewr_conv.get_proof_term')
    cfg = cfg_of(f.node)
    t = f.params()[1]

    def lhs_is_t(e, pol):
        cp = compare_parts(e)
        if not cp or cp[0] is not ast.Eq or not pol:
            return False
        for a, b in ((cp[1], cp[2]), (cp[2], cp[1])):
            if is_name(b, t) and (path_of(a) or '').endswith('.lhs'):
                return True
        return False
    edges = cfg.establishing_edges(lhs_is_t)
    rets = cfg.return_nodes()
    need(rets, 'rewr_conv.get_proof_term has no return')
    bad = [r.lineno for r in rets if cfg.path_avoiding(r, skip_edges=edges) is not None]
    res.add('%s :: rewr_conv.get_proof_term :: lhs-tested' % CONV, bool(edges) and not bad,
            'every return is behind `<result>.lhs == %s`' % t if edges and not bad else
            'rewr_conv can return an equation whose left side was never compared with the input (line %s)' % bad, f.loc)
    # the parameter is not rebound
    reb = [n for n in ast.walk(f.node) if isinstance(n, ast.Assign) and any(is_name(x, t) for x in n.targets)]
    res.add('%s :: rewr_conv.get_proof_term :: input-not-rebound' % CONV, not reb,
            'parameter %s is never reassigned' % t if not reb else 'parameter %s is reassigned at line %d' % (t, reb[0].lineno), f.loc,
            nontrivial=False)
    return res


def rule_v3(repo):
    res = RuleResult('C10.V3', 'a conversion that hands its equation to a trusted evaluation macro states it about the given term', floor=4)
    base = repo.cls(CONV, 'Conv')
    trusted = {n for mi in macro_index(repo) if mi.level() == 0 for n in mi.names}
    for c in repo.subclasses_of(base):
        f = c.methods.get('get_proof_term')
        if f is None or len(f.params()) < 2:
            continue
        t = f.params()[1]
        for r in returns_of(f.node):
            v = r.value
            if isinstance(v, ast.Call) and call_name(v) == 'ProofTerm' and v.args and isinstance(v.args[0], ast.Constant) \
                    and v.args[0].value in trusted and len(v.args) >= 2 and isinstance(v.args[1], ast.Call) and \
                    call_name(v.args[1]) in ('Eq', 'term.Eq', 'hol_term.Eq'):
                eq = v.args[1]
                ok = bool(eq.args) and is_name(eq.args[0], t)
                res.add('%s :: get_proof_term :: oracle(%s)' % (c.key, v.args[0].value), ok,
                        'ProofTerm(%r, Eq(%s, ...))' % (v.args[0].value, t) if ok else
                        'the equation given to the trusted macro is about `%s`, not the input term' % src(eq.args[0]) if eq.args else '?',
                        '%s:%d' % (c.module.rel, r.lineno))
    return res


def rule_v4(repo, rid='C10.V4'):
    """The normaliser / solver keep process-wide memo tables keyed by the term alone.  They are read
    only when no side conditions were supplied; they must be written under the same restriction, or a
    result proved under conditions is later handed out where none were supplied."""
    res = RuleResult(rid, 'a process-wide memo of conversion results is written only under the conditions under which it is read', floor=2)
    AUTO = 'logic/auto.py'
    m = repo.module(AUTO)
    memos = set()
    for n in m.tree.body:
        if isinstance(n, ast.Assign) and len(n.targets) == 1 and isinstance(n.targets[0], ast.Name) and \
                (isinstance(n.value, ast.Dict) or (isinstance(n.value, ast.Call) and call_name(n.value) == 'dict')):
            memos.add(n.targets[0].id)
    need(memos, 'logic/auto.py: no module-level memo table found')

    def guards(cfg, node, params, memo):
        sig = set()
        for t in cfg.test_nodes():
            if t is node:
                continue
            names = {x.id for x in ast.walk(t.ast) if isinstance(x, ast.Name)}
            if memo in names or not (names & set(params)):
                continue
            for label in ('true', 'false'):
                if cfg.path_avoiding(node, skip_edges={(t.id, label)}) is None and cfg.path_avoiding(node, skip_nodes=[t]) is None:
                    sig.add((src(t.ast, 80), label == 'true'))
        return sig

    for f in m.functions.values():
        cfg = cfg_of(f.node)
        params = f.params()
        for memo in sorted(memos):
            reads, writes = [], []
            for n in cfg.nodes:
                for h in cfg.headers(n):
                    for x in ast.walk(h):
                        if isinstance(x, ast.Subscript) and is_name(x.value, memo):
                            (writes if isinstance(x.ctx, ast.Store) else reads).append(n)
                        cp = compare_parts(x) if isinstance(x, ast.Compare) else None
                        if cp and cp[0] in (ast.In, ast.NotIn) and is_name(cp[2], memo):
                            reads.append(n)
            if not reads or not writes:
                continue
            rg = None
            for r in reads:
                g = guards(cfg, r, params, memo)
                rg = g if rg is None else (rg & g)
            for w in writes:
                wg = guards(cfg, w, params, memo)
                missing = sorted(rg - wg)
                fmt = lambda s: ', '.join(('' if pol else 'not ') + t for t, pol in s) or 'nothing'
                res.add('%s :: %s :: memo(%s)' % (AUTO, f.qualname, memo), not missing,
                        'read and written under: %s' % fmt(sorted(rg)) if not missing else
                        'the table is read only when [%s] but written also otherwise (line %d): a result obtained with side conditions is '
                        'returned later although none were supplied, with hypotheses nobody gave' % (fmt(missing), w.lineno),
                        '%s:%d' % (AUTO, w.lineno))
    return res


def rule_v5(repo):
    """Normal forms are sorted with comparison functions (cmp_to_key).  A comparison that walks over the
    components of its arguments must be able to reach the second component: a loop whose body leaves on
    every path of its first iteration compares first components only, equal-looking keys keep their
    insertion order and the 'normal form' depends on how the term was written."""
    res = RuleResult('C10.V5', 'an ordering used to sort normal forms compares all components: none of its loops stops after the first iteration on every path', floor=2)
    targets = []
    for m in repo.source_modules():
        for c in ast.walk(m.tree):
            if isinstance(c, ast.Call) and (call_name(c) or '').split('.')[-1] == 'cmp_to_key' and c.args:
                nm = call_name(ast.Call(func=c.args[0], args=[], keywords=[])) if isinstance(c.args[0], (ast.Name, ast.Attribute)) else None
                r = repo.resolve_name(m, nm) if nm else None
                if r is not None and hasattr(r, 'node') and r not in targets:
                    targets.append(r)
    need(len(targets) >= 2, 'no comparison function passed to cmp_to_key found')
    funcs = {}
    for t in targets:
        for g in repo.reachable_funcs([t], depth=3):
            if g.module.rel in ('kernel/term_ord.py', 'util/poly.py') or g is t:
                funcs[id(g)] = g
    n_loops = 0
    for g in funcs.values():
        cfg = cfg_of(g.node)
        for it in cfg.nodes_of_kind('iter'):
            n_loops += 1
            body = [b for b, l in it.succ if l == 'loop']
            again = it.id in cfg.reach_from(body)
            res.add('%s :: %s :: loop@%s' % (g.module.rel, g.qualname, src(it.ast.iter, 30)), again,
                    'a further iteration is reachable' if again else
                    'every path through the loop body leaves the loop in its first iteration: only the first component is compared',
                    '%s:%d' % (g.module.rel, it.lineno))
        for n in cfg.nodes:
            if n.kind == 'join' and isinstance(n.stmt, ast.While):
                n_loops += 1
    need(n_loops >= 2, 'comparison functions contain no loops (anchor moved?)')
    return res


def rule_v6(repo):
    """The product normaliser finds the base of a factor with dest_atom and brings two factors with the
    same base into the form base ^ exponent with to_exponent_form before adding the exponents.  The two
    must agree on which terms already *are* of that form: dest_atom strips an exponent exactly when
    to_exponent_form leaves the term as it is.  If they disagree the combination step fails, the product
    rule is skipped and x ^ n * x and x * x ^ n keep different 'normal forms'."""
    from ..decide import decision_table, atoms_of
    res = RuleResult('C10.V6', 'dest_atom strips an exponent exactly for the terms to_exponent_form regards as already in exponent form', floor=1)
    REAL = 'data/real.py'
    f1 = repo.func(REAL, 'dest_atom')
    f2 = repo.func(REAL, 'to_exponent_form.get_proof_term')
    c1, c2 = cfg_of(f1.node), cfg_of(f2.node)
    p1, p2 = f1.params()[0], f2.params()[1]
    r1, r2 = {p1: '$t'}, {p2: '$t'}
    atoms = sorted(set(atoms_of(c1, r1)) | set(atoms_of(c2, r2)))
    # the unchanged proof term of to_exponent_form: a name defined as refl(<param>)
    refl_names = {t.id for n in ast.walk(f2.node) if isinstance(n, ast.Assign) and isinstance(n.value, ast.Call) and
                  call_name(n.value) in ('refl', 'ProofTerm.reflexive') and n.value.args and is_name(n.value.args[0], p2)
                  for t in n.targets if isinstance(t, ast.Name)}
    need(refl_names, 'to_exponent_form.get_proof_term: no `pt = refl(t)` found')
    t1 = decision_table(c1, atoms, lambda r: 'keep' if is_name(r.value, p1) else 'strip', r1, 'dest_atom')
    t2 = decision_table(c2, atoms, lambda r: 'asis' if isinstance(r.value, ast.Name) and r.value.id in refl_names else 'wrap', r2, 'to_exponent_form')
    diff = [v for v in t1 if (t1[v] == 'strip') != (t2[v] == 'asis') and 'raise' not in (t1[v], t2[v])]
    if diff:
        v = diff[0]
        case = ', '.join(('' if b else 'not ') + a for a, b in zip(atoms, v))
    res.add('%s :: dest_atom / to_exponent_form :: exponent-form-agreement' % REAL, not diff,
            'same decision on all %d cases of %d atomic tests' % (len(t1), len(atoms)) if not diff else
            'they disagree in %d of %d cases, e.g. when [%s]: dest_atom %ss, to_exponent_form %s' % (
                len(diff), len(t1), case, t1[v], 'leaves the term as it is' if t2[v] == 'asis' else 'wraps it as t ^ 1'), f1.loc)
    res.info['atoms'] = atoms
    return res


def rule_v7(repo):
    """real_norm_conv normalises through convert_to_poly: under a coercion of_nat the argument is a natural
    number term and must be normalised with the nat normaliser (truncated subtraction), or of_nat (2 - 3)
    becomes -1 and equal terms get different normal forms (the rule of C05.T5, for the normalisers)."""
    from .c05 import rule_t5
    r = rule_t5(repo)
    res = RuleResult('C10.V7', 'the polynomial normaliser hands the argument of a coercion to the normaliser of the source type', floor=1)
    for i in r.instances:
        if 'convert_to_poly' in i.key:
            res.add(i.key, i.ok, i.detail, i.loc)
    return res


def _neutral_side(repo, thm):
    """'left' / 'right' for a theorem  c op x = ..  /  x op c = ..  with a numeral c (read from library/*.json), else None"""
    import json
    import os
    import re
    for fn in sorted(os.listdir(os.path.join(repo.root, 'library'))):
        if not fn.endswith('.json'):
            continue
        try:
            d = json.load(open(os.path.join(repo.root, 'library', fn), encoding='utf-8'))
        except ValueError:
            continue
        for it in d.get('content', []):
            if it.get('name') == thm and it.get('ty') == 'thm' and isinstance(it.get('prop'), str):
                m = re.match(r'^\(?(\S+) (\S) (\S+?)\)? = \S+$', it['prop'])
                if not m:
                    return None
                l, r = m.group(1).lstrip('('), m.group(3)
                ln, rn = bool(re.match(r'^\d+(::\w+\)?)?$', l)), bool(re.match(r'^\d+(::\w+\)?)?$', r))
                return 'left' if ln and not rn else 'right' if rn and not ln else None
    return None


def rule_v8(repo):
    """In the arithmetic normalisers a step `arg1_conv(c)` / `arg_conv(c)` can turn that argument into the
    neutral (or absorbing) element, and the next step `try_conv(rewr_conv(T))` removes it.  T must be the theorem for
    *that* side (0 + n = n after arg1_conv, n + 0 = n after arg_conv): try_conv swallows the failed match of the other
    one, `0 + b` stays in the result, and two equal polynomials get different normal forms."""
    res = RuleResult('C10.V8', 'the clean-up rewrite after normalising one argument is the theorem for that side', floor=3)

    def side_of(c):
        while isinstance(c, ast.Call) and call_name(c) == 'try_conv' and c.args:
            c = c.args[0]
        if isinstance(c, ast.Call) and call_name(c) in ('arg1_conv', 'arg_conv'):
            return 'left' if call_name(c) == 'arg1_conv' else 'right'
        return None
    for rel in ('data/integer.py', 'data/real.py', 'data/nat.py'):
        m = repo.module(rel)
        for f in m.all_funcs:
            for c in ast.walk(f.node):
                if not (isinstance(c, ast.Call) and call_attr(c) in ('on_rhs', 'on_lhs') or isinstance(c, ast.Call) and call_name(c) in ('then_conv', 'every_conv')):
                    continue
                for prev, cur in zip(c.args, c.args[1:]):
                    if not (isinstance(cur, ast.Call) and call_name(cur) == 'try_conv' and len(cur.args) == 1 and isinstance(cur.args[0], ast.Call) and
                            call_name(cur.args[0]) == 'rewr_conv' and cur.args[0].args and isinstance(cur.args[0].args[0], ast.Constant) and not cur.args[0].keywords):
                        continue
                    thm = cur.args[0].args[0].value
                    ps, ts = side_of(prev), _neutral_side(repo, thm)
                    if ps is None or ts is None:
                        continue
                    res.add('%s :: %s :: cleanup(%s after %s)' % (rel, f.qualname, thm, src(prev, 30)), ps == ts,
                            'the %s argument was normalised, the theorem removes the numeral on the %s' % (ps, ts) if ps == ts else
                            '`%s` normalised the %s argument (which can become the numeral), but `%s` removes a numeral on the %s: the failed match '
                            'is swallowed by try_conv and the numeral stays in the normal form (x + y - x is normalised to 0 + y)' % (
                                src(prev, 30), ps, thm, ts), '%s:%d' % (rel, cur.lineno))
    return res


def rule_v9(repo):
    """The normalisers sort members with kernel/term_ord.fast_compare.  Equal terms must compare equal and the
    order must not depend on the names of bound variables (terms are equal up to those): the order compares exactly
    the fields equality compares (the rule of C03.I4, for the normal forms)."""
    from .c03 import rule_i4
    r = rule_i4(repo)
    res = RuleResult('C10.V9', 'the order behind the normal forms compares exactly the fields that equality compares', floor=5)
    for i in r.instances:
        res.add(i.key, i.ok, i.detail, i.loc)
    return res


def rule_v10(repo):
    """top_sweep_conv applies a conversion at the topmost positions where it *changes* the term and goes on below the
    others.  "Does not apply here" is reported in two ways in this library: by ConvException (rewr_conv, beta_conv) and by
    the reflexive equation t = t (sort_disj, sort_conj, nat_eq_conv, the evaluation conversions ..).  The sweep therefore
    decides by looking at the result: what the conversion returned is handed back only after `is_reflexive()` was asked
    of it.  Stopping at a node because no exception came leaves everything below unnormalised: sort_conj ends with a sweep
    of sort_disj, and (B | A) & C and C & (A | B) get different normal forms."""
    from ..flow import flow_of
    res = RuleResult('C10.V10', 'a sweep hands back what the conversion returned at a node only after asking whether it changed the term', floor=1)
    f = repo.func(CONV, 'top_sweep_conv.get_proof_term')
    # the worker: the nested function that calls itself (whatever it is called)
    workers = [g for g in f.nested.values() if any(isinstance(c, ast.Call) and is_name(c.func, g.name) for c in ast.walk(g.node))]
    rec = need(workers[0] if workers else None, 'top_sweep_conv.get_proof_term: no nested function that calls itself found')
    cfg, flow = cfg_of(rec.node), flow_of(rec.node)
    oflow = flow_of(f.node)
    # names of the enclosing function that stand for the conversion (step = try_conv(self.cv))
    outer_cv = {nm for nm in oflow.defs if nm not in rec.params() and any(r.startswith('self.cv') for r in oflow.resolve(ast.Name(id=nm, ctx=ast.Load())))}

    def from_cv(e):
        roots = flow.resolve(e)
        return any(r.startswith('self.cv') or r.split('(')[0].split('.')[0].split('{')[0] in outer_cv for r in roots) and \
            not any(r.startswith(rec.name + '()') for r in roots)
    asked = [t for t in cfg.test_nodes() if isinstance(t.ast, ast.Call) and call_attr(t.ast) == 'is_reflexive' and from_cv(t.ast.func.value)]
    rets = [r for r in cfg.return_nodes() if r.ast.value is not None and from_cv(r.ast.value)]
    need(rets, 'top_sweep_conv: no return of the conversion\'s result found')
    bad = [r for r in rets if cfg.path_avoiding(r, skip_nodes=asked) is not None]
    res.add('%s :: top_sweep_conv.get_proof_term.rec :: stops-only-where-changed' % CONV, not bad,
            'the result of the conversion is returned behind is_reflexive()' if not bad else
            'line %d `%s` is reached without asking is_reflexive() of it: at a node where the conversion answers t = t the sweep stops '
            'and nothing below is converted' % (bad[0].lineno, src(bad[0].ast, 50)), '%s:%d' % (CONV, (bad or rets)[0].lineno))
    return res

def rule_v11(repo):
    """A conversion that answers t = t says "t is already in normal form".  When that answer hangs on an equality test, the
    test has to be about the term: `norm == t`, `t.arg == false`.  An equality between two *views* computed from the term -
    the list of its conjuncts against the sorted list - identifies terms that differ in what the view forgets (the
    bracketing: (A & B) & C and A & (B & C) have the same conjuncts), so two equal sets of members keep different normal
    forms.  Reported only when the answer depends on nothing but such view comparisons."""
    from ..flow import flow_of
    res = RuleResult('C10.V11', '"already normal" (t = t) is never answered on the strength of a comparison between two views of the term', floor=10)
    base = repo.cls(CONV, 'Conv')
    for c in repo.subclasses_of(base):
        f = c.methods.get('get_proof_term')
        if f is None or len(f.params()) < 2:
            continue
        t = f.params()[1]
        refls = [r for r in ast.walk(f.node) if isinstance(r, ast.Return) and isinstance(r.value, ast.Call) and
                 (call_name(r.value) or '').split('.')[-1] in ('refl', 'reflexive') and r.value.args and is_name(r.value.args[0], t)]
        own = {id(x) for g in f.nested.values() for x in ast.walk(g.node)} if getattr(f, 'nested', None) else set()
        refls = [r for r in refls if id(r) not in own]
        if not refls:
            continue
        cfg = cfg_of(f.node)
        flow = flow_of(f.node)
        bad = []
        for r in refls:
            node = cfg.node_for(r)
            if node is None:
                continue
            views, others = [], 0
            for tn in cfg.test_nodes():
                need_true = cfg.path_avoiding(node, skip_edges={(tn.id, 'true')}) is None
                need_false = cfg.path_avoiding(node, skip_edges={(tn.id, 'false')}) is None
                if need_true == need_false:
                    continue
                cp = compare_parts(tn.ast)
                is_view = False
                if cp and ((cp[0] is ast.Eq and need_true) or (cp[0] is ast.NotEq and need_false)):
                    sides = [flow.inline(cp[1]), flow.inline(cp[2])]
                    # both sides computed from the term by calls, neither the term or a part of it (an attribute path), nor a constant
                    is_view = all(isinstance(x, ast.Call) and t in {n_.id for n_ in ast.walk(x) if isinstance(n_, ast.Name)} and path_of(x) is None
                                  for x in sides)
                if is_view:
                    views.append(tn)
                else:
                    others += 1
            if views and not others:
                bad.append((r, views[0]))
        res.add('%s :: get_proof_term :: already-normal-answer' % c.key, not bad,
                '%d reflexive answer(s), none resting on a comparison of views alone' % len(refls) if not bad else
                'line %d answers %s = %s because `%s` - a comparison between two lists computed from the term, which forgets how the term is '
                'bracketed: (A & B) & C is left as it is while A & (B & C) and every permutation become A & B & C' % (
                    bad[0][0].lineno, t, t, src(bad[0][1].ast, 60)), f.loc)
    return res

def rule_v12(repo):
    """A normaliser that works bottom-up first normalises the parts of a term (`arg_pt = rec(t.arg)`) and then decides what to do with the
    whole.  From that point on, what it knows about a part is what the *normal form* looks like (`arg_pt.rhs`); the part as it was written
    (`t.arg`) is out of date.  A decision taken on the old shape - "the argument is not an abstraction, so contracting cannot create a new
    redex" - is wrong exactly when normalising changed the shape: (%f. f a) ((%g. g) (%x. x)) stays (%x. x) a, which is not normal,
    differs from the fast evaluation, and changes when normalised again."""
    res = RuleResult('C10.V12', 'after a part of the term was normalised, decisions look at its normal form, not at the part as written', floor=2)
    m = repo.module(CONV)
    for f in m.all_funcs:
        if f.parent is None:
            continue
        recursive = any(isinstance(c, ast.Call) and is_name(c.func, f.name) for c in ast.walk(f.node))
        if not recursive or not f.params():
            continue
        t = f.params()[0]
        cfg = cfg_of(f.node)
        for n in cfg.stmt_nodes(ast.Assign):
            v = n.ast.value
            if not (isinstance(v, ast.Call) and is_name(v.func, f.name) and len(v.args) == 1 and isinstance(v.args[0], ast.Attribute) and is_name(v.args[0].value, t) and
                    isinstance(n.ast.targets[0], ast.Name)):
                continue
            part = src(v.args[0])
            after = cfg.reach_from([b for b, _l in n.succ])
            stale = [tn for tn in cfg.test_nodes() if tn.id in after and any(
                isinstance(x, ast.Call) and (call_attr(x) or '').startswith('is_') and src(x.func.value) == part for x in ast.walk(tn.ast))]
            res.add('%s :: %s :: normalised(%s)' % (CONV, f.qualname, part), not stale,
                    'later decisions read %s.rhs' % n.ast.targets[0].id if not stale else
                    'line %d tests `%s` after `%s` was normalised into `%s`: the decision is about the part as it was written, and is wrong when normalising '
                    'turned it into an abstraction ((%%f. f a) ((%%g. g) (%%x. x)) is left as (%%x. x) a)' % (
                        stale[0].lineno, src(stale[0].ast, 40), part, n.ast.targets[0].id), '%s:%d' % (CONV, stale[0].lineno if stale else n.lineno))
    return res


def rules(repo):
    return [rule_v1(repo), rule_v2(repo), rule_v3(repo), rule_v4(repo), rule_v5(repo), rule_v6(repo), rule_v7(repo), rule_v8(repo), rule_v9(repo), rule_v10(repo), rule_v11(repo), rule_v12(repo)]
