"""Rules over the family of Macro.eval fast paths, shared by C04 (all macros) and C18 (veriT)."""
import ast
import re

from ..core import RuleResult, need
from ..cfg import cfg_of
from ..flow import flow_of, path_base
from ..astutil import (src, call_attr, call_name, compare_parts, names_in, is_name, path_of, walk_no_nested,
                       returns_of)
from ..macros import macro_index

PROP_ATTRS = {'prop', 'concl', 'lhs', 'rhs', 'assums', 'th'}
VERIT_FILES = ('smt/veriT/verit_macro.py', 'smt/veriT/la_generic.py')


def _token(path, param):
    """index token of the premise an access path is about: '[0]', '[*]' or '' (the whole list)"""
    rest = path[len(param):]
    m = re.match(r'\[(-?\d+|\*)\]', rest)
    return m.group(0) if m else ''


def premise_param(func):
    ps = func.params()
    return ps[2] if len(ps) >= 3 else None


def consulted_premises(func, flow, prem):
    """tokens of premises whose proposition is read"""
    toks = {}
    for n in walk_no_nested(func.node):
        if isinstance(n, ast.Attribute) and n.attr in PROP_ATTRS:
            for p in flow.resolve(n.value):
                if path_base(p) == prem:
                    toks.setdefault(_token(p, prem), n.lineno)
    return toks


def _single_value(flow, e, depth=0):
    while isinstance(e, ast.Name) and flow.is_local(e.id) and depth < 4:
        defs = [d for d in flow.defs.get(e.id, []) if d[0] == 'value']
        if len(defs) != 1 or len(flow.defs.get(e.id, [])) != 1:
            break
        e = defs[0][1]
        depth += 1
    while isinstance(e, ast.Call) and isinstance(e.func, ast.Name) and e.func.id in ('tuple', 'list') and len(e.args) == 1:
        e = e.args[0]
    return e


def _selects_subset(flow, e, prem):
    """`(prem[i].hyps for i in IDX)` where IDX is not the whole index range of prem: hypotheses of a selection only"""
    e = _single_value(flow, e)
    if not isinstance(e, (ast.GeneratorExp, ast.ListComp)) or len(e.generators) != 1:
        return False
    g = e.generators[0]
    idx_vars = {x.id for x in ast.walk(g.target) if isinstance(x, ast.Name)}
    indexed = any(isinstance(x, ast.Subscript) and isinstance(x.value, ast.Name) and x.value.id == prem and
                  isinstance(x.slice, ast.Name) and x.slice.id in idx_vars for x in ast.walk(e.elt))
    if not indexed:
        return bool(g.ifs) and any(isinstance(x, ast.Name) and x.id == prem for x in ast.walk(g.iter))     # filtered iteration
    it = _single_value(flow, g.iter)
    whole = isinstance(it, ast.Call) and isinstance(it.func, ast.Name) and it.func.id == 'range' and len(it.args) == 1 and \
        isinstance(it.args[0], ast.Call) and isinstance(it.args[0].func, ast.Name) and it.args[0].func.id == 'len' and \
        isinstance(it.args[0].args[0], ast.Name) and it.args[0].args[0].id == prem
    return not whole or bool(g.ifs)


def carried_premises(flow, call, prem):
    toks = set()
    for a in call.args[1:]:
        v = a.value if isinstance(a, ast.Starred) else a
        if _selects_subset(flow, v, prem):
            toks.add('[subset]')
            continue
        for p in flow.resolve(v):
            if path_base(p) == prem and '.hyps' in p:
                toks.add(_token(p, prem))
    return toks


def hyps_rule(repo, rule_id, scope, floor):
    res = RuleResult(rule_id, 'a fast-path evaluation that reads a premise carries that premise\'s hypotheses into the sequent it returns', floor=floor)
    n_evals = 0
    for mi in macro_index(repo):
        if mi.eval is None or not scope(mi):
            continue
        n_evals += 1
        f = mi.eval
        prem = premise_param(f)
        if prem is None:
            res.add('%s :: eval :: premise-hyps' % mi.key, True, 'eval has no premise parameter', f.loc, nontrivial=False)
            continue
        flow = flow_of(f.node)
        consulted = consulted_premises(f, flow, prem)
        thm_rets = [(r, r.value) for r in returns_of(f.node)
                    if isinstance(r.value, ast.Call) and call_name(r.value) == 'Thm']
        if not consulted:
            res.add('%s :: eval :: premise-hyps' % mi.key, True, 'no premise proposition is read', f.loc, nontrivial=False)
            continue
        if not thm_rets:
            res.add('%s :: eval :: premise-hyps' % mi.key, True,
                    'result obtained from kernel rules / another evaluation, not constructed', f.loc, nontrivial=False)
            continue
        bad = []
        for r, call in thm_rets:
            carried = carried_premises(flow, call, prem)
            if '[*]' in carried or '' in carried:
                continue
            # a premise read through a loop / comprehension over the whole list ('[*]') may serve only to
            # supply formulas that are discharged (verit_subproof): then some premise's hypotheses must be
            # carried; premises read by explicit index must each be carried
            missing = sorted(t for t in consulted if t not in carried and not (t == '[*]' and carried))
            if missing:
                bad.append('line %d `%s`: hypotheses of %s%s not carried' % (
                    r.lineno, src(call, 50), prem, ','.join(missing)))
        res.add('%s :: eval :: premise-hyps' % mi.key, not bad,
                'hypotheses of %s carried' % ','.join(prem + t for t in sorted(consulted)) if not bad else
                '; '.join(bad) + ' -- the expansion keeps them (kernel rules do), so evaluation claims a stronger sequent',
                f.loc)
    res.info['eval_overrides_in_scope'] = n_evals
    return res


# confirmed exceptions: macro name -> reason
USES_EXEMPT = {
    'verit_subproof': 'the premises before the last are the assumptions of the sub-proof: their formulas are discharged into the clause, '
                      'and only the hypotheses of the last premise that are not discharged remain (checked by R2 on that premise)',
}


def expansion_uses_rule(repo, rule_id, scope, floor):
    """The expansion of a macro proves its result with kernel rules from the premises it uses, so the result
    has the hypotheses of all of them.  An evaluation that constructs `Thm(prop, <hyps>)` must therefore
    carry the hypotheses of every premise the expansion touches - whether or not the evaluation itself looks
    at that premise."""
    res = RuleResult(rule_id, 'a constructed evaluation result carries the hypotheses of every premise the expansion uses', floor=floor)
    for mi in macro_index(repo):
        if mi.eval is None or not scope(mi):
            continue
        gp = mi.cls.methods.get('get_proof_term')
        if gp is None:
            continue
        prem_e, prem_g = premise_param(mi.eval), premise_param(gp)
        if not prem_e or not prem_g:
            continue
        fe, fg = flow_of(mi.eval.node), flow_of(gp.node)
        used = set()
        for x in walk_no_nested(gp.node):
            if isinstance(x, (ast.Name, ast.Subscript, ast.Attribute)) and isinstance(getattr(x, 'ctx', None), ast.Load):
                for pth in fg.resolve(x):
                    if path_base(pth) == prem_g:
                        used.add(_token(pth, prem_g))
        used.discard('')
        rets = [(r, r.value) for r in returns_of(mi.eval.node) if isinstance(r.value, ast.Call) and call_name(r.value) == 'Thm']
        if not rets or not used:
            continue
        bad = []
        for r, call in rets:
            carried = carried_premises(fe, call, prem_e)
            if '[*]' in carried or '' in carried:
                continue
            missing = sorted(t for t in used if t not in carried)
            if missing:
                bad.append('line %d `%s` carries the hypotheses of %s only, the expansion uses %s' % (
                    r.lineno, src(call, 50), ', '.join(prem_e + t for t in sorted(carried)) or 'no premise',
                    ', '.join(prem_g + t for t in sorted(used))))
        ex = next((USES_EXEMPT[n] for n in mi.names if n in USES_EXEMPT), None)
        if bad and ex:
            res.add('%s :: eval :: hyps-of-used-premises' % mi.key, True, 'confirmed exception: ' + ex, mi.eval.loc, nontrivial=False)
            continue
        res.add('%s :: eval :: hyps-of-used-premises' % mi.key, not bad,
                'every constructed result carries the hypotheses of all premises (or of those the expansion uses)' if not bad else
                '; '.join(bad) + ' -- the expansion proves the result under the hypotheses of all of them, the evaluation claims it under fewer',
                mi.eval.loc)
    return res


def all_macros(mi):
    return True


def verit_macros(mi):
    return mi.cls.module.rel in VERIT_FILES


# ---------------------------------------------------------------------- truncating comparison (zip)
def _lensrc(e, flow, depth=0):
    """(base text, slice suffix): two sequences with equal lensrc have equal length"""
    if depth < 6:
        if isinstance(e, ast.Name) and flow.is_local(e.id):
            defs = flow.defs.get(e.id, [])
            if len(defs) == 1 and defs[0][0] == 'value':
                return _lensrc(defs[0][1], flow, depth + 1)
        if isinstance(e, ast.Subscript) and isinstance(e.slice, ast.Slice):
            b, s = _lensrc(e.value, flow, depth + 1)
            return b, s + '[' + ast.unparse(e.slice) + ']'
        if isinstance(e, (ast.ListComp, ast.GeneratorExp)) and len(e.generators) == 1 and not e.generators[0].ifs:
            return _lensrc(e.generators[0].iter, flow, depth + 1)
        if isinstance(e, ast.Call) and isinstance(e.func, ast.Name) and e.func.id in ('list', 'tuple', 'reversed', 'sorted') \
                and len(e.args) == 1:
            return _lensrc(e.args[0], flow, depth + 1)
    return ast.unparse(e), ''


def _same_length_pair(x, y, a, b, flow):
    lx, ly, la, lb = _lensrc(x, flow), _lensrc(y, flow), _lensrc(a, flow), _lensrc(b, flow)
    if {lx, ly} == {la, lb}:
        return True
    # both cut from equal-length lists by the same slice
    if la[1] == lb[1] and la[1] and {(lx[0]), (ly[0])} == {la[0], lb[0]} and lx[1] == ly[1] == '':
        return True
    return False


def _len_arg(e):
    if isinstance(e, ast.Call) and isinstance(e.func, ast.Name) and e.func.id == 'len' and len(e.args) == 1:
        return e.args[0]
    return None


def _strip_seq(e):
    while isinstance(e, ast.Call) and isinstance(e.func, ast.Name) and e.func.id in ('tuple', 'list') and len(e.args) == 1:
        e = e.args[0]
    return e


# confirmed exceptions: (file, function, zip text) -> reason
ZIP_EXEMPT = {
    ('smt/veriT/verit_macro.py', 'compare_sym_tm.<locals>.helper', 'zip(t1.args, t2.args)'):
        'reached only when t1.head == t2.head (same constant at the same type) at the same position of two '
        'terms of equal type: both applications have the same number of arguments',
    ('smt/veriT/verit_macro.py', 'compare_sym_tm_thm.<locals>.helper', 'zip(t1.args, t2.args)'):
        'same as compare_sym_tm: heads are equal, argument lists have equal length',
}


def verit_eval_side_functions(repo):
    """evaluation-side functions of the veriT reconstruction: everything in the veriT macro files
    except expansion code (get_proof_term*, expand, conversions)"""
    conv_base = repo.cls('logic/conv.py', 'Conv')
    for rel in VERIT_FILES:
        m = repo.module(rel)
        for f in m.all_funcs:
            top = f
            while top.parent is not None:
                top = top.parent
            if top.name.startswith('get_proof_term') or top.name in ('expand',):
                continue
            if top.cls is not None and top.cls.is_subclass_of(conv_base):
                continue
            yield f


def macro_eval_functions(repo, scope=all_macros):
    """eval / can_eval methods (and their nested helpers) of every Macro subclass in scope"""
    for mi in macro_index(repo):
        if not scope(mi):
            continue
        for name in ('eval', 'can_eval'):
            f = mi.cls.methods.get(name)
            if f is None:
                continue
            todo = [f]
            while todo:
                g = todo.pop()
                yield g
                todo.extend(g.nested.values())


def zip_rule(repo, rule_id, funcs, floor):
    res = RuleResult(rule_id, 'a pairwise comparison over zip() that decides acceptance is accompanied by a length agreement', floor=floor)
    n_sites = n_build = 0
    seen = set()
    for f in funcs:
        if id(f) in seen:
            continue
        seen.add(id(f))
        rel = f.module.rel
        if True:
            zips = [c for c in walk_no_nested(f.node, include_root=False)
                    if isinstance(c, ast.Call) and is_name(c.func, 'zip')]
            if not zips:
                continue
            cfg = cfg_of(f.node)
            flow = flow_of(f.node)
            parents = {}
            for n in walk_no_nested(f.node):
                for ch in ast.iter_child_nodes(n):
                    parents[id(ch)] = n
            for z in zips:
                n_sites += 1
                kind = _zip_kind(z, parents)
                key = '%s :: %s :: %s' % (rel, f.qualname, src(z, 80))
                if kind == 'build':
                    n_build += 1
                    continue
                if len(z.args) != 2:
                    res.add(key, False, 'comparison over a zip of %d sequences: not analysed' % len(z.args), '%s:%d' % (rel, z.lineno))
                    continue
                a, b = z.args
                if any(k.arg == 'strict' and isinstance(k.value, ast.Constant) and k.value.value is True for k in z.keywords):
                    res.add(key, True, 'strict=True', '%s:%d' % (rel, z.lineno))
                    continue
                zn = cfg.node_for(z)
                need(zn is not None, '%s: CFG node of %s not found' % (f.key, src(z)))
                why = None
                for t in cfg.test_nodes():
                    cp = compare_parts(t.ast)
                    if not cp:
                        continue
                    x, y = _len_arg(cp[1]), _len_arg(cp[2])
                    if x is not None and y is not None and _same_length_pair(x, y, a, b, flow):
                        # the outcome of the test decides whether the comparison is reached
                        for lab in ('true', 'false'):
                            if t is not zn and cfg.path_avoiding(zn, skip_edges={(t.id, lab)}) is None:
                                why = 'length test `%s` on every path to the comparison' % src(t.ast, 60)
                    if why is None and cp[0] is ast.Eq:
                        sx, sy = _strip_seq(cp[1]), _strip_seq(cp[2])
                        if {ast.unparse(sx), ast.unparse(sy)} == {ast.unparse(a), ast.unparse(b)}:
                            # whole-sequence equality must hold on every accepting continuation
                            accepts = [r for r in cfg.return_nodes() if not _is_reject(r.ast)]
                            if accepts and all(cfg.path_avoiding(r, skip_edges={(t.id, 'true')}, start=zn) is None for r in accepts):
                                why = 'whole-sequence equality `%s` guards every accepting return' % src(t.ast, 60)
                if why is None:
                    # length test earlier in the same conjunction: len(a) == len(b) and all(... zip(a, b))
                    cur = z
                    while id(cur) in parents and why is None:
                        par = parents[id(cur)]
                        if isinstance(par, ast.BoolOp) and isinstance(par.op, ast.And):
                            idx = next(i for i, v in enumerate(par.values) if v is cur)
                            for v in par.values[:idx]:
                                cp = compare_parts(v)
                                if cp and cp[0] is ast.Eq and _len_arg(cp[1]) is not None and _len_arg(cp[2]) is not None and \
                                        _same_length_pair(_len_arg(cp[1]), _len_arg(cp[2]), a, b, flow):
                                    why = 'length test `%s` earlier in the same conjunction' % src(v, 60)
                        cur = par
                if why is None and (rel, f.qualname, src(z, 200)) in ZIP_EXEMPT:
                    res.add(key, True, 'confirmed exception: ' + ZIP_EXEMPT[(rel, f.qualname, src(z, 200))], '%s:%d' % (rel, z.lineno),
                            nontrivial=False)
                    continue
                res.add(key, why is not None, why or
                        'pairs of %s and %s are compared to decide acceptance, but nothing relates their lengths: zip() '
                        'silently drops the unmatched tail, so a longer sequence is accepted' % (src(a, 40), src(b, 40)),
                        '%s:%d' % (rel, z.lineno))
    res.info['zip_sites'] = n_sites
    res.info['build_only'] = n_build
    return res


def _is_reject(ret):
    v = ret.value
    return v is None or (isinstance(v, ast.Constant) and v.value in (False, None))


def _zip_kind(z, parents):
    p = parents.get(id(z))
    # direct iteration source of a for loop
    if isinstance(p, ast.For) and p.iter is z:
        for s in p.body:
            for n in ast.walk(s):
                if isinstance(n, (ast.Raise, ast.Break)):
                    return 'compare'
                if isinstance(n, ast.Return):
                    return 'compare'
                if isinstance(n, ast.Assert):
                    return 'compare'
        return 'build'
    if isinstance(p, ast.comprehension) and p.iter is z:
        comp = parents.get(id(p))
        user = parents.get(id(comp))
        if isinstance(user, ast.Call) and isinstance(user.func, ast.Name) and user.func.id in ('all', 'any'):
            return 'compare'
        return 'build'
    return 'build'


# ---------------------------------------------------------------------- arguments the result depends on
def _arg_components(f):
    """({index: names} from `a, b = args`, {k of direct args[k]}, whole-use flag) for the argument parameter of a macro method"""
    ps = f.params()
    if len(ps) < 2:
        return None
    a = ps[1]
    comp, direct, whole, unpack = {}, set(), False, set()
    parents = {}
    for n in ast.walk(f.node):
        for c in ast.iter_child_nodes(n):
            parents[id(c)] = n
    for n in ast.walk(f.node):
        if isinstance(n, ast.Assign) and is_name(n.value, a) and isinstance(n.targets[0], (ast.Tuple, ast.List)):
            for i, t in enumerate(n.targets[0].elts):
                if isinstance(t, ast.Name):
                    comp.setdefault(i, set()).add(t.id)
            unpack.add(id(n.value))
        if isinstance(n, ast.Subscript) and is_name(n.value, a) and isinstance(n.slice, ast.Constant) and isinstance(n.slice.value, int):
            direct.add(n.slice.value)
    for n in ast.walk(f.node):
        if isinstance(n, ast.Name) and n.id == a and isinstance(n.ctx, ast.Load) and id(n) not in unpack:
            p = parents.get(id(n))
            if isinstance(p, ast.Subscript) and p.value is n and isinstance(p.slice, ast.Constant):
                continue
            if isinstance(p, ast.Call) and isinstance(p.func, ast.Name) and p.func.id in ('len', 'isinstance', 'type'):
                continue
            whole = True
    return a, comp, direct, whole


def argument_dependence_rule(repo, rule_id, scope, floor):
    """Evaluation and expansion get the same arguments.  If the reported result depends on a component of the
    argument tuple that the premises do not determine (no guard equates it with something computed from the premises
    alone), the expansion must look at that component too: an expansion that ignores it proves one and the same
    theorem for all its values, the evaluation reports different ones, and the checker rejects the step for all
    values but one.  (swap_disj_to_front: the literal list fixes how many literals the clause has; an expansion that
    decides that by matching the term takes a disjunctive last literal apart.)"""
    res = RuleResult(rule_id, 'the expansion reads every argument component that the reported result depends on and the premises do not determine', floor=floor)
    for mi in macro_index(repo):
        if mi.eval is None or mi.gpt is None or not scope(mi):
            continue
        ce, cg = _arg_components(mi.eval), _arg_components(mi.gpt)
        if ce is None or cg is None:
            continue
        a_e, comp_e, _dir_e, _w = ce
        _a_g, comp_g, dir_g, whole_g = cg
        if not comp_e:
            continue
        fe = flow_of(mi.eval.node)
        dep = set()
        for r in returns_of(mi.eval.node):
            if r.value is None:
                continue
            names = fe.names_closure(r.value)
            dep |= {i for i, ns in comp_e.items() if ns & names}
        argnames = {a_e} | {n for ns in comp_e.values() for n in ns}
        determined = set()
        for c in ast.walk(mi.eval.node):
            cp = compare_parts(c) if isinstance(c, ast.Compare) else None
            if not cp or cp[0] not in (ast.Eq, ast.NotEq):
                continue
            for x, y in ((cp[1], cp[2]), (cp[2], cp[1])):
                if isinstance(x, ast.Name):
                    for i, ns in comp_e.items():
                        if x.id in ns and not (fe.names_closure(y) & argnames) and any(isinstance(z, ast.Name) for z in ast.walk(y)):
                            determined.add(i)
        if whole_g:
            res.add('%s :: expansion-reads-arguments' % mi.key, True, 'the expansion hands on the whole argument tuple', mi.gpt.loc, nontrivial=False)
            continue
        loaded = {n.id for n in ast.walk(mi.gpt.node) if isinstance(n, ast.Name) and isinstance(n.ctx, ast.Load)}
        used = {i for i, ns in comp_g.items() if ns & loaded} | dir_g
        missing = sorted(dep - determined - used)
        nm = lambda i: '/'.join(sorted(comp_e[i]))
        res.add('%s :: expansion-reads-arguments' % mi.key, not missing,
                'result depends on %s; determined by the premises: %s; read by the expansion: %s' % (
                    ', '.join(nm(i) for i in sorted(dep)) or 'no component', ', '.join(nm(i) for i in sorted(determined)) or 'none',
                    ', '.join(str(i) for i in sorted(used)) or 'none') if not missing else
                'the reported result depends on the argument component %s, which no guard ties to the premises, but the expansion never reads it: '
                'for all values of it the expansion proves the same theorem, the evaluation reports different ones' % ', '.join(nm(i) for i in missing),
                mi.gpt.loc, nontrivial=bool(dep))
    return res
