"""C15 - SAT solver and Tseitin encoding: the bookkeeping a verdict and its certificate rest on.

Correctness of the verdict (agreement with exhaustive search), termination and equisatisfiability are
properties of the CDCL trail over run-time assignments and are not decided.  Decided are the pairings that
make a certificate mean what its consumer (prover/proofrec.solve_cnf replays it with kernel resolution)
takes it to mean, and the exits of unit propagation."""
import ast

from ..core import RuleResult, need
from ..cfg import cfg_of
from ..astutil import src, call_attr, call_name, is_name, path_of, walk_no_nested, compare_parts

SAT = 'prover/sat.py'
TSEITIN = 'prover/tseitin.py'

NOT_DECIDED = ('that the verdict agrees with exhaustive search, termination, validity of each recorded resolution step on '
               'run-time clauses, equisatisfiability of the Tseitin CNF, checker acceptance of the encoding theorem')
ASSUMPTIONS = ['prover/proofrec.solve_cnf replays proofs[new_id] as: start from clause steps[0], resolve with each further id in order, '
               'and appends the result as the clause with the next index (read)']


def _nested(repo, name):
    from ..inline import inlined
    f = repo.func(SAT, 'solve_cnf')
    g = need(f.nested.get(name), 'solve_cnf: nested function %s not found' % name)
    if id(g.node) not in _read:
        # helpers defined inside the function are part of it
        main = ('unit_propagate', 'analyze_conflict', 'backtrack', 'print_debug', 'resolution')
        _read[id(g.node)] = (g, inlined(g, lambda h: h.parent is not None and h.name not in main)[0])
    return _read[id(g.node)][1]


_read = {}


def rule_x1(repo):
    res = RuleResult('C15.X1', 'every resolution step of conflict analysis is recorded in the certificate with the clause it used, starting from the conflict clause', floor=3)
    f = _nested(repo, 'analyze_conflict')
    cfg = cfg_of(f.node)
    p = f.params()[0]
    # proof = [clause_id] with clause = cnf[clause_id]
    init = [n for n in ast.walk(f.node) if isinstance(n, ast.Assign) and isinstance(n.value, ast.List) and isinstance(n.targets[0], ast.Name)]
    start = [n for n in ast.walk(f.node) if isinstance(n, ast.Assign) and isinstance(n.value, ast.Subscript) and is_name(n.value.value, 'cnf')]
    need(init and start, 'analyze_conflict: initial clause / initial proof not found')
    proof_var = init[0].targets[0].id
    clause_var = start[0].targets[0].id
    ok = len(init[0].value.elts) == 1 and src(init[0].value.elts[0]) == src(start[0].value.slice) == p
    res.add('%s :: solve_cnf.analyze_conflict :: certificate-starts-at-conflict-clause' % SAT, ok,
            '%s = [%s], %s = cnf[%s]' % (proof_var, p, clause_var, p) if ok else
            'the certificate does not start with the id of the clause the analysis starts from', f.loc)
    steps = [n for n in cfg.stmt_nodes(ast.Assign) if isinstance(n.ast.value, ast.Call) and call_name(n.ast.value) == 'resolution' and
             is_name(n.ast.targets[0], clause_var)]
    need(steps, 'analyze_conflict: no resolution step found')
    for s in steps:
        c = s.ast.value
        second = c.args[1] if len(c.args) > 1 else None
        good = isinstance(second, ast.Subscript) and is_name(second.value, 'cnf') and is_name(c.args[0], clause_var)
        cid = src(second.slice) if good else None
        recs = [n for n in cfg.nodes if n.kind == 'stmt' and any(
            call_attr(x) == 'append' and is_name(x.func.value, proof_var) and x.args and src(x.args[0]) == cid
            for x in ast.walk(n.ast) if isinstance(x, ast.Call))]
        # the append is on every path to the step, or on every path from it to the next step / to the end
        before = cfg.path_avoiding(s, skip_nodes=recs) is None
        onward = cfg.reach_from([b for b, _l in s.succ], skip_nodes=recs)
        after = cfg.exit.id not in onward and not any(x.id in onward for x in steps)
        ok = good and bool(recs) and (before or after)
        res.add('%s :: solve_cnf.analyze_conflict :: step(%s) :: recorded' % (SAT, src(c, 50)), ok,
                '%s.append(%s) goes with the step' % (proof_var, cid) if ok else
                'the current clause is resolved with a clause whose id is not appended to the certificate: replaying the certificate gives a '
                'different clause than the one that was learned', '%s:%d' % (SAT, s.lineno))
    # what is returned is the pair (certificate, learned clause)
    rets = [n for n in ast.walk(f.node) if isinstance(n, ast.Return)]
    ok = len(rets) == 1 and isinstance(rets[0].value, ast.Tuple) and [src(e) for e in rets[0].value.elts] == [proof_var, clause_var]
    res.add('%s :: solve_cnf.analyze_conflict :: returns(certificate, clause)' % SAT, ok,
            'return %s, %s' % (proof_var, clause_var) if ok else 'analysis does not return the certificate together with the clause it derives', f.loc)
    return res


def rule_x2(repo):
    res = RuleResult('C15.X2', 'a learned clause is stored at the index under which its certificate is recorded, and unsatisfiability is reported only for a recorded empty clause', floor=3)
    f = _nested(repo, 'backtrack')
    cfg = cfg_of(f.node)
    call = [n for n in cfg.stmt_nodes(ast.Assign) if isinstance(n.ast.value, ast.Call) and call_name(n.ast.value) == 'analyze_conflict' and
            isinstance(n.ast.targets[0], ast.Tuple) and len(n.ast.targets[0].elts) == 2]
    need(call, 'backtrack: `proof, clause = analyze_conflict(..)` not found')
    proof_var, clause_var = [e.id for e in call[0].ast.targets[0].elts]
    idn = [n for n in cfg.stmt_nodes(ast.Assign) if isinstance(n.ast.value, ast.Call) and call_name(n.ast.value) == 'len' and
           n.ast.value.args and is_name(n.ast.value.args[0], 'cnf')]
    app = [n for n in cfg.nodes if n.kind == 'stmt' and any(call_attr(c) == 'append' and is_name(c.func.value, 'cnf') and c.args and
                                                          is_name(c.args[0], clause_var) for c in ast.walk(n.ast) if isinstance(c, ast.Call))]
    rec = [n for n in cfg.stmt_nodes(ast.Assign) if any(isinstance(t, ast.Subscript) and is_name(t.value, 'proofs') for t in n.ast.targets)]
    need(idn and app and rec, 'backtrack: new id / cnf.append / proofs store not found')
    idv = idn[0].ast.targets[0].id
    ok = cfg.path_avoiding(app[0], skip_nodes=[idn[0]]) is None and idn[0].id not in cfg.reach_from([b for b, _l in app[0].succ]) and \
        is_name(rec[0].ast.targets[0].slice, idv) and is_name(rec[0].ast.value, proof_var)
    res.add('%s :: solve_cnf.backtrack :: index-of-learned-clause' % SAT, ok,
            '%s = len(cnf) taken before cnf.append(%s); proofs[%s] = %s' % (idv, clause_var, idv, proof_var) if ok else
            'the certificate is recorded under an index that is not the position of the learned clause: the replay resolves other clauses', f.loc)
    # 'unsatisfiable' only behind len(clause) == 0 and after both stores
    rets = [n for n in cfg.return_nodes() if isinstance(n.ast.value, ast.Constant) and n.ast.value.value == 'unsatisfiable']
    need(rets, "backtrack: return 'unsatisfiable' not found")

    from ..idioms import emptiness_holding

    def empty(e, pol):
        return emptiness_holding(e, pol, clause_var)
    edges = cfg.establishing_edges(empty)
    ok = bool(edges) and all(cfg.path_avoiding(r, skip_edges=edges) is None and cfg.path_avoiding(r, skip_nodes=[rec[0]]) is None and
                             cfg.path_avoiding(r, skip_nodes=[app[0]]) is None for r in rets)
    res.add("%s :: solve_cnf.backtrack :: unsatisfiable-only-for-recorded-empty-clause" % SAT, ok,
            "behind len(%s) == 0, after the clause and its certificate were stored" % clause_var if ok else
            "'unsatisfiable' can be reported for a learned clause that is not empty, or before its certificate is recorded: the last "
            "recorded clause is then not the empty clause", '%s:%d' % (SAT, rets[0].lineno))
    # the verdict handed out with the certificate
    top = repo.func(SAT, 'solve_cnf')
    outs = [n for n in walk_no_nested(top.node, include_root=False) if isinstance(n, ast.Return) and isinstance(n.value, ast.Tuple) and
            isinstance(n.value.elts[0], ast.Constant) and n.value.elts[0].value == 'unsatisfiable']
    ok = bool(outs) and all(is_name(n.value.elts[1], 'proofs') for n in outs)
    res.add("%s :: solve_cnf :: unsatisfiable-with-certificate" % SAT, ok, "returns ('unsatisfiable', proofs)" if ok else
            "'unsatisfiable' is not returned together with the recorded certificates", top.loc)
    return res


def rule_x3(repo):
    res = RuleResult('C15.X3', "unit propagation reports 'satisfiable' only after a pass in which every clause was found satisfied; a clause that is not is never passed over", floor=4)
    f = _nested(repo, 'unit_propagate')
    cfg = cfg_of(f.node)
    sat_rets = [n for n in cfg.return_nodes() if isinstance(n.ast.value, ast.Constant) and n.ast.value.value == 'satisfiable']
    need(sat_rets, "unit_propagate: return 'satisfiable' not found")
    # flags
    flags = {}
    for n in ast.walk(f.node):
        if isinstance(n, ast.Assign) and isinstance(n.targets[0], ast.Name) and isinstance(n.value, ast.Constant) and n.value.value is False:
            flags.setdefault(n.targets[0].id, n)
    unsat_flag = [k for k in flags if 'unsat' in k]
    prop_flag = [k for k in flags if 'propag' in k]
    need(unsat_flag and prop_flag, 'unit_propagate: flags for "some clause unsatisfied" / "a propagation happened" not found')

    def is_false(flag):
        def pred(e, pol):
            return is_name(e, flag) and not pol
        return pred
    for flag, what in ((unsat_flag[0], 'no clause was left unsatisfied'), (prop_flag[0], 'no propagation happened in the pass')):
        edges = cfg.establishing_edges(is_false(flag))
        ok = bool(edges) and all(cfg.path_avoiding(r, skip_edges=edges) is None for r in sat_rets)
        res.add("%s :: solve_cnf.unit_propagate :: satisfiable-needs(not %s)" % (SAT, flag), ok,
                "'satisfiable' only when %s" % what if ok else "'satisfiable' can be returned although not (%s)" % what, '%s:%d' % (SAT, sat_rets[0].lineno))
    # a clause found not satisfied ends the pass (conflict / propagation) or raises the flag
    tests = [n for n in cfg.test_nodes() if is_name(n.ast, 'satisfied')]
    need(tests, 'unit_propagate: `if not satisfied` not found')
    t = tests[-1]
    start = [b for b, l in t.succ if l == 'false']
    raised = [n for n in cfg.stmt_nodes(ast.Assign) if is_name(n.ast.targets[0], unsat_flag[0]) and isinstance(n.ast.value, ast.Constant) and n.ast.value.value is True]
    propd = [n for n in cfg.stmt_nodes(ast.Assign) if is_name(n.ast.targets[0], prop_flag[0]) and isinstance(n.ast.value, ast.Constant) and n.ast.value.value is True]
    loop_heads = [n for n in cfg.nodes_of_kind('iter') if 'cnf' in src(n.ast.iter)]
    need(loop_heads, 'unit_propagate: loop over the clauses not found')
    after = cfg.reach_from(start, skip_nodes=raised + propd)
    ok = bool(raised) and bool(propd) and loop_heads[0].id not in after
    res.add('%s :: solve_cnf.unit_propagate :: unsatisfied-clause-accounted' % SAT, ok,
            'a clause that is not satisfied returns a conflict, propagates, or sets %s' % unsat_flag[0] if ok else
            'the pass can go on to the next clause after a clause that is not satisfied without recording it: '
            "'satisfiable' is then reported with a clause that the assignment does not satisfy", '%s:%d' % (SAT, t.lineno))
    # ... and every clause is looked at: once round the clause loop without the test whether the clause is satisfied means
    # that some clauses are passed over on other grounds ("it is a tautology"); the pass then ends with 'satisfiable' while
    # such a clause has no true literal under the assignment that is handed out
    head = loop_heads[0]
    body = [b for b, l in head.succ if l == 'loop']
    round_ = cfg.reach_from(body, skip_nodes=tests)
    ok = head.id not in round_
    first = sorted((n for n in cfg.nodes if n.id in round_ and n.kind == 'test' and n.lineno >= head.lineno), key=lambda n: n.lineno)
    res.add('%s :: solve_cnf.unit_propagate :: every-clause-examined' % SAT, ok,
            'every pass through the clause loop reaches the test whether the clause is satisfied' if ok else
            'a clause can be passed over without being tested%s: the assignment reported with \'satisfiable\' need not satisfy it '
            '(x | ~x alone is answered satisfiable with the empty assignment)' % (
                ' (line %d: `%s`)' % (first[0].lineno, src(first[0].ast, 40)) if first else ''), '%s:%d' % (SAT, head.lineno))
    return res


def rule_x4(repo):
    res = RuleResult('C15.X4', 'the trail entries (value, is_decision, level, reason clause) are written and read by the same layout, and a propagated literal names the clause that forced it', floor=4)
    f = repo.func(SAT, 'solve_cnf')
    writes = [n for n in ast.walk(f.node) if isinstance(n, ast.Assign) and any(isinstance(t, ast.Subscript) and is_name(t.value, 'assigns') for t in n.targets)]
    need(len(writes) >= 2, 'solve_cnf: fewer than two writes to the trail')
    for w in writes:
        v = w.value
        shape = isinstance(v, ast.Tuple) and len(v.elts) == 4 and isinstance(v.elts[1], ast.Constant) and isinstance(v.elts[1].value, bool)
        decision = shape and v.elts[1].value
        ok = shape and ((decision and isinstance(v.elts[3], ast.Constant) and v.elts[3].value is None) or
                        (not decision and isinstance(v.elts[3], ast.Name)))
        res.add('%s :: solve_cnf :: trail-write(%s)' % (SAT, 'decision' if decision else 'propagation'), ok,
                src(v) if ok else 'a trail entry is not (value, is_decision literal, level, reason): %s' % src(v), '%s:%d' % (SAT, w.lineno))
    # the reason of a propagation is the clause under examination
    up = _nested(repo, 'unit_propagate')
    heads = [n for n in ast.walk(up.node) if isinstance(n, ast.For) and isinstance(n.iter, ast.Call) and call_name(n.iter) == 'enumerate' and
             n.iter.args and is_name(n.iter.args[0], 'cnf')]
    need(heads, 'unit_propagate: `for clause_id, clause in enumerate(cnf)` not found')
    idv = heads[0].target.elts[0].id
    pw = [w for w in writes if isinstance(w.value, ast.Tuple) and len(w.value.elts) == 4 and isinstance(w.value.elts[1], ast.Constant) and w.value.elts[1].value is False]
    ok = bool(pw) and all(is_name(w.value.elts[3], idv) for w in pw)
    res.add('%s :: solve_cnf.unit_propagate :: reason-is-current-clause' % SAT, ok,
            'the reason stored with a propagated literal is %s, the index of the clause being examined' % idv if ok else
            'a propagated literal is stored with another reason than the clause that forced it: conflict analysis resolves with the wrong clause', up.loc)
    # readers
    ac = _nested(repo, 'analyze_conflict')
    unp = [n for n in ast.walk(ac.node) if isinstance(n, ast.Assign) and isinstance(n.targets[0], ast.Tuple) and isinstance(n.value, ast.Subscript) and
           is_name(n.value.value, 'assigns')]
    if unp:
        names = [src(e) for e in unp[0].targets[0].elts]
        ok = len(names) == 4
        if ok:
            dec, reason = names[1], names[3]
            used_dec = any(isinstance(n, ast.If) and dec in {x.id for x in ast.walk(n.test) if isinstance(x, ast.Name)} for n in ast.walk(ac.node))
            used_reason = any(isinstance(c, ast.Call) and call_name(c) == 'resolution' and any(reason in src(a) for a in c.args) for c in ast.walk(ac.node))
            ok = used_dec and used_reason
    else:
        # the entry is kept whole and read by index: entry[1] decides, entry[3] names the clause
        from ..flow import flow_of
        fl = flow_of(ac.node)
        entries = {n.targets[0].id for n in ast.walk(ac.node) if isinstance(n, ast.Assign) and isinstance(n.targets[0], ast.Name) and
                   isinstance(n.value, ast.Subscript) and is_name(n.value.value, 'assigns')}
        direct = [x for x in ast.walk(ac.node) if isinstance(x, ast.Subscript) and isinstance(x.value, ast.Subscript) and is_name(x.value.value, 'assigns')]
        need(entries or direct, 'analyze_conflict: trail entry is not read')

        def is_entry(v):
            # a local that holds the entry, or the entry read in place: assigns[name]
            return (isinstance(v, ast.Name) and v.id in entries) or (isinstance(v, ast.Subscript) and is_name(v.value, 'assigns'))

        def comp(x, k):
            return isinstance(x, ast.Subscript) and is_entry(x.value) and isinstance(x.slice, ast.Constant) and x.slice.value == k
        dec_names = {n.targets[0].id for n in ast.walk(ac.node) if isinstance(n, ast.Assign) and isinstance(n.targets[0], ast.Name) and comp(n.value, 1)}
        used_dec = any(isinstance(n, ast.If) and any(comp(x, 1) or (isinstance(x, ast.Name) and x.id in dec_names) for x in ast.walk(n.test)) for n in ast.walk(ac.node))
        reason_names = {n.targets[0].id for n in ast.walk(ac.node) if isinstance(n, ast.Assign) and isinstance(n.targets[0], ast.Name) and comp(n.value, 3)}
        used_reason = any(isinstance(c, ast.Call) and call_name(c) == 'resolution' and
                          any(comp(x, 3) or (isinstance(x, ast.Name) and x.id in reason_names) for a in c.args for x in ast.walk(a)) for c in ast.walk(ac.node))
        other = [x.slice.value for x in ast.walk(ac.node) if isinstance(x, ast.Subscript) and is_entry(x.value) and
                 isinstance(x.slice, ast.Constant) and x.slice.value not in (0, 1, 2, 3)]
        ok = used_dec and used_reason and not other
    res.add('%s :: solve_cnf.analyze_conflict :: trail-read' % SAT, ok,
            'unpacks four components; the second decides whether to resolve, the fourth names the clause resolved with' if ok else
            'conflict analysis reads the trail entry by a different layout than it is written', ac.loc)
    bt = _nested(repo, 'backtrack')
    lv = [n for n in ast.walk(bt.node) if isinstance(n, ast.Subscript) and isinstance(n.value, ast.Subscript) and is_name(n.value.value, 'assigns') and
          isinstance(n.slice, ast.Constant)]
    ok = bool(lv) and all(n.slice.value == 2 for n in lv)
    res.add('%s :: solve_cnf.backtrack :: level-component' % SAT, ok,
            'levels are read as component 2 (%d reads)' % len(lv) if ok else 'backtracking reads the level from another component of the trail entry', bt.loc)
    return res


def rule_x5(repo):
    res = RuleResult('C15.X5', 'every connective the Tseitin encoding treats as logical has its clause-expansion theorem, and literals are converted with their sign', floor=2)
    m = repo.module(TSEITIN)
    il = repo.func(TSEITIN, 'is_logical')
    kinds = sorted({call_attr(c)[3:] for c in ast.walk(il.node) if isinstance(c, ast.Call) and (call_attr(c) or '').startswith('is_')})
    enc = repo.func(TSEITIN, 'encode')
    ths = []
    for n in ast.walk(enc.node):
        if isinstance(n, ast.Assign) and isinstance(n.value, ast.List) and n.value.elts and all(
                isinstance(e, ast.Constant) and isinstance(e.value, str) and e.value.startswith('encode_') for e in n.value.elts):
            ths = [e.value[len('encode_'):] for e in n.value.elts]
    need(kinds and ths, 'tseitin: is_logical kinds / list of encode_ theorems not found')
    alias = {'implies': 'imp', 'equals': 'eq'}
    want = sorted(alias.get(k, k) for k in kinds)
    ok = want == sorted(ths)
    res.add('%s :: is_logical / encode :: one-expansion-per-connective' % TSEITIN, ok,
            'connectives %s, theorems encode_%s' % (kinds, sorted(ths)) if ok else
            'connectives treated as logical: %s; expansion theorems: %s - a definition x = a <op> b without expansion stays in the result, which is then '
            'not a CNF' % (want, sorted(ths)), enc.loc)
    cl = repo.func(TSEITIN, 'convert_cnf')
    # the literals of the result: pairs (<atom>.name, <sign>) built anywhere in convert_cnf (returned by a local helper or appended in a loop)
    lit = cl.nested.get('convert_literal') or cl
    pairs = [n for n in ast.walk(cl.node) if isinstance(n, ast.Tuple) and len(n.elts) == 2 and isinstance(n.elts[0], ast.Attribute) and n.elts[0].attr == 'name']
    need(pairs, 'convert_cnf: no literal (<atom>.name, <sign>) is built')
    signs = {}
    for r in pairs:
        neg = 'arg' in src(r.elts[0])
        v = r.elts[1].value if isinstance(r.elts[1], ast.Constant) else None
        signs[neg] = v if signs.get(neg, v) == v else None
    ok = signs.get(True) is False and signs.get(False) is True
    res.add('%s :: convert_cnf.convert_literal :: sign' % TSEITIN, ok,
            'a negated atom becomes (name, False), an atom (name, True)' if ok else 'the sign of a converted literal does not follow its negation', lit.loc)
    return res


def rule_x6(repo):
    """A clause forces a literal when exactly one of its *literals* is unassigned and all others are false.
    The collection whose size decides this must hold literals (variable and sign): keyed by variable alone, a
    tautological clause x | ~x | <false literals> counts as a unit clause and forces x, so models are lost and
    satisfiable sets are reported unsatisfiable."""
    res = RuleResult('C15.X6', 'unit propagation counts unassigned literals, not unassigned variables', floor=1)
    f = _nested(repo, 'unit_propagate')
    sized = set()
    for n in ast.walk(f.node):
        cp = compare_parts(n) if isinstance(n, ast.Compare) else None
        if cp and isinstance(cp[1], ast.Call) and call_name(cp[1]) == 'len' and cp[1].args and isinstance(cp[1].args[0], ast.Name) and \
                isinstance(cp[2], ast.Constant) and cp[2].value in (0, 1):
            sized.add(cp[1].args[0].id)
    need(sized, 'unit_propagate: no test `len(<unassigned>) == 0 / 1`')
    loops = [n for n in ast.walk(f.node) if isinstance(n, ast.For) and isinstance(n.target, ast.Name) and is_name(n.iter, 'clause')]
    need(loops, 'unit_propagate: `for lit in clause` not found')
    lit = loops[0].target.id
    parts = set()
    for n in ast.walk(loops[0]):
        if isinstance(n, ast.Assign) and isinstance(n.targets[0], ast.Tuple) and is_name(n.value, lit):
            parts = {e.id for e in n.targets[0].elts if isinstance(e, ast.Name)}
    for c in sorted(sized):
        fills, bad = [], []
        for n in ast.walk(f.node):
            if isinstance(n, ast.Call) and isinstance(n.func, ast.Attribute) and is_name(n.func.value, c) and n.func.attr in ('append', 'add', 'setdefault', 'update', 'insert'):
                fills.append(n)
                whole = len(n.args) == 1 and (is_name(n.args[0], lit) or (isinstance(n.args[0], ast.Tuple) and
                                                                           {getattr(e, 'id', None) for e in n.args[0].elts} == parts and len(parts) == 2))
                if n.func.attr in ('setdefault', 'update') or not whole:
                    bad.append(n)
            if isinstance(n, ast.Assign) and isinstance(n.targets[0], ast.Subscript) and is_name(n.targets[0].value, c):
                fills.append(n)
                bad.append(n)
        need(fills, 'unit_propagate: nothing is added to `%s`' % c)
        res.add('%s :: solve_cnf.unit_propagate :: counts-literals(%s)' % (SAT, c), not bad,
                'every unassigned literal is added as a whole' if not bad else
                '`%s` files the unassigned literals under the variable name: x and ~x become one entry, and the tautological clause '
                'x | ~x | (false literals) is taken for a unit clause' % src(bad[0], 50), '%s:%d' % (SAT, fills[0].lineno))
    return res


def rule_x7(repo):
    """Conflict analysis returns the conflict clause itself when no literal of it was propagated, and
    backtracking decides by `len(clause)`.  A clause is a set of literals: if a repeated literal counts twice,
    the learned clause [~a, ~a] is not recognised as a unit clause, nothing is undone, and the solver runs for
    ever on [[~a, ~a]] (Tseitin produces such clauses).  Every clause whose length is examined must come out of
    a step that removes repeated literals: resolution(), or a normalisation of the input at entry."""
    res = RuleResult('C15.X7', 'the clauses whose length decides backtracking are free of repeated literals', floor=1)
    f = repo.func(SAT, 'solve_cnf')

    def dedups(e):
        """expression builds a duplicate-free list: list(set(..)), list(dict.fromkeys(..)), sorted(set(..))"""
        for c in ast.walk(e):
            if isinstance(c, ast.Call) and (call_name(c) in ('set', 'dict.fromkeys', 'frozenset') or call_attr(c) == 'fromkeys'):
                return True
        return False
    # resolution() itself
    rs = repo.func(SAT, 'resolution')
    rets = [r for r in ast.walk(rs.node) if isinstance(r, ast.Return)]
    res_ok = bool(rets) and all(dedups(r.value) for r in rets)
    # normalisation of the input: `cnf = [<dedup>(clause) for clause in cnf]` before the nested functions are used
    def per_clause_dedup(v):
        # a duplicate-removing call applied to the variable of a comprehension that runs over the argument
        tgts = {g.target.id for c in ast.walk(v) if isinstance(c, (ast.ListComp, ast.GeneratorExp)) for g in c.generators
                if isinstance(g.target, ast.Name) and is_name(g.iter, 'cnf')}
        return any(isinstance(c, ast.Call) and c.args and isinstance(c.args[0], ast.Name) and c.args[0].id in tgts and dedups(c)
                   for c in ast.walk(v))
    entry = [n for n in walk_no_nested(f.node, include_root=False) if isinstance(n, ast.Assign) and is_name(n.targets[0], 'cnf') and
             isinstance(n.value, (ast.ListComp, ast.GeneratorExp)) and (dedups(n.value.elt) or per_clause_dedup(n.value))]
    ac = _nested(repo, 'analyze_conflict')
    raw = [n for n in ast.walk(ac.node) if isinstance(n, ast.Assign) and isinstance(n.value, ast.Subscript) and is_name(n.value.value, 'cnf')]
    local = [n for n in ast.walk(ac.node) if isinstance(n, ast.Assign) and dedups(n.value) and raw and is_name(n.targets[0], raw[0].targets[0].id)]
    ok = res_ok and (bool(entry) or bool(local) or not raw)
    res.add('%s :: solve_cnf :: learned-clause-has-distinct-literals' % SAT, ok,
            'resolution() removes repeated literals and the input clauses are normalised at entry' if ok else
            ('resolution() does not remove repeated literals' if not res_ok else
             'analyze_conflict can return an input clause as it was given (`%s`) and the input is not normalised: with a repeated literal the '
             'length test of backtrack misjudges the learned clause and the solver does not terminate on [[~a, ~a]]' % src(raw[0], 40)), f.loc)
    return res


def rule_x8(repo):
    """The certificate names clauses by their position: 0 .. n-1 are the caller's clauses in the caller's
    order, learned clauses follow.  The consumer (prover/proofrec.solve_cnf) replays it against its own copy of
    the input.  The working list of the solver must therefore be a position-preserving image of the argument -
    a copy, or a clause-by-clause map without filter - and afterwards only grow at the end."""
    res = RuleResult('C15.X8', 'the working clause list keeps the caller\'s clauses at the caller\'s positions; it only grows at the end', floor=2)
    f = repo.func(SAT, 'solve_cnf')
    p = f.params()[0]
    assigns = [n for n in walk_no_nested(f.node, include_root=False) if isinstance(n, ast.Assign) and any(is_name(t, p) for t in n.targets)]

    def preserving(e):
        if is_name(e, p):
            return True
        if isinstance(e, ast.Call) and (call_name(e) in ('copy', 'list', 'deepcopy', 'copy.copy', 'copy.deepcopy') or call_attr(e) in ('copy', 'deepcopy')) \
                and len(e.args) == 1 and not e.keywords:
            return preserving(e.args[0])
        if isinstance(e, ast.Call) and call_attr(e) == 'copy' and not e.args:
            return preserving(e.func.value)
        if isinstance(e, ast.Subscript) and isinstance(e.slice, ast.Slice) and e.slice.lower is None and e.slice.upper is None and e.slice.step is None:
            return preserving(e.value)
        if isinstance(e, ast.ListComp) and len(e.generators) == 1 and not e.generators[0].ifs and preserving(e.generators[0].iter):
            return True
        return False
    bad = [a for a in assigns if not preserving(a.value)]
    res.add('%s :: solve_cnf :: working-list-is-positional-image' % SAT, not bad,
            'copy / clause-by-clause map of the argument (%d assignment(s))' % len(assigns) if not bad else
            '`%s` can drop, merge or reorder clauses: the ids of the trace no longer refer to the clauses of the caller, and the replay in '
            'proofrec.solve_cnf resolves the wrong clauses' % src(bad[0], 80), '%s:%d' % (SAT, bad[0].lineno if bad else f.node.lineno))
    shrink = []
    for n in ast.walk(f.node):
        if isinstance(n, ast.Call) and call_attr(n) in ('remove', 'pop', 'insert', 'sort', 'reverse', 'clear') and is_name(n.func.value, p):
            shrink.append(n)
        if isinstance(n, ast.Delete) and any(isinstance(t, ast.Subscript) and is_name(t.value, p) for t in n.targets):
            shrink.append(n)
        if isinstance(n, ast.Assign) and any(isinstance(t, ast.Subscript) and is_name(t.value, p) for t in n.targets):
            shrink.append(n)
    res.add('%s :: solve_cnf :: append-only' % SAT, not shrink,
            'the list is only appended to' if not shrink else
            '`%s` changes the position (or content) of recorded clauses' % src(shrink[0], 60), '%s:%d' % (SAT, shrink[0].lineno if shrink else f.node.lineno))
    return res


def rule_x9(repo):
    """The learned clause is a resolvent of named clauses, nothing else: in conflict analysis the clause
    under construction starts as the conflict clause and changes only through resolution(clause, cnf[id], atom) - each
    of which is recorded (X1).  A literal removed in any other way ("false at level 0 anyway") is still in the clause
    that the recorded steps derive, and the replayed trace does not end in the empty clause."""
    res = RuleResult('C15.X9', 'the clause under construction in conflict analysis changes only by resolution with a named clause', floor=2)
    f = _nested(repo, 'analyze_conflict')
    rets = [r for r in ast.walk(f.node) if isinstance(r, ast.Return) and r.value is not None]
    need(rets, 'analyze_conflict: no result')
    # the variable that is returned as the learned clause
    names = set()
    for r in rets:
        v = r.value
        for x in (v.elts if isinstance(v, ast.Tuple) else [v]):
            if isinstance(x, ast.Name):
                names.add(x.id)
    clause_vars = [nm for nm in names if any(isinstance(a, ast.Assign) and is_name(a.targets[0], nm) and isinstance(a.value, ast.Call) and
                                             call_name(a.value) == 'resolution' for a in ast.walk(f.node))]
    need(clause_vars, 'analyze_conflict: the clause under construction was not identified')
    cv = clause_vars[0]
    for a in ast.walk(f.node):
        targets = []
        if isinstance(a, ast.Assign):
            targets = [t for t in a.targets for t in ([t] if not isinstance(t, (ast.Tuple, ast.List)) else t.elts)]
        elif isinstance(a, ast.AugAssign):
            targets = [a.target]
        if not any(is_name(t, cv) for t in targets):
            continue
        v = a.value
        start = isinstance(v, ast.Subscript) and is_name(v.value, 'cnf')
        step = isinstance(v, ast.Call) and call_name(v) == 'resolution' and v.args and is_name(v.args[0], cv) and \
            len(v.args) >= 2 and isinstance(v.args[1], ast.Subscript) and is_name(v.args[1].value, 'cnf')
        res.add('%s :: solve_cnf.analyze_conflict :: %s = %s' % (SAT, cv, src(v, 40)), start or step,
                ('the conflict clause' if start else 'resolution with a named clause') if start or step else
                'line %d changes the clause by `%s`: what is learned is no longer what the recorded resolution steps derive, and the certificate '
                'replays to a non-empty clause' % (a.lineno, src(v, 50)), '%s:%d' % (SAT, a.lineno))
    mut = [c for c in ast.walk(f.node) if isinstance(c, ast.Call) and call_attr(c) in ('remove', 'pop', 'append', 'extend', 'clear', 'insert') and is_name(c.func.value, cv)]
    for c in mut:
        res.add('%s :: solve_cnf.analyze_conflict :: %s' % (SAT, src(c, 40)), False,
                'line %d changes the clause in place (`%s`)' % (c.lineno, src(c, 40)), '%s:%d' % (SAT, c.lineno))
    return res


def rule_x10(repo):
    """The Tseitin encoding introduces one auxiliary variable per subformula.  Equisatisfiability needs them
    to be *new*: a name made up by the encoder (a prefix and a counter) must go through the fresh-name generator
    with the names of the formula's own variables - an atom that happens to be called x1 is otherwise identified with
    the auxiliary variable x1, and a satisfiable formula gets an unsatisfiable CNF."""
    res = RuleResult('C15.X10', 'the auxiliary variables of the Tseitin encoding are named apart from the variables of the formula', floor=1)
    f = repo.func(TSEITIN, 'encode')
    from ..flow import flow_of
    flow = flow_of(f.node)
    p = f.params()[0]
    made = [c for c in ast.walk(f.node) if isinstance(c, ast.Call) and call_name(c) == 'Var' and c.args]
    need(made, 'tseitin.encode: creation of the auxiliary variables not found')
    for c in made:
        nm = c.args[0]
        closure_exprs = [nm]
        if isinstance(nm, ast.Name):
            closure_exprs += [v for _k, v in flow.defs.get(nm.id, [])]
        fresh = [x for e in closure_exprs for x in ast.walk(e) if isinstance(x, ast.Call) and (call_name(x) or '').split('.')[-1] in ('get_variant_name', 'get_variant_names')]
        ok = False
        why = 'the name `%s` is made up without the fresh-name generator' % src(nm, 30)
        if fresh:
            avoid = fresh[0].args[1] if len(fresh[0].args) > 1 else None
            names = flow.names_closure(avoid) if avoid is not None else set()
            # the avoid list comes from the variables of the formula
            from_formula = False
            for nm2 in names | ({avoid.id} if isinstance(avoid, ast.Name) else set()):
                for _k, v in flow.defs.get(nm2, []):
                    if any(isinstance(x, ast.Call) and call_attr(x) == 'get_vars' and p in src(x, 80) for x in ast.walk(v)) or \
                            any(isinstance(x, ast.Call) and (call_name(x) or '').endswith('get_vars') and p in src(x, 80) for x in ast.walk(v)):
                        from_formula = True
            ok = from_formula
            why = 'the fresh-name generator is not given the names of the variables of `%s`' % p
        res.add('%s :: encode :: auxiliary-variable(%s)' % (TSEITIN, src(nm, 25)), ok,
                'chosen by the fresh-name generator against the variables of the formula' if ok else
                why + ': for a & ~x1 the atom x1 and the auxiliary x1 are one variable, and the CNF is unsatisfiable although the formula is not',
                '%s:%d' % (TSEITIN, c.lineno))
    return res


def rule_x11(repo):
    """backtrack answers the level the search continues at, and the main loop sets its level counter from that answer.
    The trail must then hold nothing from a higher level: the assignments that are removed are exactly those whose level
    is greater than the level that is returned.  Removing less (the current level only) leaves decisions on the trail
    above the counter; later propagations get a level below the decisions they depend on, and the next conflict undoes the
    decisions but keeps their consequences - the solver gives no verdict or a wrong one."""
    from ..astutil import comparison_holding
    res = RuleResult('C15.X11', 'backtracking removes every assignment above the level it reports', floor=1)
    f = _nested(repo, 'backtrack')
    cfg = cfg_of(f.node)
    rets = {r.ast.value.id for r in cfg.return_nodes() if isinstance(r.ast.value, ast.Name)}
    need(len(rets) == 1, 'backtrack: the level is not returned through one name')
    lvl = next(iter(rets))
    dels = [n for n in cfg.nodes if n.kind == 'stmt' and isinstance(n.ast, ast.Delete) and any(
        isinstance(t, ast.Subscript) and is_name(t.value, 'assigns') for t in n.ast.targets)]
    need(dels, 'backtrack: removal of assignments (`del assigns[..]`) not found')

    def is_level(a):
        # assigns[..][2], or a helper defined here that returns just that
        if isinstance(a, ast.Subscript) and isinstance(a.value, ast.Subscript) and is_name(a.value.value, 'assigns'):
            return True
        if isinstance(a, ast.Call) and isinstance(a.func, ast.Name):
            for h in ast.walk(f.node):
                if isinstance(h, ast.FunctionDef) and h.name == a.func.id and h is not f.node:
                    rs = [r for r in ast.walk(h) if isinstance(r, ast.Return)]
                    return len(rs) == 1 and rs[0].value is not None and is_level(rs[0].value)
        return False

    def above(e, pol):
        # <level of the assignment> > lvl   (or >= lvl + 1)
        for op, a, b in comparison_holding(e, pol):
            lev = is_level(a)
            if lev and op is ast.Gt and is_name(b, lvl):
                return True
            if lev and op is ast.GtE and isinstance(b, ast.BinOp) and isinstance(b.op, ast.Add) and is_name(b.left, lvl) and \
                    isinstance(b.right, ast.Constant) and b.right.value == 1:
                return True
        return False

    e_yes = cfg.establishing_edges(above)
    from ..flow import flow_of
    flow = flow_of(f.node)
    for d in dels:
        guarded = bool(e_yes) and cfg.path_avoiding(d, skip_edges=e_yes) is None
        if not guarded:
            # the names to remove selected beforehand: for name in [n for n in assigns if <level of n> > lvl]: del assigns[name]
            for lp in ast.walk(f.node):
                if isinstance(lp, ast.For) and any(x is d.ast for st in lp.body for x in ast.walk(st)):
                    it = flow.inline(lp.iter)
                    while isinstance(it, ast.Call) and isinstance(it.func, ast.Name) and it.func.id in ('list', 'tuple', 'sorted') and it.args:
                        it = it.args[0]
                    if isinstance(it, (ast.ListComp, ast.GeneratorExp, ast.SetComp)) and len(it.generators) == 1 and len(it.generators[0].ifs) == 1 and \
                            above(it.generators[0].ifs[0], True):
                        guarded = True
        exact = True
        res.add('%s :: solve_cnf.backtrack :: removes-above(%s)' % (SAT, lvl), guarded and exact,
                'an assignment is removed exactly when its level is greater than %s' % lvl if guarded and exact else
                '`%s` is not guarded by `assigns[..][2] > %s`, the level that is returned: decisions above the reported level stay on the trail '
                'while the level counter drops below them' % (src(d.ast, 30), lvl), '%s:%d' % (SAT, d.lineno))
    return res

def rule_x12(repo):
    """The encoding gives every sub-formula a variable, x = <sub-formula> - as a clause set when the sub-formula is built
    with a connective, as a mere assumption when it is an atom (an atom can be true or false: nothing to say).  The
    constants `true` and `false` are not built with a connective and are not atoms either: they have a fixed value, and
    the CNF is equisatisfiable with the formula only if that value is stated - the unit clause x for x = true, ~x for
    x = false.  So where `encode` turns the equations into conjuncts there is a case for each of the two constants that
    ends, like the case of the connectives, in a conjunct.  (Without it the CNF of `false` is the satisfiable {x1}.)"""
    res = RuleResult('C15.X12', 'the definitions x = true and x = false of the Tseitin encoding become the unit clauses x and ~x', floor=2)
    enc = repo.func(TSEITIN, 'encode')
    cfg = cfg_of(enc.node)
    conj = [n for n in cfg.nodes if n.kind == 'stmt' and isinstance(n.ast, ast.Assign) and any(
        isinstance(c, ast.Call) and (call_name(c) or '').endswith('apply_theorem') and c.args and isinstance(c.args[0], ast.Constant) and c.args[0].value == 'conjI'
        for c in ast.walk(n.ast.value))]
    need(conj, 'encode: no conjunct is added (apply_theorem(\'conjI\', ..))')
    for const in ('true', 'false'):
        def is_const(e, pol, const=const):
            cp = compare_parts(e)
            return bool(cp) and pol and cp[0] is ast.Eq and (is_name(cp[2], const) or is_name(cp[1], const))
        edges = cfg.establishing_edges(is_const)
        ok = False
        byid = {x.id: x for x in cfg.nodes}
        for (nid, lab) in edges:
            starts = [b for b, l in byid[nid].succ if l == lab]
            r = cfg.reach_from(starts, skip_nodes=[n for n in cfg.nodes if n.kind == 'iter'])
            if any(c.id in r for c in conj):
                ok = True
        res.add('%s :: encode :: constant(%s)' % (TSEITIN, const), ok,
                'a definition x = %s adds a conjunct' % const if ok else
                'no case for a definition x = %s: the constant is encoded like an atom that may take either value, and the CNF of an unsatisfiable '
                'formula (false, a & false, ~true) is satisfiable' % const, enc.loc)
    return res


def rules(repo):
    return [rule_x1(repo), rule_x2(repo), rule_x3(repo), rule_x4(repo), rule_x5(repo), rule_x6(repo), rule_x7(repo), rule_x8(repo), rule_x9(repo), rule_x10(repo), rule_x11(repo), rule_x12(repo)]
