"""C19 - integration calculator: printer priorities and parser ladder agree on the binary operators."""
import ast

from ..core import RuleResult, need
from ..astutil import src, compare_parts, is_name, path_of, call_attr, call_name
from ..grammar import Ladder, grammar_text
from ..tables import fold

EXPR = 'integral/expr.py'
IPARSER = 'integral/parser.py'

NOT_DECIDED = ('value preservation of the calculation rules, normalisation, differentiation, limits, interval bounds '
               '(numerical); round trip of the non-operator constructs (integrals, limits, function calls)')
ASSUMPTIONS = ['nested comparisons (a = b) = c are not well-formed calculator expressions']


def _op_priority(repo):
    m = repo.module(EXPR)
    for n in m.tree.body:
        if isinstance(n, ast.Assign) and any(is_name(t, 'op_priority') for t in n.targets):
            return fold(n.value, {}), n.lineno
    need(False, 'integral/expr.py: op_priority table not found')


def rule_e1(repo):
    res = RuleResult('C19.E1', 'operator priorities of the printer and levels of the parser ladder are order-isomorphic; equal priorities share a left-recursive level', floor=11)
    prio, line = _op_priority(repo)
    lad = Ladder(grammar_text(repo.module(IPARSER)), 'expr')
    prods = {}
    for p, l, tok, r in lad.binary_productions():
        prods.setdefault(tok, []).append((p, l, r))
    ops = sorted(prio)
    for op in ops:
        ok = op in prods
        res.add('%s :: op_priority[%s] :: has-production' % (EXPR, op), ok,
                'parsed at level %s' % prods[op][0][0].origin if ok else 'the printer writes infix %r but the grammar has no production for it' % op,
                '%s:%d' % (EXPR, line), nontrivial=False)
    for tok in prods:
        if tok not in prio:
            res.add('%s :: production(%s) :: has-priority' % (IPARSER, tok), False,
                    'the grammar parses infix %r but op_priority has no entry: Op.__str__ cannot print it' % tok, '%s:1' % IPARSER)
    lev = {op: lad.level[prods[op][0][0].origin] for op in ops if op in prods}
    for i, a in enumerate(ops):
        for b in ops[i + 1:]:
            if a not in lev or b not in lev:
                continue
            pa, pb = prio[a], prio[b]
            la, lb = lev[a], lev[b]
            ok = (pa > pb) == (la < lb) and (pa == pb) == (la == lb)
            res.add('%s :: order(%s,%s)' % (EXPR, a, b), ok,
                    'priority %d/%d, level %d/%d' % (pa, pb, la, lb) if ok else
                    'printer priority %s=%d, %s=%d but grammar levels %d, %d (lower is tighter): the printer omits or adds brackets '
                    'the parser reads differently' % (a, pa, b, pb, la, lb), '%s:%d' % (EXPR, line))
    # recursion side of each level
    for op in ops:
        if op not in prods:
            continue
        p, l, r = prods[op][0]
        if l == p.origin and r != p.origin:
            ok, why = True, 'left-recursive'
        elif l != p.origin and r != p.origin:
            ok, why = True, 'not recursive (operands one level tighter)'
        else:
            ok, why = False, 'production %s -> %s %s %s nests to the right, the printer brackets right operands of equal priority' % (p.origin, l, op, r)
        res.add('%s :: recursion(%s)' % (IPARSER, op), ok, why, '%s:1' % IPARSER)
    return res


def rule_e2(repo):
    res = RuleResult('C19.E2', 'Op.__str__ brackets a right operand of equal priority and a left operand of lower priority', floor=2)
    f = repo.func(EXPR, 'Op.__str__')
    from ..flow import flow_of
    fl = flow_of(f.node)
    found = {}
    for n in ast.walk(f.node):
        if isinstance(n, ast.If) and len(n.body) == 1 and isinstance(n.body[0], ast.Assign) and isinstance(n.body[0].targets[0], ast.Name):
            cp = compare_parts(fl.inline(n.test))
            if cp and isinstance(cp[1], ast.Call) and call_attr(cp[1]) == 'priority' and isinstance(cp[1].func.value, ast.Name) and \
                    isinstance(cp[2], ast.Subscript) and is_name(cp[2].value, 'op_priority'):
                found[(cp[1].func.value.id, n.body[0].targets[0].id)] = cp[0]
    # first operand: a / s1, second: b / s2
    left = [op for (v, s), op in found.items() if s == 's1']
    right = [op for (v, s), op in found.items() if s == 's2']
    need(left and right, 'Op.__str__: bracket tests on the operands not found')
    ok = any(op in (ast.Lt, ast.LtE) for op in left)
    res.add('%s :: Op.__str__ :: left-operand' % EXPR, ok, 'bracketed when its priority is lower' if ok else
            'left operand of lower priority is not bracketed', f.loc)
    ok = any(op is ast.LtE for op in right)
    res.add('%s :: Op.__str__ :: right-operand' % EXPR, ok, 'bracketed when its priority is lower or equal' if ok else
            'a right operand of equal priority is printed without brackets: a - (b - c) prints as a - b - c, which parses as (a - b) - c', f.loc)
    return res


def rule_e3(repo):
    """A constant that is a proper fraction is printed as `n/d`: its text contains the operator `/`, so for
    bracket decisions it must count as a quotient, whatever its sign."""
    from ..cfg import cfg_of
    res = RuleResult('C19.E3', 'a fraction constant has the printing priority of the division it is printed with', floor=1)
    f = repo.func(EXPR, 'Expr.priority')
    cfg = cfg_of(f.node)
    prio, _line = _op_priority(repo)
    # tests that establish "proper fraction": isinstance(self.val, Fraction) and denominator != 1
    frac_tests = [n for n in cfg.test_nodes() if (isinstance(n.ast, ast.Call) and is_name(n.ast.func, 'isinstance') and
                                                  'Fraction' in src(n.ast)) or 'denominator' in src(n.ast)]
    need(frac_tests, 'Expr.priority: test for fraction constants not found')
    const_tests = [n for n in cfg.test_nodes() if 'CONST' in src(n.ast) and 'ty' in src(n.ast)]
    need(const_tests, 'Expr.priority: branch for constants not found')
    starts = [b for b, l in const_tests[0].succ if l == 'true']
    # returns reachable in the constant branch while the value may still be a proper fraction
    maybe_frac = cfg.reach_from(starts, skip_edges={(n.id, 'false') for n in frac_tests})
    other_kind_tests = [n for n in cfg.test_nodes() if n is not const_tests[0] and 'ty' in src(n.ast) and n.id in cfg.reach_from([b for b, l in const_tests[0].succ if l == 'false'])]
    bad = []
    n_rets = 0
    for r in cfg.return_nodes():
        if r.id not in maybe_frac or r.ast.value is None:
            continue
        # only returns of the constant branch
        if any(r.id in cfg.reach_from([b for b, l in t.succ if l == 'true']) for t in other_kind_tests):
            continue
        n_rets += 1
        v = r.ast.value
        if isinstance(v, ast.Subscript) and is_name(v.value, 'op_priority') and isinstance(v.slice, ast.Constant):
            val = prio.get(v.slice.value)
        elif isinstance(v, ast.Constant):
            val = v.value
        else:
            val = None
        if val is None or val > prio['/']:
            bad.append('line %d returns %s' % (r.lineno, src(v)))
    res.add('%s :: Expr.priority :: fraction-constant' % EXPR, n_rets > 0 and not bad,
            'a constant that may be a proper fraction never gets a priority above that of `/` (%d)' % prio['/'] if n_rets and not bad else
            'a constant that is a proper fraction can get a priority above `/` (%s): y / (-1/2) prints as y / -1/2, which parses as '
            '(y / -1) / 2' % '; '.join(bad), f.loc)
    return res


def rule_e4(repo):
    """Side conditions of an identity are checked one by one with a flag that starts True.  The flag must
    be monotone: inside the loop it may only be lowered (set to False, or and-ed), never overwritten by
    the verdict on the current condition alone - otherwise only the last condition decides."""
    from ..astutil import walk_no_nested
    res = RuleResult('C19.E4', 'a flag that collects "all side conditions hold" over a loop is only ever lowered inside the loop', floor=2)
    for m in repo.source_modules():
        if not m.rel.startswith('integral/') or '/tests/' in m.rel:
            continue
        for f in m.all_funcs:
            nodes = list(walk_no_nested(f.node, include_root=False))
            for loop in nodes:
                if not isinstance(loop, ast.For):
                    continue
                assigned = {}
                for st in loop.body:
                    for n in ast.walk(st):
                        if isinstance(n, ast.Assign) and len(n.targets) == 1 and isinstance(n.targets[0], ast.Name):
                            assigned.setdefault(n.targets[0].id, []).append(n)
                        if isinstance(n, ast.AugAssign) and isinstance(n.target, ast.Name):
                            assigned.setdefault(n.target.id, []).append(n)
                for name, asg in sorted(assigned.items()):
                    inits = [n for n in nodes if isinstance(n, ast.Assign) and len(n.targets) == 1 and is_name(n.targets[0], name) and
                             isinstance(n.value, ast.Constant) and n.value.value is True and n.lineno < loop.lineno]
                    if not inits:
                        continue
                    bad = []
                    for a in asg:
                        if isinstance(a, ast.AugAssign):
                            if not isinstance(a.op, ast.BitAnd):
                                bad.append(a)
                            continue
                        v = a.value
                        lowered = (isinstance(v, ast.Constant) and v.value is False) or \
                            (isinstance(v, ast.BoolOp) and isinstance(v.op, ast.And) and any(is_name(x, name) for x in v.values))
                        if lowered:
                            continue
                        # an overwrite is harmless when the loop is left at once on a negative verdict
                        leaves = any(isinstance(st, ast.If) and name in {x.id for x in ast.walk(st.test) if isinstance(x, ast.Name)} and
                                     any(isinstance(y, (ast.Break, ast.Return, ast.Raise)) for y in ast.walk(st)) for st in loop.body)
                        if not leaves:
                            bad.append(a)
                    res.add('%s :: %s :: all-conditions(%s over %s)' % (m.rel, f.qualname, name, src(loop.iter, 40)), not bad,
                            'the flag is only lowered' if not bad else
                            '`%s` overwrites the verdicts on the earlier elements: only the last condition decides whether the identity is applied' %
                            src(bad[0], 60), '%s:%d' % (m.rel, loop.lineno))
    return res


def rule_e5(repo):
    """D x. e, INT x:[a,b]. e, DIFF. e and LIM {x -> a}. e end in an open expression: as an operand without
    brackets they swallow what follows.  Op.__str__ brackets an operand by comparing priorities (E2), so these
    kinds must have a printing priority below every operator."""
    res = RuleResult('C19.E5', 'constructs whose text ends in an open expression have a printing priority below every operator', floor=4)
    lad = Ladder(grammar_text(repo.module(IPARSER)), 'expr')
    tr = repo.cls(IPARSER, 'ExprTransformer')
    prio, _l = _op_priority(repo)
    # class -> kind tag
    kind_of = {}
    for c in repo.module(EXPR).classes.values():
        init = c.methods.get('__init__')
        if init is None:
            continue
        for n in ast.walk(init.node):
            if isinstance(n, ast.Assign) and path_of(n.targets[0]) == 'self.ty' and isinstance(n.value, ast.Name):
                kind_of[c.name] = n.value.id
    # kind tag -> priority returned by Expr.priority
    pr = repo.func(EXPR, 'Expr.priority')
    kind_prio = {}
    for n in ast.walk(pr.node):
        if isinstance(n, ast.If):
            cp = compare_parts(n.test)
            if cp and path_of(cp[1]) == 'self.ty' and len(n.body) == 1 and isinstance(n.body[0], ast.Return) and isinstance(n.body[0].value, ast.Constant):
                kinds = [e.id for e in cp[2].elts] if isinstance(cp[2], (ast.Tuple, ast.List)) else ([cp[2].id] if isinstance(cp[2], ast.Name) else [])
                for k in kinds:
                    kind_prio[k] = n.body[0].value.value
    lowest = min(list(prio.values()) + [80])
    seen = set()
    for p in lad.productions:
        if not (p.symbols and not p.symbols[-1][1] and p.symbols[-1][0] == 'expr' and p.symbols[0][1] and
                (lad.token(p.symbols[0][0]) or '').isupper() and p.alias in tr.methods):
            continue
        for r in ast.walk(tr.methods[p.alias].node):
            if isinstance(r, ast.Return) and isinstance(r.value, ast.Call) and (call_name(r.value) or '').startswith('expr.'):
                cls = call_name(r.value).split('.')[-1]
                if cls in seen:
                    continue
                seen.add(cls)
                k = kind_of.get(cls)
                q = kind_prio.get(k)
                ok = q is not None and q < lowest
                res.add('%s :: Expr.priority :: open-construct(%s)' % (EXPR, cls), ok,
                        'priority %s, below every operator (%d)' % (q, lowest) if ok else
                        '`%s ...` ends in an open expression but has printing priority %s (lowest operator: %d): as an operand it is not bracketed and '
                        'what follows is read into its body ((INT x:[0,1]. x) + 1 would print as INT x:[0,1]. x + 1)' % (lad.token(p.symbols[0][0]), q, lowest),
                        pr.loc)
    return res


def _selection_table(f):
    """For a function of the shape  cmp = asymp_compare(a, b); if cmp == X [or cmp == Y]: return a / b / Unknown()
    give {comparison outcome: 'a' | 'b' | 'unknown'} - the outcomes are a finite enumeration, the table is the
    whole behaviour of the function on comparable arguments."""
    ps = f.params()
    cmpv = [n.targets[0].id for n in ast.walk(f.node) if isinstance(n, ast.Assign) and isinstance(n.value, ast.Call) and
            call_name(n.value) == 'asymp_compare' and [path_of(x) for x in n.value.args] == ps[:2] and isinstance(n.targets[0], ast.Name)]
    need(cmpv, '%s: `cmp = asymp_compare(a, b)` not found' % f.qualname)
    chain = [n for n in f.node.body if isinstance(n, ast.If) and any(is_name(x, cmpv[0]) for x in ast.walk(n.test))]
    need(chain, '%s: case distinction on the comparison not found' % f.qualname)

    def holds(test, outcome):
        if isinstance(test, ast.BoolOp):
            vals = [holds(v, outcome) for v in test.values]
            return any(vals) if isinstance(test.op, ast.Or) else all(vals)
        cp = compare_parts(test)
        need(cp and is_name(cp[1], cmpv[0]) and isinstance(cp[2], ast.Name) and cp[0] in (ast.Eq, ast.NotEq),
             '%s: test `%s` on the comparison not recognised' % (f.qualname, src(test, 40)))
        return (cp[2].id == outcome) == (cp[0] is ast.Eq)

    def result(body):
        need(len(body) == 1 and isinstance(body[0], ast.Return), '%s: a case does not return directly' % f.qualname)
        v = body[0].value
        if isinstance(v, ast.Name) and v.id in ps[:2]:
            return 'ab'[ps.index(v.id)]
        need(isinstance(v, ast.Call) and call_name(v) == 'Unknown', '%s: result `%s` not recognised' % (f.qualname, src(v, 30)))
        return 'unknown'
    table = {}
    for outcome in ('LESS', 'GREATER', 'EQUAL', 'UNKNOWN'):
        node = chain[0]
        while True:
            if holds(node.test, outcome):
                table[outcome] = result(node.body)
                break
            if len(node.orelse) == 1 and isinstance(node.orelse[0], ast.If):
                node = node.orelse[0]
                continue
            table[outcome] = result(node.orelse)
            break
    return table


def rule_e6(repo):
    """The growth of a sum is the growth of its fastest term; the decay of a sum of decaying terms
    (1/a + 1/b) is that of the *slowest* one, i.e. of the smaller asymptote.  Both functions select by the outcome of
    asymp_compare, a four-valued enumeration - their whole behaviour is a table, read off the code."""
    res = RuleResult('C19.E6', 'a sum of growing terms takes the greater asymptote, a sum of decaying terms the smaller one', floor=2)
    want = {'asymp_add': {'LESS': {'b'}, 'GREATER': {'a'}, 'EQUAL': {'a', 'b'}, 'UNKNOWN': {'unknown'}},
            'asymp_add_inv': {'LESS': {'a'}, 'GREATER': {'b'}, 'EQUAL': {'a', 'b'}, 'UNKNOWN': {'unknown'}}}
    for name, w in want.items():
        f = repo.func('integral/limits.py', name)
        t = _selection_table(f)
        bad = ['for %s it returns %s' % (o, {'a': 'the first', 'b': 'the second', 'unknown': 'Unknown()'}[t[o]]) for o in w if t[o] not in w[o]]
        res.add('integral/limits.py :: %s :: selects-%s' % (name, 'greater' if name == 'asymp_add' else 'smaller'), not bad,
                'table %s' % ', '.join('%s->%s' % kv for kv in sorted(t.items())) if not bad else
                '; '.join(bad) + (' -- the sum 1/a + 1/b is given the decay of its faster-vanishing term: limits of quotients with such a sum '
                                  'come out as 0 or infinity where they are finite' if name == 'asymp_add_inv' else
                                  ' -- the sum is given the growth of its slower term'), f.loc)
    return res


def rule_e7(repo):
    """A quotient of constants has no value when the denominator is zero; the calculator relies on the
    ZeroDivisionError of to_const_poly to recognise indeterminate forms (0 / 0 in a limit, an evaluation at a
    removable singularity) and to fall back to a limit.  In the division case every answer must come after the
    zero-denominator test - a shortcut `0 / b = 0` in front of it gives 0 / 0 the value 0."""
    from ..cfg import cfg_of
    res = RuleResult('C19.E7', 'the division of constants answers only after the zero-denominator test', floor=1)
    f = repo.func('integral/poly.py', 'to_const_poly')
    cfg = cfg_of(f.node)
    div = [t for t in cfg.test_nodes() if isinstance(t.ast, ast.Call) and call_attr(t.ast) == 'is_divides']
    need(div, 'to_const_poly: division case not found')
    d = div[0]
    branch = cfg.reach_from([b for b, l in d.succ if l == 'true'], skip_edges=[(d.id, 'false')])
    zero = [t for t in cfg.test_nodes() if t.id in branch and compare_parts(t.ast) and compare_parts(t.ast)[0] is ast.Eq and
            isinstance(compare_parts(t.ast)[2], ast.Constant) and compare_parts(t.ast)[2].value == 0 and 'get_fraction' in src(t.ast, 80)]
    need(zero, 'to_const_poly: zero-denominator test not found in the division case')
    z = zero[0]
    raises = any(isinstance(b.ast, ast.Raise) for b, l in z.succ if l == 'true')
    bad = []
    # returns of the division case: reachable from the branch entry before any other is_* dispatch
    first = [b for b, l in d.succ if l == 'true']
    subject = src(d.ast.func.value, 10)
    other_cases = [t for t in cfg.test_nodes() if t is not d and isinstance(t.ast, ast.Call) and isinstance(t.ast.func, ast.Attribute) and
                   t.ast.func.attr.startswith('is_') and src(t.ast.func.value, 10) == subject]
    rets = [r for r in cfg.return_nodes() if r.id in cfg.reach_from(first, skip_nodes=other_cases)]
    need(rets, 'to_const_poly: no answer found in the division case')
    # the edges on which the compound zero test `.. and <b> == 0` is left without raising
    group = [t for t in cfg.test_nodes() if t.stmt is z.stmt]
    passed = [(t.id, l) for t in group for bn, l in t.succ if bn not in group and not isinstance(bn.ast, ast.Raise)]
    for r in rets:
        if cfg.path_avoiding(r, skip_edges=passed, start=first[0]) is not None:
            bad.append('line %d `%s`' % (r.lineno, src(r.ast, 40)))
    ok = raises and not bad
    res.add('integral/poly.py :: to_const_poly :: zero-denominator-first', ok,
            '%d answer(s), all behind the test `%s`' % (len(rets), src(z.ast, 40)) if ok else
            ('the zero-denominator test does not raise' if not raises else ', '.join(bad) + ' answered before the denominator was tested: 0 / 0 gets the value 0, '
             'and a limit of an indeterminate form is "simplified" to 0 instead of being reduced'), f.loc)
    return res


def _const_test(e, subject, value):
    """truth value of a test that mentions only `subject` (by source text) and numbers, for subject = value; None if it
    mentions anything else.  Python's arithmetic on the sample value is the semantics of the test (that is the point:
    -2 % 2 == 0)."""
    import fractions
    import operator

    def num(x):
        if src(x, 200) == subject:
            return value
        if isinstance(x, ast.Constant) and isinstance(x.value, (int, float)) and not isinstance(x.value, bool):
            return x.value
        if isinstance(x, ast.UnaryOp) and isinstance(x.op, ast.USub):
            v = num(x.operand)
            return None if v is None else -v
        if isinstance(x, ast.BinOp) and type(x.op) in (ast.Add, ast.Sub, ast.Mult, ast.Mod, ast.FloorDiv):
            a, b = num(x.left), num(x.right)
            if a is None or b is None or (isinstance(x.op, (ast.Mod, ast.FloorDiv)) and b == 0):
                return None
            return {ast.Add: operator.add, ast.Sub: operator.sub, ast.Mult: operator.mul, ast.Mod: operator.mod, ast.FloorDiv: operator.floordiv}[type(x.op)](a, b)
        return None
    if isinstance(e, ast.BoolOp):
        vals = [_const_test(v, subject, value) for v in e.values]
        if any(v is None for v in vals):
            return None
        return all(vals) if isinstance(e.op, ast.And) else any(vals)
    if isinstance(e, ast.UnaryOp) and isinstance(e.op, ast.Not):
        v = _const_test(e.operand, subject, value)
        return None if v is None else not v
    cp = compare_parts(e)
    if cp:
        a, b = num(cp[1]), num(cp[2])
        if a is None or b is None:
            return None
        ops = {ast.Eq: operator.eq, ast.NotEq: operator.ne, ast.Lt: operator.lt, ast.LtE: operator.le, ast.Gt: operator.gt, ast.GtE: operator.ge}
        return ops[cp[0]](a, b) if cp[0] in ops else None
    return None


def rule_e8(repo):
    """Interval.__pow__ decides by cases on a constant exponent: 0, the even power 2, positive, negative (the reciprocal of
    the positive power).  The cases are tests on one number; which case a given exponent takes can be read off by evaluating
    the tests, in order, for sample exponents.  Every negative sample has to arrive at the case that takes the reciprocal:
    a test that a negative number passes earlier (`e % 2 == 0` holds for -2) sends x^(-2) through the bounds of x^2, and the
    resulting "interval" (1, 1/4) is contained in everything - sign conditions then hold vacuously."""
    import fractions
    res = RuleResult('C19.E8', 'in interval arithmetic every negative constant exponent takes the reciprocal case', floor=1)
    f = repo.func('integral/interval.py', 'Interval.__pow__')
    other = f.params()[1]
    subject = 'eval_expr(%s.start)' % other
    from ..flow import flow_of
    e8flow = flow_of(f.node)
    _plain = globals()['_const_test']

    def _const_test(e, subject, value):          # the value of the exponent may have been given a name (exp_start = eval_expr(other.start))
        return _plain(e8flow.inline(e), subject, value)
    chain = None
    for n in ast.walk(f.node):
        if isinstance(n, ast.If) and _const_test(n.test, subject, 1) is not None:
            chain = n
            break
    need(chain is not None, 'Interval.__pow__: case analysis on eval_expr(%s.start) not found' % other)

    def branch_for(value):
        n = chain
        while True:
            t = _const_test(n.test, subject, value)
            if t is None:
                return None
            if t:
                return n.body
            if len(n.orelse) == 1 and isinstance(n.orelse[0], ast.If):
                n = n.orelse[0]
                continue
            return n.orelse
    bad, unknown = [], []
    for v in (-1, -2, -3, -4, fractions.Fraction(-1, 2)):
        b = branch_for(v)
        if b is None:
            unknown.append(v)
            continue
        recip = any(isinstance(c, ast.Call) and call_attr(c) == 'inverse' for st in b for c in ast.walk(st))
        if not recip:
            bad.append((v, b[0].lineno if b else chain.lineno))
    need(not unknown, 'Interval.__pow__: a test of the case analysis could not be evaluated for the exponents %s' % unknown)
    res.add('integral/interval.py :: Interval.__pow__ :: negative-exponent-takes-reciprocal', not bad,
            'the exponents -1, -2, -3, -4, -1/2 all reach `(self ** -k).inverse()`' if not bad else
            'the exponent %s takes the case at line %d, which does not take the reciprocal: x ^ (%s) on (1, 2) gets bounds of the positive power' % (
                bad[0][0], bad[0][1], bad[0][0]), '%s:%d' % ('integral/interval.py', bad[0][1] if bad else chain.lineno))
    return res

def rule_e9(repo):
    """Where an end of an interval is a singular point, the calculator takes the value there as a one-sided limit: the end
    plus or minus a term 1/x that vanishes as x grows.  Which sign is not a matter of taste: the point has to move *into*
    the interval - the upper end is approached from below (`upper - 1/x`), the lower end from above (`lower + 1/x`).
    From outside, [atan(1/x)] for x from -1 to 0 takes the limit from the right at 0 and comes out as 3 pi / 4 instead of
    -pi / 4.  Every place that adds such a term to an end of an interval is read: the end is named by the expression
    (`e.upper`, a local or a helper's parameter that stands for it) or by the position in `Integral(var, lower, upper, ..)`."""
    from ..flow import flow_of
    res = RuleResult('C19.E9', 'a singular end of an interval is approached from inside: upper - 1/x, lower + 1/x', floor=8)

    def vanishing(e):
        return isinstance(e, ast.BinOp) and isinstance(e.op, ast.Div) and isinstance(e.left, ast.Constant) and e.left.value == 1 and isinstance(e.right, ast.Name)

    def end_of_path(e):
        p_ = path_of(e) or ''
        last = p_.split('.')[-1]
        return last if last in ('upper', 'lower') and '.' in p_ else None
    for m in repo.source_modules():
        if not m.rel.startswith('integral/') or '/tests/' in m.rel:
            continue
        for f in m.all_funcs:
            sites = [b for b in ast.walk(f.node) if isinstance(b, ast.BinOp) and isinstance(b.op, (ast.Add, ast.Sub)) and (vanishing(b.left) or vanishing(b.right))]
            own = {id(x) for g in f.nested.values() for x in ast.walk(g.node)} if getattr(f, 'nested', None) else set()
            sites = [b for b in sites if id(b) not in own]
            if not sites:
                continue
            flow = flow_of(f.node)
            parents = {}
            for x in ast.walk(f.node):
                for ch in ast.iter_child_nodes(x):
                    parents[id(ch)] = x
            for b in sites:
                if isinstance(b.op, ast.Sub) and vanishing(b.left):
                    continue                     # 1/x - a: not an approach to a
                other = b.left if vanishing(b.right) else b.right
                sign = 'minus' if isinstance(b.op, ast.Sub) else 'plus'
                ends = set()
                e1 = end_of_path(flow.inline(other))
                if e1 is None and isinstance(other, ast.Name):
                    # a local that is assigned more than once (a = e.upper ... a = e.lower): what it holds at this statement
                    from ..cfg import cfg_of
                    cfg = cfg_of(f.node)
                    at = cfg.node_for(b)
                    e1 = end_of_path(cfg.value_at(at, other)) if at is not None else None
                if e1:
                    ends.add(e1)
                if not ends:
                    # position in Integral(var, lower, upper, body), possibly through normalize(..)
                    x = b
                    while id(x) in parents and isinstance(parents[id(x)], ast.Call) and (call_name(parents[id(x)]) or '').split('.')[-1] in ('normalize', 'normalize_constant'):
                        x = parents[id(x)]
                    par = parents.get(id(x))
                    if isinstance(par, ast.Call) and (call_name(par) or '').split('.')[-1] == 'Integral' and len(par.args) >= 4:
                        idx = [i for i, a in enumerate(par.args) if a is x]
                        if idx and idx[0] in (1, 2):
                            ends.add('lower' if idx[0] == 1 else 'upper')
                if not ends and isinstance(other, ast.Name) and other.id in f.params():
                    # a helper (nested, or a function of the module) that takes the end as its parameter: the ends it is called with
                    i = f.params().index(other.id)
                    callers = [f.parent] if f.parent is not None else [g for g in m.all_funcs if g is not f and any(
                        isinstance(c, ast.Call) and is_name(c.func, f.name) for c in ast.walk(g.node))]
                    # the conditions under which this expression is evaluated inside the helper: (test, branch taken)
                    conds, x, understood = [], b, True
                    while id(x) in parents:
                        par = parents[id(x)]
                        if isinstance(par, ast.IfExp) and x is not par.test:
                            conds.append((par.test, x is par.body))
                        elif isinstance(par, ast.If) and x is not par.test:
                            conds.append((par.test, any(x is st for st in par.body)))
                        x = par

                    def flag_value(test, call):
                        # the test is a parameter of the helper (or its negation) and the call passes a literal for it
                        neg = False
                        while isinstance(test, ast.UnaryOp) and isinstance(test.op, ast.Not):
                            test, neg = test.operand, not neg
                        if not (isinstance(test, ast.Name) and test.id in f.params()):
                            return None
                        j = f.params().index(test.id)
                        arg = call.args[j] if len(call.args) > j else next((k.value for k in call.keywords if k.arg == test.id), None)
                        if isinstance(arg, ast.Constant) and isinstance(arg.value, bool):
                            return arg.value != neg
                        return None
                    for outer, c in [(g, c) for g in callers for c in ast.walk(g.node)]:
                        oflow = flow_of(outer.node)
                        if isinstance(c, ast.Call) and is_name(c.func, f.name) and len(c.args) > i:
                            taken = True
                            for test, branch in conds:
                                bare = test
                                while isinstance(bare, ast.UnaryOp) and isinstance(bare.op, ast.Not):
                                    bare = bare.operand
                                # only a parameter tested as it is selects between the ends (is_upper / from_below); `pt == POS_INF` asks something else
                                if isinstance(bare, ast.Name) and bare.id in f.params():
                                    v_ = flag_value(test, c)
                                    if v_ is None:
                                        understood = False
                                    elif v_ != branch:
                                        taken = False
                            e2 = end_of_path(oflow.inline(c.args[i]))
                            if e2 and taken:
                                ends.add(e2)
                    if not understood:
                        continue            # chosen by a condition on the helper's parameters that is not a literal flag: not judged
                if not ends:
                    continue
                want = {'upper': 'minus', 'lower': 'plus'}
                wrong = sorted(e_ for e_ in ends if want[e_] != sign)
                res.add('%s :: %s :: approach(%s)@%d' % (m.rel, f.qualname, src(b, 30), b.lineno - f.node.lineno), not wrong,
                        '%s end, 1/x %s' % ('/'.join(sorted(ends)), 'subtracted' if sign == 'minus' else 'added') if not wrong else
                        'line %d: `%s` stands for the %s end of the interval and the vanishing term is %s: the end is approached from outside the interval, '
                        'where the integrand need not even be defined ([atan(1/x)] from -1 to 0 becomes 3 pi / 4)' % (
                            b.lineno, src(b, 40), wrong[0], 'added' if sign == 'plus' else 'subtracted'), '%s:%d' % (m.rel, b.lineno))
    return res

def rule_e10(repo):
    """The calculator writes powers of expressions with Python's `^` (Expr.__xor__).  Python gives `^` a *lower* precedence
    than + - * /: `Const(1) + x ^ Const(2)` is (1 + x)^2.  So in the calculator's own code an operand of `^` that is a sum,
    difference, product or quotient - or a negation on the left - must stand in parentheses of its own; without them the
    code says something else than it reads (the derivative of acot was -1 / (1 + x)^2).  Decided on the syntax tree plus the
    one thing the tree does not keep: whether the operand is enclosed in parentheses in the source text."""
    res = RuleResult('C19.E10', 'an operand of ^ (power of expressions) that is a sum, product or quotient stands in its own parentheses', floor=12)
    ARITH = (ast.Add, ast.Sub, ast.Mult, ast.Div, ast.FloorDiv, ast.Mod)

    def parenthesised(lines, node):
        line = lines[node.lineno - 1]
        i = node.col_offset - 1
        while i >= 0 and line[i] == ' ':
            i -= 1
        endline = lines[node.end_lineno - 1]
        j = node.end_col_offset
        while j < len(endline) and endline[j] == ' ':
            j += 1
        return i >= 0 and line[i] == '(' and j < len(endline) and endline[j] == ')'
    for m in repo.source_modules():
        if not m.rel.startswith('integral/') or '/tests/' in m.rel or '/examples/' in m.rel:
            continue
        lines = m.source.split('\n') if hasattr(m, 'source') else open(m.path).read().split('\n')
        for f in m.all_funcs:
            own = {id(x) for g in f.nested.values() for x in ast.walk(g.node)} if getattr(f, 'nested', None) else set()
            pows = [n for n in ast.walk(f.node) if isinstance(n, ast.BinOp) and isinstance(n.op, ast.BitXor) and id(n) not in own]
            if not pows:
                continue
            bad = []
            for n in pows:
                for side, op in (('left', n.left), ('right', n.right)):
                    if isinstance(op, ast.BinOp) and isinstance(op.op, ARITH) and not parenthesised(lines, op):
                        bad.append((n, side, op))
                    if side == 'left' and isinstance(op, ast.UnaryOp) and isinstance(op.op, ast.USub) and not parenthesised(lines, op):
                        bad.append((n, side, op))
            res.add('%s :: %s :: powers' % (m.rel, f.qualname), not bad,
                    '%d power(s), every compound operand in parentheses' % len(pows) if not bad else
                    'line %d: `%s` - the %s operand of ^ is `%s` without parentheses of its own; Python reads the arithmetic first, so this is (%s) ^ .. '
                    'and not what the text suggests' % (bad[0][0].lineno, src(bad[0][0], 60), bad[0][1], src(bad[0][2], 40), src(bad[0][2], 40)),
                    '%s:%d' % (m.rel, (bad[0][0] if bad else pows[0]).lineno))
    return res

def rule_e11(repo):
    """A rewriting rule may treat a sum and a difference in one branch (`X.is_plus() or X.is_minus()`, `X.op in ('+', '-')`) - but then what it
    builds has to depend on which of the two it met: it re-uses the operator (`Op(X.op, ..)`) or asks again.  A branch that admits both
    and builds one fixed result gives the difference the meaning of the sum: c1 ^ (c2 - a) became c1 ^ c2 * c1 ^ a."""
    res = RuleResult('C19.E11', 'a branch that admits a sum and a difference alike builds its result from the operator it met', floor=1)
    n_found = 0
    for m in repo.source_modules():
        if not m.rel.startswith('integral/') or '/tests/' in m.rel or m.rel.endswith('latex.py'):
            continue
        for f in m.all_funcs:
            own = {id(x) for g in f.nested.values() for x in ast.walk(g.node)} if getattr(f, 'nested', None) else set()
            for n in ast.walk(f.node):
                if id(n) in own:
                    continue
                subj, cond = None, None
                if isinstance(n, ast.BoolOp) and isinstance(n.op, ast.Or):
                    recv = {}
                    for v in n.values:
                        if isinstance(v, ast.Call) and call_attr(v) in ('is_plus', 'is_minus') and not v.args:
                            recv.setdefault(src(v.func.value, 80), set()).add(call_attr(v))
                    both = [r for r, k in recv.items() if k == {'is_plus', 'is_minus'}]
                    if both:
                        subj, cond = both[0], n
                cp = compare_parts(n) if isinstance(n, ast.Compare) else None
                if cp and cp[0] is ast.In and isinstance(cp[1], ast.Attribute) and cp[1].attr == 'op' and isinstance(cp[2], (ast.Tuple, ast.List, ast.Set)) and \
                        {getattr(e_, 'value', None) for e_ in cp[2].elts} == {'+', '-'}:
                    subj, cond = src(cp[1].value, 80), n
                if subj is None:
                    continue
                n_found += 1
                inside = {id(x) for x in ast.walk(cond)}
                again = False
                # where the admitted case is handled: the body of the `if` that tests it, or - for a guard `if not (..): return` - what follows
                region = [f.node]
                for st in ast.walk(f.node):
                    if isinstance(st, ast.If) and any(x is cond for x in ast.walk(st.test)):
                        negs, x = 0, st.test
                        # polarity of cond inside the test
                        def pol(e, p=True):
                            if e is cond:
                                return p
                            if isinstance(e, ast.UnaryOp) and isinstance(e.op, ast.Not):
                                return pol(e.operand, not p)
                            for ch in ast.iter_child_nodes(e):
                                r = pol(ch, p)
                                if r is not None:
                                    return r
                            return None
                        if pol(st.test) is False:
                            # the statements after this `if` in its block
                            for blk in ast.walk(f.node):
                                for fld in ('body', 'orelse', 'finalbody'):
                                    lst = getattr(blk, fld, None)
                                    if isinstance(lst, list) and st in lst:
                                        region = lst[lst.index(st) + 1:]
                        else:
                            region = st.body
                for x in [y for r_ in region for y in ast.walk(r_)]:
                    if id(x) in inside:
                        continue
                    if isinstance(x, ast.Attribute) and x.attr == 'op' and src(x.value, 80) == subj:
                        again = True
                    if isinstance(x, ast.Call) and call_attr(x) in ('is_plus', 'is_minus') and src(x.func.value, 80) == subj:
                        again = True
                res.add('%s :: %s :: sum-or-difference(%s)@%d' % (m.rel, f.qualname, subj[:40], n_found), again,
                        'the result is built from the operator that was met' if again else
                        'line %d admits `%s` as a sum or as a difference and never asks again which it is: the difference is rewritten like the sum '
                        '(2 ^ (3 - x) becomes 2 ^ 3 * 2 ^ x)' % (cond.lineno, subj), '%s:%d' % (m.rel, cond.lineno))
    need(n_found, 'integral/: no branch that admits a sum and a difference alike found (the positive example Summation + / - is gone)')
    return res


def rules(repo):
    return [rule_e1(repo), rule_e2(repo), rule_e3(repo), rule_e4(repo), rule_e5(repo), rule_e6(repo), rule_e7(repo), rule_e8(repo), rule_e9(repo), rule_e10(repo), rule_e11(repo)]
