"""Fast path versus expansion of one macro, compared over the conditions both of them test.

Both functions get canonical access paths for their arguments (c18_shape.Paths), so `lhs.lhs == lhs.rhs`
in one and `goal.args[0] ...` in the other are recognised as the same condition when they denote the same
part of the same argument.  An *atom* is an atomic test all of whose operands are canonical (parts of the
arguments, the constants true / false / None, literals, len(..)); `a != b` is the negation of `a == b`.

For every truth assignment to the atoms that occur in both functions (kind tests of one subject are
mutually exclusive) the rule asks:
  E: is there a path through the fast path, consistent with the assignment (and self-consistent on its
     other tests), that reaches `return Thm(..)`?
  X: is there a consistent path through the expansion that reaches a normal return?
E and not X is a contradiction between the two: the evaluation accepts a case in which the expansion can only
raise.  Tests that are not atoms are left free, loops are unrolled existentially, calls are assumed to
return: both searches over-approximate the feasible paths, so X is never wrongly false, and E can be wrongly
true only through a condition neither written as a test nor shared - each report is confirmed by reading.
"""
import ast
import itertools

from ..cfg import cfg_of
from ..astutil import src, call_name
from .c18_shape import Paths

KINDS = {'is_equals', 'is_not', 'is_conj', 'is_disj', 'is_implies', 'is_forall', 'is_exists', 'is_less', 'is_less_eq', 'is_greater',
         'is_greater_eq', 'is_plus', 'is_times', 'is_minus', 'is_uminus', 'is_number', 'is_var', 'is_const', 'is_abs', 'is_comb'}
CONSTS = {'true', 'false', 'None', 'True', 'False'}


def canon_text(paths, e):
    c = paths.canon(e)
    if len(c) == 1:
        return next(iter(c))
    if c:
        return None
    if isinstance(e, ast.Call) and isinstance(e.func, ast.Attribute):
        b = canon_text(paths, e.func.value)
        if b is None:
            return None
        args = []
        for a in e.args:
            if isinstance(a, ast.Constant):
                args.append(repr(a.value))
            else:
                t = canon_text(paths, a)
                if t is None:
                    return None
                args.append(t)
        return '%s.%s(%s)' % (b, e.func.attr, ','.join(args))
    if isinstance(e, ast.Compare) and len(e.ops) == 1:
        l, r = canon_text(paths, e.left), canon_text(paths, e.comparators[0])
        if l is None or r is None:
            return None
        op = type(e.ops[0]).__name__
        if op in ('Eq', 'NotEq') and r < l:
            l, r = r, l
        return '%s %s %s' % (l, op, r)
    if isinstance(e, ast.Name) and e.id in CONSTS:
        return e.id
    if isinstance(e, ast.Constant):
        return repr(e.value)
    if isinstance(e, ast.Call) and isinstance(e.func, ast.Name) and e.func.id == 'len' and len(e.args) == 1:
        t = canon_text(paths, e.args[0])
        return None if t is None else 'len(%s)' % t
    return None


class Side:
    def __init__(self, func, roots, rename=None):
        self.func = func
        self.cfg = cfg_of(func.node)
        self.paths = Paths(func.node, roots)
        self.key = {}
        rename = rename or {}
        for n in self.cfg.test_nodes():
            t = canon_text(self.paths, n.ast)
            if t is None:
                self.key[n.id] = None
                continue
            for a, b in rename.items():
                t = _rename_root(t, a, b)
            neg = ' NotEq ' in t
            self.key[n.id] = (t.replace(' NotEq ', ' Eq '), neg)

    def atoms(self):
        return {k[0] for k in self.key.values() if k}

    def can_reach(self, targets, sigma, limit=300000):
        tids = {t.id for t in targets}
        seen = set()
        todo = [(self.cfg.entry, frozenset())]
        while todo:
            n, asg = todo.pop()
            if (n.id, asg) in seen:
                continue
            seen.add((n.id, asg))
            if len(seen) > limit or n.id in tids:
                return True
            for b, label in n.succ:
                nasg = asg
                if n.kind == 'test' and label in ('true', 'false'):
                    val = label == 'true'
                    k = self.key[n.id]
                    if k is not None:
                        atom, neg = k
                        v = (not val) if neg else val
                        if atom in sigma:
                            if sigma[atom] != v:
                                continue
                        else:
                            d = dict(asg)
                            if atom in d and d[atom] != v:
                                continue
                            nasg = asg | {(atom, v)}
                    else:
                        pk = '#' + src(n.ast, 200)
                        d = dict(asg)
                        if pk in d and d[pk] != val:
                            continue
                        nasg = asg | {(pk, val)}
                todo.append((b, nasg))
        return False


def _rename_root(text, a, b):
    import re
    return re.sub(r'(?<![\w.])%s(?![\w])' % re.escape(a), b, text)


def exclusive_ok(sigma):
    subj = {}
    for a, v in sigma.items():
        if v and a.endswith('()') and '.' in a:
            s, m = a.rsplit('.', 1)
            if m[:-2] in KINDS:
                if s in subj:
                    return False
                subj[s] = m
    return True


def compare(ev, gp, max_atoms=12):
    """None when the pair is not comparable (no shared atom, too many, no accepting return); otherwise
    (shared atoms, list of contradicting assignments)"""
    pe, pg = ev.params()[1:3], gp.params()[1:3]
    if len(pe) < 1 or len(pe) != len(pg):
        return None
    E = Side(ev, pe)
    X = Side(gp, pg, rename=dict(zip(pg, pe)))
    shared = sorted(E.atoms() & X.atoms())
    if not shared or len(shared) > max_atoms:
        return None
    accepts = [n for n in E.cfg.return_nodes() if isinstance(n.ast.value, ast.Call) and call_name(n.ast.value) == 'Thm']
    if not accepts:
        return None
    bad = []
    for vals in itertools.product((False, True), repeat=len(shared)):
        sigma = dict(zip(shared, vals))
        if not exclusive_ok(sigma):
            continue
        if E.can_reach(accepts, sigma) and not X.can_reach([X.cfg.exit], sigma):
            bad.append(sigma)
    return shared, bad
