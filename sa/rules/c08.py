"""C08 - type inference: given annotations are kept, one type per variable, constants at instances of
their declared type, internal type variables cannot escape."""
import ast

from ..core import RuleResult, need
from ..cfg import cfg_of, inline_named_conditions
from ..flow import flow_of
from ..astutil import src, call_attr, call_name, compare_parts, is_name, path_of, attr_stores, walk_no_nested

INFER = 'syntax/infertype.py'

NOT_DECIDED = ('unification order, occurs check, principality, recovery of the original term from its erasure '
               '(properties of runtime union-find states)')
ASSUMPTIONS = ['STVar names starting with _t are reserved for inference (is_internal_type)']

# confirmed exception to U1: (function, store text) -> reason
# confirmed exception, by what is stored (whatever the names of the locals): the value comes from the table of definitions being parsed
U1_EXEMPT_SOURCE = 'context.ctxt.defs'
U1_EXEMPT_REASON = 'the head constant of a definition being parsed takes its declared type from the context'


def _is_none_edges(cfg, recv, attr):
    def pred(e, pol):
        cp = compare_parts(e)
        if not cp or not isinstance(cp[2], ast.Constant) or cp[2].value is not None:
            return False
        if path_of(cp[1]) != recv + '.' + attr:
            return False
        return (cp[0] is ast.Is and pol) or (cp[0] is ast.IsNot and not pol)
    return cfg.establishing_edges(pred)


def rule_u1(repo):
    res = RuleResult('C08.U1', 'a type annotation already present on the term is never overwritten by inference', floor=4)
    top = repo.func(INFER, 'type_infer')
    funcs = [top]
    todo = [top]
    while todo:
        g = todo.pop()
        for h in g.nested.values():
            funcs.append(h)
            todo.append(h)
    for f in funcs:
        qual = f.qualname
        cfg = cfg_of(f.node)
        flow = flow_of(f.node)
        for n in cfg.stmt_nodes(ast.Assign):
            for t in n.ast.targets:
                if isinstance(t, ast.Attribute) and t.attr in ('T', 'var_T') and isinstance(t.value, ast.Name):
                    key = '%s :: %s :: store(%s)@%s' % (INFER, qual, src(t), src(n.ast.value, 40))
                    if any(p.startswith(U1_EXEMPT_SOURCE) for p in flow.resolve(n.ast.value)):
                        res.add(key, True, 'confirmed exception: ' + U1_EXEMPT_REASON, '%s:%d' % (INFER, n.lineno), nontrivial=False)
                        continue
                    edges = _is_none_edges(cfg, t.value.id, t.attr)
                    ok = bool(edges) and cfg.path_avoiding(n, skip_edges=edges) is None
                    res.add(key, ok, 'only when %s is None' % src(t) if ok else
                            '`%s` can overwrite an annotation that was given' % src(n.ast), '%s:%d' % (INFER, n.lineno))
    return res


def rule_u2(repo):
    res = RuleResult('C08.U2', 'internal type variables cannot escape: under-determined types are reported unless the printer asked otherwise and restores what it cleared', floor=4)
    f = repo.func(INFER, 'type_infer')
    cfg = cfg_of(f.node)
    need('forbid_internal' in f.params(), 'type_infer has no forbid_internal parameter')
    fi_tests = [n for n in cfg.test_nodes() if is_name(n.ast, 'forbid_internal')]
    un_tests = [n for n in cfg.test_nodes() if (lambda cp: cp and cp[0] is ast.Gt and isinstance(cp[1], ast.Call) and
                                                call_name(cp[1]) == 'len' and is_name(cp[1].args[0], 'unspecified'))(compare_parts(n.ast)) or
                is_name(n.ast, 'unspecified')]
    ok = bool(fi_tests) and bool(un_tests) and cfg.path_avoiding(
        cfg.exit, skip_edges={(n.id, 'false') for n in fi_tests} | {(n.id, 'false') for n in un_tests}) is None
    res.add('%s :: type_infer :: unspecified-raises' % INFER, ok,
            'no normal completion with forbid_internal set and an unspecified internal type' if ok else
            'type_infer can return a term with leftover internal type variables although forbid_internal is set', f.loc)
    # `unspecified` collects exactly the fixpoints v == STVar(k)
    ok2 = False
    for n in walk_no_nested(f.node):
        if isinstance(n, ast.For) and isinstance(n.iter, ast.Call) and call_attr(n.iter) == 'items' and path_of(n.iter.func.value) == 'tyinst':
            for c in ast.walk(n):
                if isinstance(c, ast.Call) and call_attr(c) == 'append' and path_of(c.func.value) == 'unspecified':
                    ok2 = True
        # the same as a comprehension
        if isinstance(n, ast.Assign) and any(is_name(t, 'unspecified') for t in n.targets) and isinstance(n.value, (ast.ListComp, ast.GeneratorExp)) and \
                any(isinstance(g.iter, ast.Call) and call_attr(g.iter) == 'items' and path_of(g.iter.func.value) == 'tyinst' for g in n.value.generators):
            ok2 = True
    res.add('%s :: type_infer :: unspecified-collected' % INFER, ok2,
            'unresolved internal variables are collected from the final substitution' if ok2 else
            'the list of unspecified internal variables is no longer computed from tyinst', f.loc, nontrivial=False)
    # default of forbid_internal is True
    a = f.node.args
    dflt = {k.arg: d for k, d in zip(a.kwonlyargs, a.kw_defaults)}
    names = [x.arg for x in a.args]
    dflt.update(dict(zip(names[len(names) - len(a.defaults):], a.defaults)))
    d = dflt.get('forbid_internal')
    ok = isinstance(d, ast.Constant) and d.value is True
    res.add('%s :: type_infer :: forbid_internal-default' % INFER, ok, 'default True' if ok else 'forbid_internal no longer defaults to True', f.loc,
            nontrivial=False)
    # who passes forbid_internal=False
    for m in repo.source_modules():
        for g in m.all_funcs:
            if g.parent is not None:
                continue
            for c in ast.walk(g.node):
                if isinstance(c, ast.Call) and call_attr(c) == 'type_infer':
                    for k in c.keywords:
                        if k.arg == 'forbid_internal' and not (isinstance(k.value, ast.Constant) and k.value.value is True):
                            ok = m.rel == INFER and g.qualname == 'infer_printed_type'
                            res.add('%s :: %s :: forbid_internal=%s' % (m.rel, g.qualname, src(k.value)), ok,
                                    'the printer\'s annotation search, on its private copy' if ok else
                                    'internal type variables are allowed to escape from a caller other than infer_printed_type',
                                    '%s:%d' % (m.rel, c.lineno))
    # infer_printed_type: recover_const_type after every type_infer
    g = repo.func(INFER, 'infer_printed_type')
    gcfg = cfg_of(g.node)
    infers = [n for n in gcfg.nodes if n.kind == 'stmt' and any(isinstance(c, ast.Call) and call_name(c) == 'type_infer' for c in ast.walk(n.ast))]
    recovers = [n for n in gcfg.nodes if n.kind == 'stmt' and any(isinstance(c, ast.Call) and call_name(c) == 'recover_const_type' for c in ast.walk(n.ast))]
    need(infers, 'infer_printed_type: call to type_infer not found')
    for n in infers:
        reach = gcfg.reach_from([b for b, _l in n.succ], skip_nodes=recovers)
        ok = bool(recovers) and gcfg.exit.id not in reach and n.id not in reach
        res.add('%s :: infer_printed_type :: restore-after-infer' % INFER, ok,
                'recover_const_type(t) follows every type_infer before the next round or return' if ok else
                'the types cleared for the annotation search are not restored on every path', '%s:%d' % (INFER, n.lineno))
    return res


def rule_u3(repo):
    res = RuleResult('C08.U3', 'a variable gets one type: a freshly invented type is recorded for later occurrences', floor=2)
    from ..inline import inlined
    top = repo.func(INFER, 'type_infer')
    f = repo.func(INFER, 'type_infer.<locals>.infer')
    # a step of the variable cases that was moved into a helper beside `infer` is read in place (not the unification machinery)
    f = inlined(f, lambda h: h.parent is not None and h.name not in ('new_type', 'union', 'unify', f.name) and
                any(isinstance(c, ast.Call) and call_name(c) == 'new_type' for c in ast.walk(h.node)))[0]
    cfg = cfg_of(f.node)
    iflow = flow_of(f.node)

    def discipline(cfg, region, table, subj):
        # the fresh type may first go to a local (T = new_type(); table[name] = T; t.T = T)
        fresh = [n for n in cfg.stmt_nodes(ast.Assign) if n.id in region and isinstance(n.ast.value, ast.Call) and call_name(n.ast.value) == 'new_type']
        holders = {src(t) for n in fresh for t in n.ast.targets} | {subj + '.T'}
        def key_ok(sl):
            return path_of(sl) == subj + '.name' or path_of(iflow.inline(sl)) == subj + '.name'
        records = [n for n in cfg.stmt_nodes(ast.Assign) if n.id in region and any(
            isinstance(t, ast.Subscript) and is_name(t.value, table) and key_ok(t.slice) for t in n.ast.targets) and src(n.ast.value) in holders]
        lookups = [n for n in cfg.nodes if n.id in region and n.ast is not None and n.kind in ('stmt', 'return') and any(
            isinstance(x, ast.Subscript) and isinstance(x.ctx, ast.Load) and is_name(x.value, table) and key_ok(x.slice)
            for h in cfg.headers(n) for x in ast.walk(h))]
        if not fresh:
            return None
        return bool(records) and bool(lookups) and all(
            cfg.exit.id not in cfg.reach_from([b for b, _l in fr.succ], skip_nodes=records) for fr in fresh)
    for kind, table in (('is_var', 'incr_ctxt'), ('is_svar', 'incr_sctxt')):
        tests = [n for n in cfg.test_nodes() if isinstance(n.ast, ast.Call) and call_attr(n.ast) == kind and not n.ast.args]
        need(tests, 'type_infer.infer: branch %s not found' % kind)
        region = cfg.reach_from([b for b, l in tests[0].succ if l == 'true'], skip_nodes=[t for t in cfg.test_nodes() if t is not tests[0] and
                                                                                              isinstance(t.ast, ast.Call) and (call_attr(t.ast) or '').startswith('is_')])
        ok = discipline(cfg, region, table, 't')
        if ok is None:
            # the branch hands the term and the table to a helper: the helper keeps the discipline for its parameter
            ok = False
            for n in cfg.nodes:
                if n.id not in region or n.ast is None:
                    continue
                for c in ast.walk(n.ast) if not isinstance(n.ast, (ast.If, ast.For, ast.While, ast.Try)) else []:
                    if isinstance(c, ast.Call) and isinstance(c.func, ast.Name) and c.func.id in top.nested and any(is_name(a, table) for a in c.args) and c.args and is_name(c.args[0], 't'):
                        h = top.nested[c.func.id]
                        hp = h.params()
                        tparam = hp[[i for i, a in enumerate(c.args) if is_name(a, table)][0]]
                        hcfg = cfg_of(h.node)
                        r = discipline(hcfg, hcfg.reach_from([hcfg.entry]), tparam, hp[0])
                        ok = bool(r)
        res.add('%s :: type_infer.infer :: %s :: recorded-in(%s)' % (INFER, kind, table), ok,
                'new type stored in %s[t.name] and looked up for later occurrences' % table if ok else
                'a fresh type for a variable is not recorded (or never looked up): two occurrences of one variable can get different types',
                '%s:%d' % (INFER, tests[0].lineno))
    return res


def rule_u4(repo):
    res = RuleResult('C08.U4', 'a constant without annotation gets its declared type with every schematic type variable replaced by a fresh one', floor=1)
    f = repo.func(INFER, 'type_infer.<locals>.infer')
    cfg = cfg_of(f.node)
    flow = flow_of(f.node)
    tests = [n for n in cfg.test_nodes() if isinstance(n.ast, ast.Call) and call_attr(n.ast) == 'is_const' and not n.ast.args]
    need(tests, 'type_infer.infer: branch is_const not found')
    region = cfg.reach_from([b for b, l in tests[0].succ if l == 'true'])
    stores = [n for n in cfg.stmt_nodes(ast.Assign) if n.id in region and any(path_of(t) == 't.T' for t in n.ast.targets)]
    ok = bool(stores)
    why = []
    for s in stores:
        v = s.ast.value
        if not (isinstance(v, ast.Call) and call_attr(v) == 'subst' and isinstance(v.func.value, ast.Name)):
            ok = False
            why.append('type is not <declared>.subst(<fresh instantiation>)')
            continue
        decl = v.func.value.id
        srcs = {call_attr(r) if isinstance(r, ast.Call) else ('defs' if isinstance(r, ast.Subscript) and path_of(r.value) == 'context.ctxt.defs' else '?')
                for k, r in flow.defs.get(decl, []) if k == 'value'}
        if not srcs <= {'get_term_sig', 'defs'} or 'get_term_sig' not in srcs:
            ok = False
            why.append('declared type comes from %s' % sorted(srcs))
        # the instantiation maps every stvar of the declared type to new_type()
        loops = [n for n in walk_no_nested(f.node) if isinstance(n, ast.For) and isinstance(n.iter, ast.Call) and
                 call_attr(n.iter) == 'get_stvars' and is_name(n.iter.func.value, decl)]
        good = False
        for lp in loops:
            for st in lp.body:
                if isinstance(st, ast.Assign) and isinstance(st.value, ast.Call) and call_name(st.value) == 'new_type' and \
                        isinstance(st.targets[0], ast.Subscript) and v.args and is_name(st.targets[0].value, getattr(v.args[0], 'id', None)):
                    good = True
        if not good:
            ok = False
            why.append('not every schematic type variable of the declared type is replaced by a fresh type')
    res.add('%s :: type_infer.infer :: const :: instance-of-declared-type' % INFER, ok,
            'get_term_sig(name, stvar=True) with fresh types for all its stvars' if ok else '; '.join(why) or 'no store found',
            '%s:%d' % (INFER, tests[0].lineno))
    return res


def rule_u5(repo):
    """unify(T1, T2) may succeed without doing anything only when both sides are variables of the same
    kind (and name): a type variable 'a and a schematic type variable ?'a are different types."""
    from ..kinds import infeasible_edges, TYPE_KINDS, TYPE_CONSTS
    res = RuleResult('C08.U5', 'unification succeeds without binding anything only for two variables of the same kind', floor=4)
    f = repo.func(INFER, 'type_infer.<locals>.unify')
    cfg = cfg_of(inline_named_conditions(f.node))       # `both_tvar = T1.is_tvar() and T2.is_tvar()` is read where it is tested
    t1, t2 = f.params()[:2]
    # "does nothing and succeeds": a normal completion that passes no call to union / unify and no raise
    actions = [n for n in cfg.nodes if n.kind in ('stmt', 'iter') and any(
        isinstance(c, ast.Call) and call_name(c) in ('union', 'unify') for h in cfg.headers(n) for c in ast.walk(h))]
    # internal variables are handled by union: assume neither side is internal
    internal = {(n.id, 'true') for n in cfg.test_nodes() if isinstance(n.ast, ast.Call) and call_name(n.ast) == 'is_internal_type'}
    for k1 in TYPE_KINDS:
        for k2 in TYPE_KINDS:
            if k1 == k2:
                continue
            skip = set(internal)
            skip |= infeasible_edges(cfg, lambda e: is_name(e, t1), k1, TYPE_KINDS, TYPE_CONSTS)
            skip |= infeasible_edges(cfg, lambda e: is_name(e, t2), k2, TYPE_KINDS, TYPE_CONSTS)
            path = cfg.path_avoiding(cfg.exit, skip_nodes=actions, skip_edges=skip)
            res.add('%s :: type_infer.unify :: noop-success(%s,%s)' % (INFER, k1, k2), path is None,
                    'different kinds never unify silently' if path is None else
                    'unify(%s, %s) can return successfully without binding anything (through line %s): e.g. the type variable \'a is '
                    'identified with the schematic ?\'a and the inferred term does not type-check' % (
                        k1, k2, [n.lineno for n in path if n.kind == 'test'][-2:]), f.loc)
    return res


def rule_u6(repo):
    """Inference instantiates a constant from the type the *current* theory declares for it
    (theory.thy.get_term_sig).  Everything a Theory answers must come from its own tables: a mutable
    container in the class body of Theory (or of the context classes) is one object shared by every theory
    of the process, so a table filled under one theory would answer for the next."""
    from .. import persist
    res = RuleResult('C08.U6', 'the signature tables consulted by inference belong to one theory object: no class-level container of the kernel classes is filled at run time', floor=8)
    for rel in ('kernel/theory.py', 'kernel/type.py', 'kernel/term.py', 'logic/context.py', 'kernel/extension.py'):
        m = repo.module(rel)
        for c in m.classes.values():
            conts = persist.class_containers(c.node)
            bad = []
            for name in sorted(conts):
                init = c.methods.get('__init__')
                if init is not None and any(isinstance(n, ast.Assign) and any(path_of(t) == 'self.' + name for t in n.targets)
                                            for n in ast.walk(init.node)):
                    continue      # every instance gets its own
                for meth in c.methods.values():
                    muts = persist.mutations_of(meth.node, lambda e, name=name: path_of(e) in ('self.' + name, 'cls.' + name, c.name + '.' + name))
                    if muts:
                        bad.append('`%s.%s` (class body, line %d) is filled in %s at line %d' % (c.name, name, conts[name].lineno, meth.name, muts[0][0]))
            res.add('%s :: %s :: per-object-tables' % (rel, c.name), not bad,
                    'no class-level container is modified through an instance' if not bad else
                    '; '.join(bad) + ' -- the table is shared by all %s objects: after one theory declared c :: nat => nat, a second theory that '
                    'declares c at another type gets the first answer' % c.name, c.loc, nontrivial=bool(conts))
    return res


def rule_u7(repo):
    """The annotation search of the printer clears, recovers and looks for constant types by structural
    recursion; Term.get_stvars collects what may be left over.  Each must visit every sub-term."""
    from ..traverse import traversal_rule
    return traversal_rule(repo, 'C08.U7', 'the recursions that clear, restore and search type annotations look at every sub-term',
                          [(INFER, 'infer_printed_type.<locals>.clear_const_type'), (INFER, 'infer_printed_type.<locals>.recover_const_type'),
                           (INFER, 'infer_printed_type.<locals>.find_to_replace'), ('kernel/term.py', 'Term.get_stvars.<locals>.rec')],
                          'a constant in the skipped position keeps (or loses) its annotation while the rest of the term is re-inferred')


def rule_u8(repo):
    """Type inference ends by expanding the representatives of the internal type variables into each other.
    A representative can mention a variable whose own representative still has to be expanded, in any order of
    creation: the expansion is a fixpoint - the statement that substitutes the table into one of its own entries
    sits in a loop that repeats as long as an entry changed.  A single sweep leaves an internal variable (?'_t4) in
    the term that is returned: not the term that was printed, and not well typed."""
    res = RuleResult('C08.U8', 'the representatives of internal type variables are expanded to a fixpoint', floor=1)
    f = repo.func('syntax/infertype.py', 'type_infer')
    stores = [a for a in ast.walk(f.node) if isinstance(a, ast.Assign) and isinstance(a.targets[0], ast.Subscript) and isinstance(a.targets[0].value, ast.Name) and
              isinstance(a.value, ast.Call) and call_attr(a.value) == 'subst' and a.value.args and is_name(a.value.args[0], a.targets[0].value.id)]
    need(stores, 'type_infer: expansion of the representatives (`tyinst[..] = T.subst(tyinst)`) not found')
    parent = {}
    for n in ast.walk(f.node):
        for c in ast.iter_child_nodes(n):
            parent[id(c)] = n
    for a in stores:
        whiles = []
        cur = a
        while id(cur) in parent:
            cur = parent[id(cur)]
            if isinstance(cur, ast.While):
                whiles.append(cur)
        ok = False
        for w in whiles:
            flags = {x.id for x in ast.walk(w.test) if isinstance(x, ast.Name)}
            # the flag is raised next to the store, and lowered at the start of each round
            blk = parent[id(a)]
            body = blk.body if a in getattr(blk, 'body', []) else getattr(blk, 'orelse', [])
            raised = any(isinstance(st, ast.Assign) and isinstance(st.targets[0], ast.Name) and st.targets[0].id in flags and
                         isinstance(st.value, ast.Constant) and st.value.value is True for st in body)
            lowered = any(isinstance(st, ast.Assign) and isinstance(st.targets[0], ast.Name) and st.targets[0].id in flags and
                          isinstance(st.value, ast.Constant) and st.value.value is False for st in w.body)
            if raised and lowered:
                ok = True
        res.add('syntax/infertype.py :: type_infer :: fixpoint(%s)' % src(a, 40), ok,
                'repeated until no entry changes' if ok else
                'line %d is not repeated until no entry changes (no enclosing loop whose flag is raised exactly where an entry is expanded and lowered only '
                'at the start of a round): an entry that mentions a variable whose own entry is expanded later keeps it, and the parsed '
                'term contains an internal type variable (!u. u = [[x]] --> u = u came back with = at ?\'_t4 list list)' % a.lineno,
                'syntax/infertype.py:%d' % a.lineno)
    return res


def rule_u9(repo):
    """Printing, parsing and type inference read the declarations of the current context, the theory and the printer settings
    from process-wide variables that `with fresh_context(..)`, `fresh_theory()`, `global_setting(..)` set for the extent of a
    block: sa/persist.scoped_state_rule."""
    from ..persist import scoped_state_rule
    return scoped_state_rule(repo, 'C08.U9')

def rule_u10(repo):
    """Joining a class of internal type variables with a type T2 adds, for every member k of the class, everything reachable
    from T2 to what is reachable from k.  The occurs check is about exactly these additions: k must not be among what is
    added to reach[k].  It therefore has to be made for *every member whose entry is extended* - a test of one
    representative says nothing about the others (u = v merges u and v; P (u u) then closes a cycle through u, which is
    not the representative), and the missed cycle ends in unbounded recursion when the types are expanded."""
    from ..idioms import forall_not_edges
    res = RuleResult('C08.U10', 'the occurs check is made for every member of the class whose reachability set is extended', floor=1)
    f = repo.func(INFER, 'type_infer.<locals>.union')
    cfg = cfg_of(f.node)
    n_sites = 0
    for n in cfg.nodes:
        if n.kind != 'stmt' or not isinstance(n.ast, ast.Expr) or not isinstance(n.ast.value, ast.Call):
            continue
        c = n.ast.value
        if not (call_attr(c) == 'update' and isinstance(c.func.value, ast.Subscript) and is_name(c.func.value.value, 'reach') and c.args):
            continue
        n_sites += 1
        key, added = src(c.func.value.slice), src(c.args[0])

        def own(e, pol, key=key, added=added):
            cp = compare_parts(e)
            if not cp or src(cp[1]) != key or src(cp[2]) != added:
                return False
            return (cp[0] is ast.In and not pol) or (cp[0] is ast.NotIn and pol)
        edges = set(cfg.establishing_edges(own))
        # an earlier loop (or any(..)) that raises as soon as one element is among what will be added
        e2, _infos = forall_not_edges(cfg, lambda it: True, lambda e, v, added=added: (
            True if (lambda cp: cp and cp[0] is ast.In and is_name(cp[1], v) and src(cp[2]) == added)(compare_parts(e)) else None))
        edges |= set(e2)
        ok = bool(edges) and cfg.path_avoiding(n, skip_edges=edges) is None
        res.add('%s :: type_infer.union :: occurs-check-per-member(reach[%s])' % (INFER, key), ok,
                '`%s in %s` raises before reach[%s] is extended' % (key, added, key) if ok else
                'line %d extends reach[%s] by `%s` without having tested `%s in %s` for that %s: a cycle closed through a member of the class that is not its '
                'representative (u = v & P (u u)) is not reported, and expanding the types recurses without end' % (n.lineno, key, added, key, added, key),
                '%s:%d' % (INFER, n.lineno))
    need(n_sites, 'type_infer.union: no `reach[..].update(..)` found')
    return res

def rule_u11(repo):
    """`union(T1, T2)` re-points the members of the class whose *representative* is T1: it looks for `uf[k] == T1`.  Handed a type variable
    that is no longer the representative of its class (it was merged while something else was inferred) it finds no member, does
    nothing, and the constraint is dropped without a clash or an occurs check - f (f x) is then accepted.  `unify` looks the
    representatives up first; so `union` is called from `unify` only (who-may-call), with arguments `unify` has resolved."""
    res = RuleResult('C08.U11', 'classes of type variables are joined only through unify, which resolves representatives first', floor=1)
    top = repo.func(INFER, 'type_infer')
    need('union' in top.nested and 'unify' in top.nested, 'type_infer: nested union / unify not found')
    outside = []
    n_calls = 0
    for name, g in top.nested.items():
        for c in ast.walk(g.node):
            if isinstance(c, ast.Call) and is_name(c.func, 'union'):
                n_calls += 1
                if name != 'unify':
                    outside.append((name, c))
    for c in walk_no_nested(top.node):
        if isinstance(c, ast.Call) and is_name(c.func, 'union'):
            n_calls += 1
            outside.append(('type_infer', c))
    need(n_calls, 'type_infer: union is never called')
    # inside unify: the representatives are looked up (uf[..]) before any call of union
    u = top.nested['unify']
    cfg = cfg_of(u.node)
    def reads_uf(e):
        # `uf[..]` itself, or a call of a sibling helper that returns `uf[..]`
        for x in ast.walk(e):
            if isinstance(x, ast.Subscript) and is_name(x.value, 'uf'):
                return True
            if isinstance(x, ast.Call) and isinstance(x.func, ast.Name) and x.func.id in top.nested and x.func.id not in ('unify', 'union') and \
                    any(isinstance(r, ast.Return) and r.value is not None and any(isinstance(y, ast.Subscript) and is_name(y.value, 'uf') for y in ast.walk(r.value))
                        for r in ast.walk(top.nested[x.func.id].node)):
                return True
        return False
    looks = [n for n in cfg.nodes if n.kind == 'stmt' and isinstance(n.ast, ast.Assign) and reads_uf(n.ast.value)]
    res.add('%s :: type_infer :: union-called-from-unify-only' % INFER, not outside and bool(looks),
            '%d call(s), all inside unify, which reads the representatives from uf first' % n_calls if not outside and looks else
            ('line %d: `%s` is called from %s: the type variable it is handed need not be the representative of its class any more, union then joins nothing and '
             'the constraint is lost - f (f x) gets a type' % (outside[0][1].lineno, src(outside[0][1], 50), outside[0][0]) if outside else
             'unify no longer looks the representatives up before joining'), '%s:%d' % (INFER, (outside[0][1] if outside else u.node).lineno))
    return res


def rule_u12(repo):
    """`reach[k]` is what was reachable from k *when k was bound*; the variables in it may have been bound since.  The set the occurs
    check looks into (`k in <set>`) therefore has to be closed under `reach` first: a loop in `union` that keeps adding `reach[j]`
    for the j already in the set - or, the eager alternative, the sets of the variables that reach a member are extended as well
    (an update of `reach[j]` under a test of `reach[j]`).  Without either, a cycle through a variable bound later
    (x y, y z, z x) is not seen and the final expansion of the types does not end."""
    res = RuleResult('C08.U12', 'the set the occurs check looks into is closed under the recorded reachability', floor=1)
    f = repo.func(INFER, 'type_infer.<locals>.union')
    cfg = cfg_of(f.node)
    tests = []
    for n in cfg.nodes:
        if n.ast is None:
            continue
        for h in cfg.headers(n):
            for x in ast.walk(h):
                cp = compare_parts(x) if isinstance(x, ast.Compare) else None
                if cp and cp[0] in (ast.In, ast.NotIn) and isinstance(cp[2], ast.Name) and any(
                        isinstance(r, ast.Raise) for b in ast.walk(f.node) if isinstance(b, ast.If) and any(y is x for y in ast.walk(b.test)) for r in ast.walk(b)):
                    tests.append((n, cp[2].id, x))
    need(tests, 'union: no occurs check (`k in <set>` followed by a failure) found')

    def closing_loops(setname):
        out = []
        for a in f.node.body:        # a loop every activation runs through
            if not isinstance(a, (ast.While, ast.For)):
                continue
            grows = any(isinstance(c, ast.Call) and call_attr(c) in ('add', 'update') and is_name(c.func.value, setname) for c in ast.walk(a))
            reads = any(isinstance(sub, ast.Subscript) and is_name(sub.value, 'reach') for sub in ast.walk(a))
            feeds_back = isinstance(a, ast.While) or any(isinstance(c, ast.Call) and call_attr(c) in ('append', 'extend', 'add') and
                                                          isinstance(c.func.value, ast.Name) and any(is_name(x, c.func.value.id) for x in ast.walk(a.iter)) for c in ast.walk(a))
            if grows and reads and feeds_back:
                out.append(a)
        return out
    eager = [c for c in ast.walk(f.node) if isinstance(c, ast.If) and any(isinstance(sub, ast.Subscript) and is_name(sub.value, 'reach') for sub in ast.walk(c.test)) and
             any(isinstance(u, ast.Call) and call_attr(u) == 'update' and isinstance(u.func.value, ast.Subscript) and is_name(u.func.value.value, 'reach') for u in ast.walk(c))]
    for i, (n, setname, x) in enumerate(tests):
        loops = closing_loops(setname)
        ok = bool(eager) or any(l.lineno < x.lineno for l in loops)
        res.add('%s :: type_infer.union :: closed-before-occurs-check(%s)#%d' % (INFER, setname, i + 1), ok,
                '`%s` is closed under reach before line %d looks into it' % (setname, x.lineno) if ok else
                'line %d looks for the member in `%s`, which holds what was reachable when each variable was bound and is not closed under the bindings made '
                'since: the cycle of x y, y z, z x goes unnoticed and the expansion of the types does not end' % (x.lineno, setname), '%s:%d' % (INFER, x.lineno))
    return res


def rules(repo):
    return [rule_u1(repo), rule_u2(repo), rule_u3(repo), rule_u4(repo), rule_u5(repo), rule_u6(repo), rule_u7(repo), rule_u8(repo), rule_u9(repo), rule_u10(repo), rule_u11(repo), rule_u12(repo)]
