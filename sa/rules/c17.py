"""C17 - congruence closure: bookkeeping that the reported equalities and their explanations rest on.

The property (equal exactly when entailed, order independence) is about union-find / use-list states over
merge histories and is not decided here.  What is visible in the shape of the code are the pairings the
Nieuwenhuis-Oliveras structure lives by: every union is recorded in the proof forest under the equation
that caused it; every equation f(a1, a2) = a stays findable (lookup / use list) or becomes pending; the
wrapper keeps proofs under the pair it merged and chains explanation steps without re-using the chain."""
import ast

from ..normalize import as_func, unroll_literal_loops

from ..core import RuleResult, need
from ..cfg import cfg_of
from ..flow import flow_of
from ..astutil import src, call_attr, call_name, is_name, path_of, walk_no_nested, compare_parts

CONGC = 'prover/congc.py'

NOT_DECIDED = ('that two terms are reported equal exactly when the merged equations entail it, independence of the order of '
               'merges and additions, checker acceptance of explanations (runtime states of rep / class_list / use_list / lookup / '
               'proof_forest over merge histories)')
ASSUMPTIONS = ['ProofTerm.transitive(self, *pts) chains self, then each argument in turn (read)',
               'queue.Queue.get returns the elements in the order they were put (stdlib)']


def _calls(node, attr):
    return [c for c in ast.walk(node) if isinstance(c, ast.Call) and call_attr(c) == attr]


def rule_g1(repo):
    res = RuleResult('C17.G1', 'every union of two classes is recorded in the proof forest under the pending equation that caused it', floor=2)
    f = repo.func(CONGC, 'CongClosure._propagate')
    cfg = cfg_of(f.node)
    # the equation taken from the queue
    gets = [n for n in cfg.stmt_nodes(ast.Assign) if isinstance(n.ast.value, ast.Call) and call_attr(n.ast.value) == 'get' and
            (path_of(n.ast.value.func.value) or '').endswith('pending')]
    need(gets, '_propagate: no `E = self.pending.get()`')
    ev = gets[0].ast.targets[0]
    need(isinstance(ev, ast.Name), '_propagate: pending element is not bound to a name')
    # union: stores into self.rep[...] inside a loop over a class list
    unions = [n for n in cfg.stmt_nodes(ast.Assign) if any(isinstance(t, ast.Subscript) and path_of(t.value) == 'self.rep' for t in n.ast.targets)]
    need(unions, '_propagate: no store into self.rep found')
    edges = [n for n in cfg.nodes if n.kind == 'stmt' and any(
        call_attr(c) == '_add_edge_proof_forest' and len(c.args) == 3 and is_name(c.args[2], ev.id) for c in ast.walk(n.ast) if isinstance(c, ast.Call))]
    for u in unions:
        ok = bool(edges) and cfg.path_avoiding(u, skip_nodes=edges, start=gets[0]) is None
        res.add('%s :: CongClosure._propagate :: union(%s) :: forest-edge' % (CONGC, src(u.ast.targets[0], 30)), ok,
                'preceded by _add_edge_proof_forest(.., .., %s)' % ev.id if ok else
                'representatives are changed without adding the proof-forest edge labelled with the pending equation: the two terms are '
                'reported equal but explain() finds no path (or a path through an unrelated equation)', '%s:%d' % (CONGC, u.lineno))
    # the edge joins the two constants of the equation, not their representatives' classes' other members
    ae = repo.func(CONGC, 'CongClosure._add_edge_proof_forest')
    aeflow = flow_of(ae.node)
    stores = [n for n in ast.walk(ae.node) if isinstance(n, ast.Assign) and any(
        isinstance(t, ast.Subscript) and path_of(aeflow.inline(t.value)) == 'self.proof_forest' for t in n.targets)]
    p = ae.params()
    ok = any(isinstance(n.value, ast.Tuple) and len(n.value.elts) == 2 and is_name(n.value.elts[0], p[2]) and is_name(n.value.elts[1], p[3]) and
             is_name(n.targets[0].slice, p[1]) for n in stores if isinstance(n.targets[0], ast.Subscript))
    res.add('%s :: CongClosure._add_edge_proof_forest :: edge(s1 -> (s2, label))' % CONGC, ok,
            'proof_forest[%s] = (%s, %s)' % (p[1], p[2], p[3]) if ok else 'the new edge does not point from the first constant to the second under the given label', ae.loc)
    return res


def rule_g2(repo):
    res = RuleResult('C17.G2', 'an application equation f(a1, a2) = a never gets lost: it is made pending, or stays registered in lookup and in the use lists of both arguments', floor=3)
    # --- _propagate: each equation of the absorbed class goes to pending or to lookup + use list of the new representative
    cls = repo.module(CONGC).classes['CongClosure']

    def with_helpers(fn):
        """the method and the methods of the class it calls on self (a step of it may have been extracted)"""
        g = repo.func(CONGC, 'CongClosure.' + fn)
        out = [g]
        for c in ast.walk(g.node):
            if isinstance(c, ast.Call) and isinstance(c.func, ast.Attribute) and is_name(c.func.value, 'self') and c.func.attr in cls.methods and \
                    c.func.attr not in ('merge', '_propagate', '_add_edge_proof_forest', '_path_to_root') and cls.methods[c.func.attr] not in out:
                out.append(cls.methods[c.func.attr])
        # `for r in (rep_a1, rep_a2): self.use_list[r].append(eq)` is read as the two appends it stands for
        return [as_func(h, unroll_literal_loops(h.node)) for h in out]
    f, loops = None, []
    for cand in with_helpers('_propagate'):
        ls = [n for n in walk_no_nested(cand.node, include_root=False) if isinstance(n, ast.For) and 'use_list' in src(n.iter)]
        if ls:
            f, loops = cand, ls
            break
    need(loops, '_propagate: loop over the use list not found')
    lp = loops[0]
    cfg = cfg_of(f.node)
    it = [n for n in cfg.nodes_of_kind('iter') if n.ast is lp][0]
    body_start = [b for b, l in it.succ if l == 'loop']
    handled = [n for n in cfg.nodes if n.kind == 'stmt' and (
        any((path_of(c.func.value) or '').endswith('pending') for c in _calls(n.ast, 'put')) or
        any('use_list' in src(c.func.value) for c in _calls(n.ast, 'append')))]
    # a path through the body back to the loop head that touches neither
    back = cfg.reach_from(body_start, skip_nodes=handled)
    ok = bool(handled) and it.id not in back
    res.add('%s :: CongClosure._propagate :: use-list(%s)' % (CONGC, src(lp.iter, 30)), ok,
            'every equation is put on pending or appended to a use list' if ok else
            'an equation of the absorbed class can be dropped: a later merge of its arguments is not propagated to its value', '%s:%d' % (CONGC, lp.lineno))
    # lookup store and use-list append go together
    for fn in ('CongClosure._propagate', 'CongClosure.merge'):
        g, lk = None, []
        for cand in with_helpers(fn.split('.')[1]):
            gcfg = cfg_of(cand.node)
            lk = [n for n in gcfg.stmt_nodes(ast.Assign) if any(isinstance(t, ast.Subscript) and path_of(t.value) == 'self.lookup' for t in n.ast.targets)]
            if lk:
                g = cand
                break
        need(lk, '%s: store into self.lookup not found' % fn)
        for n in lk:
            apps = [m for m in gcfg.nodes if m.kind == 'stmt' and any('use_list' in src(c.func.value) for c in _calls(m.ast, 'append'))]
            # from the lookup store the function cannot end without a use-list append
            after = gcfg.reach_from([b for b, _l in n.succ], skip_nodes=apps)
            ok = bool(apps) and gcfg.exit.id not in after and not any(
                x.kind == 'iter' and x.id in after for x in gcfg.nodes if fn.endswith('_propagate') and x.ast is lp)
            res.add('%s :: %s :: lookup-with-use-list' % (CONGC, fn), ok,
                    'a new lookup entry is also entered in a use list' if ok else
                    'an equation is entered in lookup but in no use list: it is found as a congruence partner once, but not re-examined when its '
                    'arguments\' classes are merged later', '%s:%d' % (CONGC, n.lineno))
    # merge: the equation that is entered is made pending or registered in lookup, on every path
    from ..inline import inlined
    mg = inlined(repo.func(CONGC, 'CongClosure.merge'), lambda h: h.cls is cls and h.name not in ('merge', '_propagate', 'add_var', '_add_edge_proof_forest', '_path_to_root'))[0]
    mcfg = cfg_of(mg.node)
    kept = [n for n in mcfg.nodes if n.kind == 'stmt' and (
        any((path_of(c.func.value) or '').endswith('pending') for c in _calls(n.ast, 'put')) or
        (isinstance(n.ast, ast.Assign) and any(isinstance(t, ast.Subscript) and path_of(t.value) == 'self.lookup' for t in n.ast.targets)))]
    lost = mcfg.path_avoiding(mcfg.exit, skip_nodes=kept)
    res.add('%s :: CongClosure.merge :: entered-equation-kept' % CONGC, bool(kept) and lost is None,
            'every path through merge puts the equation on pending or enters it in lookup' if kept and lost is None else
            'merge can return (through line %s) without making the equation pending or entering it in lookup: f(a, b) = d entered after f(a, b) = c is '
            'dropped and c = d is not derived' % [n.lineno for n in (lost or []) if n.kind in ('test', 'return', 'stmt')][-2:], mg.loc)
    # merge: both arguments' use lists
    g = repo.func(CONGC, 'CongClosure.merge')
    apps = [c for h in with_helpers('merge') for c in _calls(h.node, 'append') if 'use_list' in src(c.func.value)]
    idx = {src(c.func.value.slice) for c in apps if isinstance(c.func.value, ast.Subscript)}
    ok = len(idx) >= 2
    res.add('%s :: CongClosure.merge :: both-arguments' % CONGC, ok,
            'use lists of %s' % sorted(idx) if ok else 'a new application equation is registered in the use list of only one of its arguments', g.loc)
    return res


def rule_g3(repo):
    res = RuleResult('C17.G3', 'equality is answered by comparing representatives; every new constant starts as its own class and a root of the proof forest', floor=2)
    t = repo.func(CONGC, 'CongClosure.test')
    rets = [n for n in ast.walk(t.node) if isinstance(n, ast.Return)]
    ok = len(rets) == 1 and bool(compare_parts(rets[0].value)) and compare_parts(rets[0].value)[0] is ast.Eq and \
        all(isinstance(x, ast.Subscript) and path_of(x.value) == 'self.rep' for x in compare_parts(rets[0].value)[1:])
    res.add('%s :: CongClosure.test :: representatives' % CONGC, ok, 'self.rep[a] == self.rep[b]' if ok else 'test does not compare representatives', t.loc)
    av = repo.func(CONGC, 'CongClosure.add_var')
    stored = {path_of(tg.value) for n in ast.walk(av.node) if isinstance(n, ast.Assign) for tg in n.targets if isinstance(tg, ast.Subscript)}
    want = {'self.rep', 'self.class_list', 'self.use_list', 'self.proof_forest'}
    ok = want <= stored
    res.add('%s :: CongClosure.add_var :: initialises-all-tables' % CONGC, ok,
            'rep, class_list, use_list and proof_forest get an entry' if ok else 'a new constant gets no entry in %s' % sorted(want - stored), av.loc)
    return res


def rule_g4(repo):
    res = RuleResult('C17.G4', 'the wrapper keeps a proof under the pair it merged, and extends an explanation chain by exactly the next step', floor=3)
    m = repo.func(CONGC, 'CongClosureHOL.merge')
    mc = [c for c in _calls(m.node, 'merge') if (path_of(c.func.value) or '').endswith('closure') and
          (len(c.args) == 2 or (len(c.args) == 1 and isinstance(c.args[0], ast.Starred)))]
    st = [n for n in ast.walk(m.node) if isinstance(n, ast.Assign) and any(isinstance(t, ast.Subscript) and path_of(t.value) == 'self.pts' for t in n.targets)]
    need(mc and st, 'CongClosureHOL.merge: closure.merge(..) or the store into self.pts not found')
    key = st[0].targets[0].slice
    g4flow = flow_of(m.node)

    def pair(e):
        # the two constants an expression stands for: (a, b) written out, or one name for the pair (merge(*p), pts[p])
        e = e.value if isinstance(e, ast.Starred) else e
        v = g4flow.inline(e)
        return [src(x) for x in v.elts] if isinstance(v, ast.Tuple) else ['*' + src(v)]
    merged = pair(mc[0].args[0]) if len(mc[0].args) == 1 else [src(g4flow.inline(a)) for a in mc[0].args]
    ok = pair(key) == merged
    res.add('%s :: CongClosureHOL.merge :: proof-key' % CONGC, ok,
            'self.pts[(%s)] for closure.merge(%s)' % (', '.join(src(a) for a in mc[0].args), ', '.join(src(a) for a in mc[0].args)) if ok else
            'the proof of a merged equation is stored under `%s` but the closure records the equation as (%s): explain() finds no proof for it and '
            'leaves a gap, or finds the proof of another equation' % (src(key), ', '.join(src(a) for a in mc[0].args)), m.loc)
    e = repo.func(CONGC, 'CongClosureHOL.explain')
    gp = need(e.nested.get('get_proofterm'), 'CongClosureHOL.explain: nested get_proofterm not found')
    steps = [n for n in ast.walk(gp.node) if isinstance(n, ast.Assign) and isinstance(n.value, ast.Call) and call_attr(n.value) == 'transitive' and
             isinstance(n.targets[0], ast.Name) and is_name(n.value.func.value, n.targets[0].id)]
    need(len(steps) >= 2, 'get_proofterm: forward and backward chain steps not found')
    for n in steps:
        acc = n.targets[0].id
        selfarg = any(is_name(a, acc) for a in n.value.args)
        one = len(n.value.args) == 1
        sym = any(call_attr(a) == 'symmetric' for a in n.value.args if isinstance(a, ast.Call))
        ok = not selfarg and one
        res.add('%s :: CongClosureHOL.explain.get_proofterm :: chain-step(%s)' % (CONGC, 'backward' if sym else 'forward'), ok,
                '%s = %s' % (acc, src(n.value)) if ok else
                '`%s`: transitive(self, *pts) chains self and then every argument, so passing the chain itself again asks for x = y, x = y, ... '
                'and raises unless the chain is still reflexive: every explanation that crosses an equation against its direction fails' % src(n),
                '%s:%d' % (CONGC, n.lineno))
    # the two directions: one extends by the step, the other by its symmetric, and each moves the position to the other end
    syms = [any(call_attr(a) == 'symmetric' for a in n.value.args if isinstance(a, ast.Call)) for n in steps]
    ok = sorted(syms) == [False, True]
    res.add('%s :: CongClosureHOL.explain.get_proofterm :: both-directions' % CONGC, ok,
            'one step as given, one through symmetric()' if ok else 'the forward and the backward step are not distinguished by symmetric()', gp.loc)
    return res


def rule_g5(repo):
    """closure.explain(s, t) records no path for s == t (nothing to explain).  Every use of
    get_proofterm(u, v) must therefore be guarded by u != v, or get_proofterm must answer the reflexive case
    itself; otherwise explaining t = t, which test() reports as equal, raises KeyError."""
    res = RuleResult('C17.G5', 'the explanation of an equality between identical constants is the reflexive theorem, at every place an explanation is requested', floor=2)
    e = repo.func(CONGC, 'CongClosureHOL.explain')
    gp = need(e.nested.get('get_proofterm'), 'CongClosureHOL.explain: nested get_proofterm not found')
    u, v = gp.params()[:2]
    cfg = cfg_of(gp.node)
    # does get_proofterm handle u == v before it reads the table of paths?
    reads = [n for n in cfg.nodes if n.kind == 'stmt' and any(isinstance(x, ast.Subscript) and is_name(x.value, 'explain') for x in ast.walk(n.ast))]

    def differ(ex, pol):
        cp = compare_parts(ex)
        if not cp or {src(cp[1]), src(cp[2])} != {u, v}:
            return False
        return (cp[0] is ast.NotEq and pol) or (cp[0] is ast.Eq and not pol)
    edges = cfg.establishing_edges(differ)
    self_guarded = bool(reads) and bool(edges) and all(cfg.path_avoiding(r, skip_edges=edges) is None for r in reads)
    parent = {}
    for n in ast.walk(e.node):
        for ch in ast.iter_child_nodes(n):
            parent[id(ch)] = n
    for c in ast.walk(e.node):
        if not (isinstance(c, ast.Call) and is_name(c.func, 'get_proofterm') and len(c.args) == 2):
            continue
        a, b = src(c.args[0]), src(c.args[1])
        guarded = self_guarded
        p = parent.get(id(c))
        if isinstance(p, ast.IfExp) and p.body is c:
            cp = compare_parts(p.test)
            guarded = guarded or bool(cp and cp[0] is ast.NotEq and {src(cp[1]), src(cp[2])} == {a, b})
        res.add('%s :: CongClosureHOL.explain :: request(get_proofterm(%s, %s))' % (CONGC, a, b), guarded,
                'guarded by %s != %s (or handled inside)' % (a, b) if guarded else
                'get_proofterm(%s, %s) is called without excluding %s == %s, for which closure.explain records no path: explain(t, t) raises '
                'KeyError although test(t, t) is True' % (a, b, a, b), '%s:%d' % (CONGC, c.lineno))
    return res


def rule_g6(repo):
    """The stale-operand rule of C06.Z6 for this property's modules."""
    from .. import persist
    res = RuleResult('C17.G6', 'after the smaller class was chosen by swapping, the expressions the swapped names were first bound to are not used again', floor=20)
    for rel in (CONGC, 'util/unionfind.py'):
        m = repo.module(rel)
        for f in m.all_funcs:
            cfg = cfg_of(f.node)
            bad = persist.stale_after_swap(f.node, cfg)
            res.add('%s :: %s :: no-stale-operand' % (rel, f.qualname), not bad,
                    'no use of a swapped operand through its old expression' if not bad else
                    '`%s` (line %d) is used after `%s` (line %d), where it no longer is what `%s` stands for' % (
                        bad[0][2], bad[0][1].lineno, src(bad[0][0].ast, 40), bad[0][0].lineno, bad[0][3]), f.loc, nontrivial=bool(bad))
    return res


def rule_g7(repo):
    """Adding the edge s1 -> s2 re-roots the tree of s1: every ancestor on the old path to the root is hung
    under its former *child*.  In the loop over that path, the new parent stored for an ancestor must change
    from round to round (the previous node of the path); a name set once before the loop hangs every
    ancestor under the same node, and explanations come out as paths through unrelated equations."""
    res = RuleResult('C17.G7', 're-rooting a proof tree hangs each ancestor under the previous node of the path', floor=1)
    f = repo.func(CONGC, 'CongClosure._add_edge_proof_forest')
    loops = [n for n in ast.walk(f.node) if isinstance(n, ast.For)]
    need(loops, '_add_edge_proof_forest: loop over the path to the root not found')
    lp = loops[0]
    loop_vars = {x.id for x in ast.walk(lp.target) if isinstance(x, ast.Name)}
    assigned_in_loop = {t.id for st in lp.body for n in ast.walk(st) if isinstance(n, ast.Assign) for tt in n.targets
                        for t in ast.walk(tt) if isinstance(t, ast.Name)}
    g7flow = flow_of(f.node)
    stores = [n for st in lp.body for n in ast.walk(st) if isinstance(n, ast.Assign) and any(
        isinstance(t, ast.Subscript) and path_of(g7flow.inline(t.value)) == 'self.proof_forest' for t in n.targets)]     # `forest = self.proof_forest`
    need(stores, '_add_edge_proof_forest: no store into the proof forest inside the loop')
    for s_ in stores:
        v = s_.value
        # the new parent: the first component of a written-out pair; a pair that comes ready-made (an element of a list prepared before the
        # loop) varies with the loop if the stored value does
        parent = v.elts[0] if isinstance(v, ast.Tuple) and v.elts else v
        names = {x.id for x in ast.walk(parent) if isinstance(x, ast.Name)} if parent is not None else set()
        # varies with the loop: mentions the loop variable, or a name that is (re)assigned inside the loop
        def depends(nm, seen=()):
            if nm in loop_vars:
                return True
            if nm in seen:
                return False
            for st in lp.body:
                for n in ast.walk(st):
                    if isinstance(n, ast.Assign) and any(isinstance(t, ast.Name) and t.id == nm for tt in n.targets for t in ast.walk(tt)):
                        if any(depends(x.id, seen + (nm,)) for x in ast.walk(n.value) if isinstance(x, ast.Name)) or True:
                            return True
            return False
        ok = bool(names) and any(depends(nm) for nm in names)
        res.add('%s :: CongClosure._add_edge_proof_forest :: new-parent(%s)' % (CONGC, src(parent, 30) if parent is not None else '?'), ok,
                'the new parent is taken from the path, round by round' if ok else
                'every ancestor is hung under `%s`, which does not change inside the loop: after a = b, c = a, d = e, d = f, c = d the explanation of '
                'b = c is [a = b]' % (src(parent, 30) if parent is not None else '?'), '%s:%d' % (CONGC, s_.lineno))
    return res


def rule_g8(repo):
    """explain(s, t) stores under the key (s, t) the chain of equations that leads *from s to t*: up from s to
    the common ancestor, then down to t.  The consumer (CongClosureHOL.get_proofterm) walks the chain from s.  Every
    store into the result must therefore be the chain built in this activation from the path of the first key
    component followed by the path of the second - not an entry copied from another key (the chain of (t, s) runs
    the other way)."""
    res = RuleResult('C17.G8', 'an explanation is stored under the pair it was computed for, in that direction', floor=1)
    cls = repo.module(CONGC).classes['CongClosure']
    f = need(cls.find_method('explain'), 'CongClosure.explain not found')
    ps = f.params()
    s_p, t_p = ps[1], ps[2]
    flow = flow_of(f.node)
    stores = [a for a in ast.walk(f.node) if isinstance(a, ast.Assign) and isinstance(a.targets[0], ast.Subscript) and is_name(a.targets[0].value, 'res')]
    need(stores, 'explain: no store into the result found')
    paths = {}
    for a in ast.walk(f.node):
        if isinstance(a, ast.Assign) and isinstance(a.value, ast.Call) and call_attr(a.value) == '_path_to_root' and isinstance(a.targets[0], ast.Name) and a.value.args and isinstance(a.value.args[0], ast.Name):
            paths[a.value.args[0].id] = a.targets[0].id
    for a in stores:
        key = a.targets[0].slice
        problems = []
        if not (isinstance(key, ast.Tuple) and len(key.elts) == 2 and is_name(key.elts[0], s_p) and is_name(key.elts[1], t_p)):
            problems.append('the key `%s` is not the pair (%s, %s) of this call' % (src(key, 30), s_p, t_p))
        v = a.value
        if any(isinstance(x, ast.Subscript) and is_name(x.value, 'res') for x in ast.walk(v)) or \
                any(isinstance(x, ast.Call) and call_attr(x) == 'get' and is_name(x.func.value, 'res') for x in ast.walk(v)):
            problems.append('the value `%s` is an entry stored for another pair' % src(v, 40))
        else:
            closure = flow.names_closure(v)
            if not (paths.get(s_p) in closure and paths.get(t_p) in closure):
                problems.append('the value does not come from the paths of %s and %s to their root' % (s_p, t_p))
        res.add('%s :: CongClosure.explain :: store(%s)' % (CONGC, src(a.targets[0], 30)), not problems,
                'the chain built here from the path of %s, then of %s' % (s_p, t_p) if not problems else
                'line %d: %s -- the consumer walks the chain from the first component of the key: a chain that runs from %s to %s under the key '
                '(%s, %s) makes get_proofterm fail although test() says the terms are equal' % (a.lineno, '; '.join(problems), t_p, s_p, s_p, t_p),
                '%s:%d' % (CONGC, a.lineno))
    return res

def rule_g9(repo):
    """A union re-points every member of one class (`for c in class_list[X]: rep[c] = Y`) - the members are found through
    the class list, so the list of the surviving representative Y has to take them over (`class_list[Y] += class_list[X]`)
    and the list of X goes away.  If the lists that are joined are not the ones of that X and that Y, the members moved now
    are not in Y's list: the next union that absorbs Y re-points Y's recorded members only, the others keep a dead
    representative, and equalities that were literally merged are answered False."""
    res = RuleResult('C17.G9', 'the class list of the surviving representative takes over exactly the members that were re-pointed to it', floor=1)
    f = repo.func(CONGC, 'CongClosure._propagate')
    flow = flow_of(f.node)

    def cl_key(e):
        """e is self.class_list[K] (directly or through a second name for the table): the text of K"""
        e = flow.inline(e)
        if isinstance(e, ast.Subscript) and (path_of(flow.inline(e.value)) or '').endswith('class_list'):
            return src(flow.inline(e.slice), 60)
        return None
    loops = []
    for n in ast.walk(f.node):
        if isinstance(n, ast.For) and isinstance(n.target, ast.Name) and cl_key(n.iter) is not None:
            for st in ast.walk(n):
                if isinstance(st, ast.Assign) and any(isinstance(t, ast.Subscript) and (path_of(flow.inline(t.value)) or '').endswith('.rep') and
                                                     is_name(t.slice, n.target.id) for t in st.targets):
                    loops.append((n, cl_key(n.iter), src(flow.inline(st.value), 60)))
    need(loops, '_propagate: the loop that re-points the members of a class not found')
    joins = []
    for n in ast.walk(f.node):
        if isinstance(n, ast.AugAssign) and isinstance(n.op, ast.Add) and cl_key(n.target) is not None and cl_key(n.value) is not None:
            joins.append((n, cl_key(n.target), cl_key(n.value)))
        if isinstance(n, ast.Expr) and isinstance(n.value, ast.Call) and call_attr(n.value) == 'extend' and n.value.args and \
                cl_key(n.value.func.value) is not None and cl_key(n.value.args[0]) is not None:
            joins.append((n, cl_key(n.value.func.value), cl_key(n.value.args[0])))
        if isinstance(n, ast.Assign) and len(n.targets) == 1 and cl_key(n.targets[0]) is not None and isinstance(n.value, ast.BinOp) and \
                isinstance(n.value.op, ast.Add) and cl_key(n.value.left) is not None and cl_key(n.value.right) is not None:
            joins.append((n, cl_key(n.targets[0]), cl_key(n.value.right) if cl_key(n.value.left) == cl_key(n.targets[0]) else cl_key(n.value.left)))
    dels = [cl_key(t) for n in ast.walk(f.node) if isinstance(n, ast.Delete) for t in n.targets if cl_key(t) is not None]
    for lp, x, y in loops:
        good = [j for j in joins if j[1] == y and j[2] == x]
        problems = []
        if not good:
            problems.append('the members of class_list[%s] are re-pointed to %s, but the lists that are joined are %s' % (
                x, y, ', '.join('class_list[%s] += class_list[%s] (line %d)' % (t, s_, j.lineno) for j, t, s_ in joins) or 'none'))
        if x not in dels:
            problems.append('class_list[%s] is not removed' % x)
        res.add('%s :: CongClosure._propagate :: union(%s -> %s) :: class-list-takes-over' % (CONGC, x, y), not problems,
                'class_list[%s] += class_list[%s]; del class_list[%s]' % (y, x, x) if not problems else
                '; '.join(problems) + ' -- after merge(x,y), merge(x,z), merge(p,q), merge(x,p) the constant z keeps a representative that no longer exists and '
                'test(x, z) is False', '%s:%d' % (CONGC, lp.lineno))
    return res

def rule_g10(repo):
    """An explanation of s = t is a chain of equations that can be followed from s to t: up from s to the common ancestor
    of the two in the proof forest, then *down* to t.  The paths to the root are both stored upwards, so the half taken
    from the path of t has to be traversed in the reverse direction (the consumer follows the chain with
    `assert b == cur_pos`; with both halves upwards the second one starts at t instead of at the ancestor, and an entailed
    equality gets no proof).  Whatever form the two halves are written in, the one from the path of the first term is
    not reversed and the one from the path of the second term is."""
    res = RuleResult('C17.G10', 'the half of an explanation taken from the path of the second term is traversed downwards (reversed)', floor=1)
    cls = repo.module(CONGC).classes['CongClosure']
    f = need(cls.find_method('explain'), 'CongClosure.explain not found')
    ps = f.params()
    flow = flow_of(f.node)
    # names of the two root paths
    paths = {}
    for n in ast.walk(f.node):
        if isinstance(n, ast.Assign) and len(n.targets) == 1 and isinstance(n.targets[0], ast.Name) and isinstance(n.value, ast.Call) and \
                call_attr(n.value) == '_path_to_root' and n.value.args and isinstance(n.value.args[0], ast.Name) and n.value.args[0].id in ps[1:3]:
            paths[n.targets[0].id] = 'first' if n.value.args[0].id == ps[1] else 'second'
    need(len(paths) == 2, 'CongClosure.explain: the two paths to the root not found')

    def reversed_in(e):
        e = flow.inline(e)
        for x in ast.walk(e):
            if isinstance(x, ast.Call) and is_name(x.func, 'reversed'):
                return True
            if isinstance(x, ast.Subscript) and isinstance(x.slice, ast.Slice) and isinstance(x.slice.step, ast.UnaryOp) and isinstance(x.slice.step.op, ast.USub):
                return True
        return False
    found = {}
    # loops / comprehensions that read one of the paths and contribute to the chain
    for n in ast.walk(f.node):
        its = []
        if isinstance(n, ast.For):
            its = [(n.iter, n)]
        if isinstance(n, (ast.ListComp, ast.GeneratorExp)):
            its = [(g.iter, n) for g in n.generators]
        for it, holder in its:
            names = {x.id for x in ast.walk(holder) if isinstance(x, ast.Name)}
            which = [w for nm, w in paths.items() if nm in names]
            if len(which) != 1:
                continue
            # the search for the common ancestor compares both paths: not a contribution to the chain
            builds = any(isinstance(c, ast.Call) and call_attr(c) in ('append', 'extend') for c in ast.walk(holder)) or isinstance(holder, (ast.ListComp, ast.GeneratorExp))
            if not builds:
                continue
            found.setdefault(which[0], []).append((holder, reversed_in(it)))
    need('first' in found and 'second' in found, 'CongClosure.explain: the two halves of the chain (one per path) not found')
    problems = []
    if any(r for _h, r in found['first']):
        problems.append('the half from the path of the first term is reversed')
    if not all(r for _h, r in found['second']):
        h = [h for h, r in found['second'] if not r][0]
        problems.append('line %d takes the half from the path of the second term in the direction it is stored (upwards)' % h.lineno)
    res.add('%s :: CongClosure.explain :: up-from-s-down-to-t' % CONGC, not problems,
            'first half as stored, second half reversed' if not problems else '; '.join(problems) +
            ': the chain for a = b, b = c, c = d asked as explain(a, d) cannot be followed from a to d, and the entailed equality gets no accepted proof', f.loc)
    return res


def rules(repo):
    return [rule_g1(repo), rule_g2(repo), rule_g3(repo), rule_g4(repo), rule_g5(repo), rule_g6(repo), rule_g7(repo), rule_g8(repo), rule_g9(repo), rule_g10(repo)]
