"""C11 - definitional items: side conditions of Definition.parse, writer/reader key agreement of the item
classes, item_table exhaustiveness."""
import ast

from ..core import RuleResult, need
from ..cfg import cfg_of
from ..flow import flow_of
from ..astutil import src, call_attr, call_name, compare_parts, is_name, path_of, walk_no_nested, self_attr_stores
from ..dictkeys import written_keys, read_keys, stored_keys, _super_resolver
from ..repo import dotted

ITEMS = 'server/items.py'

NOT_DECIDED = ('well-typedness of the extensions generated from an item, correctness of the datatype / inductive '
               'predicate theorems, equality of re-parsed terms (C07)')
ASSUMPTIONS = ['Term.get_vars / get_consts / Type.get_tvars return all variables / constants / type variables (read)',
               'an exception raised inside the try block of parse is recorded in self.error by the handler']


# ---------------------------------------------------------------------- D1
def _api_closure(flow, expr):
    """method names called in expr or in the definitions of the local names it uses (transitively)"""
    names = flow.names_closure(expr)
    apis = {call_attr(c) for c in ast.walk(expr) if isinstance(c, ast.Call)}
    for nm in names:
        for _k, rhs in flow.defs.get(nm, []):
            apis |= {call_attr(c) for c in ast.walk(rhs) if isinstance(c, ast.Call)}
    return apis, names


def _repo_api_closure(repo, func, flow, expr, depth=2):
    apis, names = _api_closure(flow, expr)
    # follow helpers of the same repository (one or two levels)
    todo = [c for c in ast.walk(expr) if isinstance(c, ast.Call)]
    for nm in names:
        for _k, rhs in flow.defs.get(nm, []):
            todo += [c for c in ast.walk(rhs) if isinstance(c, ast.Call)]
    seen = set()
    d = 0
    while todo and d < depth:
        nxt = []
        for c in todo:
            for t in repo.resolve_call(func, c):
                if id(t) in seen or t.module.rel.startswith('kernel/'):
                    continue
                seen.add(id(t))
                for x in ast.walk(t.node):
                    if isinstance(x, ast.Call):
                        apis.add(call_attr(x))
                        nxt.append(x)
        todo = nxt
        d += 1
    return apis


GUARDS = [
    ('D1a', 'the proposition is an equality', lambda apis, e: 'is_equals' in {call_attr(c) for c in ast.walk(e) if isinstance(c, ast.Call)}),
    ('D1b', 'the head of the left side is the constant at its declared type',
     lambda apis, e: any(isinstance(c, ast.Call) and call_name(c) == 'Const' and len(c.args) == 2 and
                         {path_of(a) for a in c.args} == {'self.name', 'self.type'} for c in ast.walk(e))),
    ('D1c', 'every argument on the left is a variable', lambda apis, e: 'is_var' in apis and 'strip_comb' in apis),
    ('D1d', 'the variables on the left are distinct',
     lambda apis, e: (lambda cp: cp is not None and cp[0] in (ast.NotEq, ast.Eq) and all(isinstance(x, ast.Call) and call_name(x) == 'len' for x in (cp[1], cp[2])))(compare_parts(e))),
    ('D1e', 'no free variable on the right that is not an argument', lambda apis, e: 'get_vars' in apis),
    ('D1f', 'no type variable on the right that is absent from the constant\'s type',
     lambda apis, e: bool({'get_tvars', 'get_tsubs'} & apis)),
    ('D1g', 'the constant being defined does not occur on the right at an overlapping type',
     lambda apis, e: 'get_consts' in apis),
]


def rule_d1(repo):
    res = RuleResult('C11.D1', 'every path on which a definition is accepted passes each conservativity side condition', floor=7)
    f = repo.func(ITEMS, 'Definition.parse')
    cfg = cfg_of(f.node)
    flow = flow_of(f.node)
    handlers = cfg.nodes_of_kind('except')
    need(handlers, 'Definition.parse: no exception handler (the acceptance criterion self.error is None cannot be located)')
    # handler must record the error
    rec = any(isinstance(n, ast.Assign) and any(path_of(t) == 'self.error' for t in n.targets)
              for h in handlers for s in h.ast.body for n in ast.walk(s))
    need(rec, 'Definition.parse: handler does not assign self.error')
    for gid, title, match in GUARDS:
        est = set()
        sites = []
        for n in cfg.nodes:
            if n.kind == 'test':
                e = n.ast
                apis = _repo_api_closure(repo, f, flow, e)
                if not match(apis, e):
                    continue
                # the failing edge leads into the handler on every continuation; the other one passes
                for pas, fail in (('true', 'false'), ('false', 'true')):
                    fail_succ = [b for b, l in n.succ if l == fail]
                    pas_succ = [b for b, l in n.succ if l == pas]
                    if fail_succ and pas_succ and cfg.exit.id not in cfg.reach_from(fail_succ, skip_nodes=handlers) and \
                            cfg.exit.id in cfg.reach_from(pas_succ, skip_nodes=handlers):
                        est.add((n.id, pas))
                        sites.append(n.lineno)
            elif n.kind == 'iter':
                # a checking loop: what is consulted is the sequence together with the tests made of its elements (`for v in args: if not v.is_var(): raise`)
                apis = set(_repo_api_closure(repo, f, flow, n.ast.iter))
                inside = {id(x) for s_ in n.ast.body for x in ast.walk(s_)}
                for t_ in cfg.test_nodes():
                    if id(t_.ast) in inside:
                        apis |= set(_repo_api_closure(repo, f, flow, t_.ast))
                if match(apis, n.ast.iter) and any(isinstance(x, ast.Raise) for s in n.ast.body for x in ast.walk(s)):
                    est.add((n.id, 'done'))
                    sites.append(n.lineno)
        ok = bool(est) and cfg.path_avoiding(cfg.exit, skip_nodes=handlers, skip_edges=est) is None
        res.add('%s :: Definition.parse :: %s' % (ITEMS, gid), ok,
                '%s: guard at line %s on every accepting path' % (title, sorted(set(sites))) if ok else
                'a definition can be accepted without checking that %s' % title, f.loc)
    return res


# ---------------------------------------------------------------------- D2 / D3
def item_table(repo):
    m = repo.module(ITEMS)
    tbl = None
    for n in m.tree.body:
        if isinstance(n, ast.Assign) and any(is_name(t, 'item_table') for t in n.targets):
            tbl = n.value
    need(isinstance(tbl, ast.Dict), 'server/items.py: item_table dict literal not found')
    res = {}
    for k, v in zip(tbl.keys, tbl.values):
        need(isinstance(k, ast.Constant) and isinstance(v, ast.Name), 'item_table: unexpected row')
        res[k.value] = need(m.classes.get(v.id), 'item_table: class %s not found' % v.id)
    return res


def _method(cls, name):
    return cls.find_method(name)


def rule_d2(repo):
    res = RuleResult('C11.D2', 'what an item class writes to a file / to the editor is what it reads back', floor=27)
    tbl = item_table(repo)
    need(len(tbl) >= 5, 'item_table has fewer than 5 kinds')
    for ty, cls in sorted(tbl.items()):
        exp = need(_method(cls, 'export_json'), '%s has no export_json' % cls.name)
        par = need(_method(cls, 'parse'), '%s has no parse' % cls.name)
        dis = need(_method(cls, 'get_display'), '%s has no get_display' % cls.name)
        ped = need(_method(cls, 'parse_edit'), '%s has no parse_edit' % cls.name)
        w_always, w_some = written_keys(exp, _super_resolver(exp))
        r_req, r_opt = read_keys(par, par.params()[1], _super_resolver(par))
        miss = sorted(r_req - w_always - {'ty'})
        res.add('%s :: %s :: file :: required-keys-written' % (ITEMS, cls.name), not miss,
                'parse requires %s, all written by export_json' % sorted(r_req) if not miss else
                'parse reads %s unconditionally but export_json does not always write them: a saved item cannot be loaded' % miss, exp.loc)
        lost = sorted((w_always | w_some) - r_req - r_opt - {'ty'})
        res.add('%s :: %s :: file :: written-keys-read' % (ITEMS, cls.name), not lost,
                'every exported key is read back' if not lost else
                'export_json writes %s which parse never reads: the information is lost on reload' % lost, exp.loc)
        # the ty written must be the table key
        ty_ok = True
        for n in ast.walk(exp.node):
            if isinstance(n, ast.Dict):
                for k, v in zip(n.keys, n.values):
                    if isinstance(k, ast.Constant) and k.value == 'ty' and isinstance(v, ast.Constant) and v.value != ty:
                        # a subclass may overwrite it afterwards (Theorem)
                        over = any(isinstance(a, ast.Assign) and isinstance(a.value, ast.Constant) and a.value.value == ty and
                                   any(isinstance(t, ast.Subscript) and isinstance(t.slice, ast.Constant) and t.slice.value == 'ty' for t in a.targets)
                                   for a in ast.walk(cls.methods['export_json'].node)) if 'export_json' in cls.methods else False
                        if not over:
                            ty_ok = False
        res.add('%s :: %s :: file :: kind-tag' % (ITEMS, cls.name), ty_ok,
                "export_json tags the record '%s'" % ty if ty_ok else "export_json writes a 'ty' other than '%s'" % ty, exp.loc, nontrivial=False)
        # editor form
        d_always, d_some = written_keys(dis, _super_resolver(dis))
        ep = ped.params()[1]
        e_req, e_opt = read_keys(ped, ep, _super_resolver(ped))
        # if parse_edit hands the same object on to parse, parse's required keys count as well
        hands_on = any(isinstance(c, ast.Call) and call_attr(c) in ('parse', 'parse_edit') and any(is_name(a, ep) for a in c.args)
                       for c in ast.walk(ped.node))
        eff = set(e_req)
        if hands_on:
            eff |= {k for k in r_req if '[*]' not in k}
        eff -= {k for k in stored_keys(ped, ep) if k not in e_req}
        miss = sorted(eff - d_always - {'ty'})
        res.add('%s :: %s :: editor :: required-keys-displayed' % (ITEMS, cls.name), not miss,
                'parse_edit needs %s, all produced by get_display' % sorted(eff) if not miss else
                'parse_edit needs %s which get_display does not produce: an item opened in the editor cannot be saved' % miss, ped.loc)
    return res


def rule_d3(repo):
    res = RuleResult('C11.D3', 'every item class with a kind tag is registered in item_table under that tag', floor=9)
    tbl = item_table(repo)
    base = repo.cls(ITEMS, 'Item')
    by_cls = {id(c): k for k, c in tbl.items()}
    for c in repo.subclasses_of(base):
        tyv = c.init_const('ty') if '__init__' in c.methods else None
        own = None
        if '__init__' in c.methods:
            for a, v, _s in self_attr_stores(c.methods['__init__'].node):
                if a == 'ty' and isinstance(v, ast.Constant):
                    own = v.value
        if own is None:
            continue
        ok = id(c) in by_cls and by_cls[id(c)] == own
        res.add('%s :: %s :: registered(%s)' % (c.module.rel, c.name, own), ok,
                'item_table[%r] is %s' % (own, c.name) if ok else
                'class %s tags itself %r but item_table maps that tag to %s' % (
                    c.name, own, tbl[own].name if own in tbl else 'nothing'), c.loc, nontrivial=False)
    # __eq__ compares only attributes the constructor / parse define
    for ty, cls in sorted(tbl.items()):
        eq = cls.find_method('__eq__')
        if eq is None:
            continue
        compared = {n.attr for n in ast.walk(eq.node) if isinstance(n, ast.Attribute) and is_name(n.value, 'self')}
        defined = set()
        for c in cls.mro():
            for mname in ('__init__', 'parse'):
                if mname in c.methods:
                    defined |= {a for a, _v, _s in self_attr_stores(c.methods[mname].node)}
        miss = sorted(compared - defined - {'__eq__'})
        res.add('%s :: %s :: eq-attributes-defined' % (ITEMS, cls.name), not miss,
                'equality compares %s' % sorted(compared) if not miss else 'equality compares undefined attributes %s' % miss, eq.loc,
                nontrivial=False)
    return res


def rule_d4(repo):
    """The self-reference guard lets an overloaded constant occur on the right at a *disjoint* type.  The
    test it relies on must err on the safe side: it may answer 'disjoint' only for a constructor clash
    (both sides type constructors with different name / arity, or some pair of arguments disjoint)."""
    res = RuleResult('C11.D4', 'the type-disjointness test behind the self-reference guard answers "disjoint" only for a constructor clash', floor=1)
    f = repo.opt_func(ITEMS, 'types_disjoint')
    if f is None:
        # the guard may compare types in another way; then D1g alone applies
        res.add('%s :: types_disjoint' % ITEMS, True, 'no separate disjointness helper', '%s:1' % ITEMS, nontrivial=False)
        return res
    cfg = cfg_of(f.node)
    t1, t2 = f.params()[:2]

    def is_con(name):
        def pred(e, pol):
            return pol and isinstance(e, ast.Call) and call_attr(e) == 'is_tconst' and isinstance(e.func, ast.Attribute) and is_name(e.func.value, name)
        return cfg.establishing_edges(pred)
    e1, e2 = is_con(t1), is_con(t2)
    bad = []
    for r in cfg.return_nodes():
        v = r.ast.value
        if v is None or (isinstance(v, ast.Constant) and v.value in (False, None)):
            continue
        if not (e1 and e2 and cfg.path_avoiding(r, skip_edges=e1) is None and cfg.path_avoiding(r, skip_edges=e2) is None):
            bad.append('line %d: `return %s`' % (r.lineno, src(v, 50)))
    res.add('%s :: types_disjoint :: conservative' % ITEMS, not bad,
            'every possibly-true answer is behind is_tconst() of both types' if not bad else
            'can answer "disjoint" although one side may be a type variable (%s): a polymorphic instance such as \'a set overlaps '
            'nat set, so the defined constant may then occur in its own definition' % '; '.join(bad), f.loc)
    return res


def rule_d5(repo):
    """A new instance of an overloaded constant is admitted only if *every* type variable of the declared
    type is instantiated to a type constructor; an instance that leaves one of several type variables open
    overlaps other instances (power :: real => 'b => real overlaps real => nat => real)."""
    res = RuleResult('C11.D5', 'an instance of an overloaded constant is accepted only after every component of the type instantiation was tested to be a type constructor', floor=1)
    THEORY = 'kernel/theory.py'
    from ..inline import inlined, contains_call
    f = inlined(repo.func(THEORY, 'Theory.add_term_sig'), contains_call('match', 'match_incr'))[0]     # the matching may sit in a helper of the class
    cfg = cfg_of(f.node)
    flow = flow_of(f.node)
    ov = [n for n in cfg.test_nodes() if isinstance(n.ast, ast.Call) and call_attr(n.ast) == 'is_overload_const']
    need(ov, 'Theory.add_term_sig: test is_overload_const not found')
    start = [b for b, l in ov[0].succ if l == 'true']
    match_vars = {t.id for n in ast.walk(f.node) if isinstance(n, ast.Assign) and isinstance(n.value, ast.Call) and
                  call_attr(n.value) in ('match', 'match_incr') for t in n.targets if isinstance(t, ast.Name)}
    need(match_vars, 'Theory.add_term_sig: the declared type is not matched against the given type')
    good_loops = []
    for it in cfg.nodes_of_kind('iter'):
        if not (match_vars & flow.names_closure(it.ast.iter)):
            continue
        tvars = {x.id for x in ast.walk(it.ast.target) if isinstance(x, ast.Name)}
        for t in cfg.test_nodes():
            if isinstance(t.ast, ast.Call) and call_attr(t.ast) == 'is_tconst' and \
                    ({x.id for x in ast.walk(t.ast.func.value) if isinstance(x, ast.Name)} & tvars) and \
                    t.stmt is not None and it.ast.lineno <= t.lineno <= (it.ast.end_lineno or 0):
                # a component that is not a constructor must not let the loop go on or the function return
                after_false = cfg.reach_from([b for b, l in t.succ if l == 'false'])
                if cfg.exit.id not in after_false and it.id not in after_false:
                    good_loops.append(it)
    # `if not all(v.is_tconst() for ...)`: raise
    all_tests = []
    for t in cfg.test_nodes():
        if isinstance(t.ast, ast.Call) and call_name(t.ast) == 'all' and t.ast.args and isinstance(t.ast.args[0], (ast.GeneratorExp, ast.ListComp)) and \
                any(isinstance(c, ast.Call) and call_attr(c) == 'is_tconst' for c in ast.walk(t.ast.args[0].elt)) and \
                (match_vars & flow.names_closure(t.ast.args[0].generators[0].iter)):
            if cfg.exit.id not in cfg.reach_from([b for b, l in t.succ if l == 'false']):
                all_tests.append(t)
    # the accepting exit of the overloaded branch is reachable only through such a loop / such a test
    ok = bool(good_loops or all_tests) and \
        cfg.path_avoiding(cfg.exit, skip_nodes=good_loops + all_tests, start=start[0]) is None
    res.add('%s :: Theory.add_term_sig :: every-type-variable-concrete' % THEORY, ok,
            'each component of the instantiation is tested with is_tconst, a failing one raises' if ok else
            'an overloaded instance is accepted without testing every component of its type instantiation: a partially '
            'instantiated instance overlaps the fully concrete ones and both defining equations apply', f.loc)
    return res


def rule_d6(repo):
    """Definition.parse refuses a right-hand side with a type variable that the constant's type lacks; the
    type variables are collected by a structural recursion, which must go under binders too."""
    from ..traverse import traversal_rule
    return traversal_rule(repo, 'C11.D6', 'the collection of type variables of a defining equation looks at every sub-term',
                          [(ITEMS, 'get_term_tvars.<locals>.rec'), ('kernel/term.py', 'Term.get_svars.<locals>.rec'), ('kernel/term.py', 'Term.get_vars.<locals>.rec')],
                          'a type variable (or variable) in the skipped position escapes the side condition: c :: bool, c = (!u::bool. !x::\'a. !y. x = y) is accepted')


def rule_d7(repo):
    """The side conditions of D1 must speak about variables the way the kernel does: a variable is a name with
    a type (x::bool on the right is not the argument x::nat), and schematic variables / schematic type
    variables - which get_vars / get_tvars do not list - could be instantiated at will in the defining
    theorem (c = ?x gives true = false)."""
    res = RuleResult('C11.D7', 'the free-variable condition is a subset test on variables with their types, and schematic variables and schematic type variables are refused', floor=4)
    f = repo.func(ITEMS, 'Definition.parse')
    cfg = cfg_of(f.node)
    # accept = leaving the try body normally
    tries = [n for n in ast.walk(f.node) if isinstance(n, ast.Try)]
    need(tries, 'Definition.parse: try block not found')
    body = tries[0].body
    # (1) the test that refuses extra variables on the right: "the rhs variables are not a subset of the arguments"
    guards = [n for st in body for n in ast.walk(st) if isinstance(n, ast.If) and any(
        isinstance(x, ast.Raise) and 'extra variables' in src(x, 300) for b in n.body for x in ast.walk(b))]
    need(guards, 'Definition.parse: the test that refuses extra variables on the right side not found')
    g = guards[0].test
    flow = flow_of(f.node)

    def not_subset(e):
        """(A, B) when e says "A is not a subset of B", else None"""
        if isinstance(e, ast.UnaryOp) and isinstance(e.op, ast.Not):
            x = e.operand
            if isinstance(x, ast.Call) and call_attr(x) == 'issubset' and x.args:
                return x.func.value, x.args[0]
            if isinstance(x, ast.Call) and call_attr(x) == 'issuperset' and x.args:
                return x.args[0], x.func.value
            cp = compare_parts(x)
            if cp and cp[0] is ast.LtE:
                return cp[1], cp[2]
            if cp and cp[0] is ast.GtE:
                return cp[2], cp[1]
        if isinstance(e, ast.BinOp) and isinstance(e.op, ast.Sub):
            return e.left, e.right
        if isinstance(e, ast.Call) and call_attr(e) == 'difference' and e.args:
            return e.func.value, e.args[0]
        return None
    ns = not_subset(g)
    ok_dir = False
    by_name = False
    if ns is not None:
        a_names, b_names = flow.names_closure(ns[0]), flow.names_closure(ns[1])
        # A from the right side, B from the arguments of the left side
        ok_dir = any('rhs' in x for x in a_names) or 'get_vars' in src(ns[0], 200) or any(
            kd == 'value' and 'rhs' in src(rh, 200) for nm in a_names for kd, rh in flow.defs.get(nm, []))
        for side in ns:
            if isinstance(side, ast.Name):
                for kd, rhs in flow.defs.get(side.id, []):
                    if kd == 'value' and any(isinstance(x, ast.Attribute) and x.attr == 'name' for x in ast.walk(rhs)):
                        by_name = True
    res.add('%s :: Definition.parse :: extra-variables-test-is-not-subset' % ITEMS, ns is not None and ok_dir,
            'refused unless the right side\'s variables are a subset of the arguments' if ns is not None and ok_dir else
            'the test `%s` that refuses extra variables on the right is not "not a subset of the arguments": with a strict-superset test '
            '(`rhs > lhs`) incomparable sets pass, and d x = y is accepted' % src(g, 60), '%s:%d' % (ITEMS, guards[0].lineno))
    res.add('%s :: Definition.parse :: variables-with-types' % ITEMS, not by_name,
            'the sets hold the variables themselves' if not by_name else
            'the free variables of the right side are compared with the arguments by name only: c x = (x::bool) for c :: nat => bool is accepted, '
            'and the defining theorem has a free variable that is not an argument', f.loc)
    # (2) (3) tests on get_svars() / get_stvars() whose true side raises, on every path to acceptance
    end = cfg.node_for(body[-1]) if body else None
    for meth, what, ex in (('get_svars', 'schematic variables', 'c = ?x'), ('get_stvars', 'schematic type variables', "c = (!x::?'a. !y. x = y)")):
        tests = [t for t in cfg.test_nodes() if isinstance(t.ast, ast.Call) and call_attr(t.ast) == meth and
                 cfg.exit.id not in cfg.reach_from([b for b, l in t.succ if l == 'true'], skip_nodes=[n for n in cfg.nodes if n.kind == 'except'])]
        # the raise inside the try goes to the handler, which records the error: "refused".  Accepting = reaching the end of the try body
        last = [n for n in cfg.nodes if n.kind in ('stmt', 'test') and n.lineno == max(x.lineno for x in ast.walk(body[-1]) if hasattr(x, 'lineno'))]
        ok = bool(tests)
        if ok:
            # every path from entry to the statement after the try that does not go through a handler passes the test's false side
            handlers = [n for n in cfg.nodes if n.kind == 'except']
            after_try = [n for n in cfg.nodes if n.kind in ('stmt', 'test') and n.lineno > (tries[0].end_lineno or 0)]
            tgt = min(after_try, key=lambda n: n.lineno) if after_try else cfg.exit
            ok = cfg.path_avoiding(tgt, skip_nodes=handlers + tests) is None
        res.add('%s :: Definition.parse :: refuses(%s)' % (ITEMS, what), ok,
                'a defining equation with %s is refused' % what if ok else
                '%s in the defining equation are not refused (%s() is never consulted on the way to acceptance): %s is accepted, and its '
                'defining theorem can be instantiated to contradictory instances' % (what.capitalize(), meth, ex), f.loc)
    return res


HANDLERS = {'is_tconst': 'extend_type', 'is_constant': 'extend_constant', 'is_theorem': 'add_theorem', 'is_attribute': 'extend_attribute',
            'is_overload': 'add_overload_const'}


def rule_d8(repo):
    """Freshness of a defined constant is enforced in one place: add_term_sig raises "Constant already
    exists".  Definition items rely on it (Definition.parse declares the constant and lets the theory refuse a second
    one).  Every extension must therefore reach the handler of its kind whenever the kind test holds - a guard that
    skips extend_constant for a constant that "is already there at this type" lets a second definition install its
    defining theorem over the first: c <--> true and c <--> false give |- false."""
    from ..cfg import cfg_of
    res = RuleResult('C11.D8', 'every extension reaches the handler of its kind unconditionally (the handler, not the caller, decides about duplicates)', floor=8)
    for fn in ('unchecked_extend', 'checked_extend'):
        from .checker_blocks import extend_func
        f = extend_func(repo, fn)
        cfg = cfg_of(f.node)
        it = [n for n in cfg.nodes if n.kind == 'iter']
        need(it, 'Theory.%s: loop over the extensions not found' % fn)
        kind_tests = [t for t in cfg.test_nodes() if isinstance(t.ast, ast.Call) and isinstance(t.ast.func, ast.Attribute) and
                      t.ast.func.attr in HANDLERS and not t.ast.args]
        for t in kind_tests:
            h = HANDLERS[t.ast.func.attr]
            # an extension has one kind: with this test true, the other tests of the same kind are true and those of other kinds false
            same = [u for u in kind_tests if u.ast.func.attr == t.ast.func.attr and src(u.ast.func.value) == src(t.ast.func.value)]
            fixed = {(u.id, 'false') for u in same} | {(u.id, 'true') for u in kind_tests if u not in same and src(u.ast.func.value) == src(t.ast.func.value)}
            if t is not min(same, key=lambda u: (u.ast.lineno, u.ast.col_offset, u.id)):
                continue        # judged from the first test of this kind on
            calls = [n for n in cfg.nodes if n.kind == 'stmt' and n.ast is not None and not isinstance(n.ast, (ast.If, ast.For, ast.While, ast.Try)) and
                     any(isinstance(c, ast.Call) and call_attr(c) == h for c in ast.walk(n.ast))]
            start = [b for b, l in t.succ if l == 'true']
            region = cfg.reach_from(start, skip_nodes=it, skip_edges=fixed)
            calls = [c for c in calls if c.id in region]
            if not calls:
                res.add('kernel/theory.py :: Theory.%s :: %s -> %s' % (fn, t.ast.func.attr, h), False,
                        'no call of %s in the branch for %s' % (h, t.ast.func.attr), '%s:%d' % ('kernel/theory.py', t.lineno))
                continue
            # every path from the kind test to the next extension (or the end) passes the handler, unless it raises
            r = cfg.reach_from(start, skip_nodes=calls, skip_edges=fixed)
            skipped = it[0].id in r or cfg.exit.id in r
            res.add('kernel/theory.py :: Theory.%s :: %s -> %s' % (fn, t.ast.func.attr, h), not skipped,
                    'the handler is reached on every path that does not raise' if not skipped else
                    'a path from `%s` goes on to the next extension without calling %s: whether the extension takes effect is decided here, '
                    'not by the handler (a second definition of a constant skips the "already exists" error and overwrites the defining theorem)' % (
                        src(t.ast, 30), h), 'kernel/theory.py:%d' % t.lineno)
    return res


def rule_d9(repo):
    """The admission tests of a definition ask which constants / variables / type variables occur in a term
    (Term.get_consts, get_vars, get_svars, get_stvars ..).  These functions list each item once by remembering what was
    seen.  What is remembered must be the item itself: remembered by name, the second instance of an overloaded constant
    (c :: nat => bool after c :: bool => bool) is never listed, and the test "the defined constant does not occur on the
    right" does not see it."""
    from ..idioms import dedup_sites
    res = RuleResult('C11.D9', 'the collections of constants and variables of a term keep one entry per item, not one per name', floor=5)
    for rel in ('kernel/term.py', 'kernel/type.py'):
        m = repo.module(rel)
        for f in m.all_funcs:
            if f.parent is not None or not f.name.startswith('get_'):
                continue
            for app, elem, key, adds in dedup_sites(f.node):
                keys = [src(key, 60)] + [src(a, 60) for a in adds]
                ok = all(k == src(elem, 60) for k in keys)
                res.add('%s :: %s :: one-entry-per(%s)' % (rel, f.qualname, src(elem, 30)), ok,
                        'an item is skipped only if the same item was listed' if ok else
                        'line %d lists `%s` unless `%s` was seen before: items that differ but agree on that key are dropped - of two instances of an '
                        'overloaded constant only the first is reported, and a definition c n <--> (c true --> ~ c n) passes the test that c :: nat => bool '
                        'does not occur in its own definition' % (app.lineno, src(elem, 30), keys[0]), '%s:%d' % (rel, app.lineno))
    return res

def rule_d10(repo):
    """The extension generated from an accepted item has to be well typed.  Most of that is a property of run-time values,
    but one part is written into the generating code: a predicate variable declared as `P :: D => bool` is applied to
    variables that the same function makes (`Var(nm, T2)`), and the application is well typed only if T2 *is* D.  Where
    the type of such a variable comes out of a loop (the argument types of a constructor), the application must be behind
    the test `T2 == D` - a test of the head of the type only (`T2.name == self.name`) lets `nat ntree` through where
    `'a ntree` is required, and the induction theorem of a non-uniformly recursive datatype is ill-typed."""
    res = RuleResult('C11.D10', 'a generated predicate variable P :: D => bool is applied only to variables of type D', floor=2)
    for cname, c in sorted(repo.module(ITEMS).classes.items()):
        f = c.methods.get('get_extension')
        if f is None:
            continue
        flow = flow_of(f.node)
        preds = {}
        for n in ast.walk(f.node):
            if isinstance(n, ast.Assign) and len(n.targets) == 1 and isinstance(n.targets[0], ast.Name) and isinstance(n.value, ast.Call) and \
                    call_name(n.value) == 'Var' and len(n.value.args) == 2 and isinstance(n.value.args[1], ast.Call) and call_name(n.value.args[1]) == 'TFun' and \
                    len(n.value.args[1].args) == 2 and src(n.value.args[1].args[1]) in ('BoolType', 'boolT') and isinstance(n.value.args[1].args[0], ast.Name):
                preds[n.targets[0].id] = n.value.args[1].args[0].id
        if not preds:
            continue
        parents = {}
        for x in ast.walk(f.node):
            for ch in ast.iter_child_nodes(x):
                parents[id(ch)] = x

        def var_type(e, depth=0):
            """the type expression of a variable made here, and the name it is known under (for `name.T == D` tests)"""
            if isinstance(e, ast.Call) and call_name(e) == 'Var' and len(e.args) == 2:
                return e.args[1], None
            if isinstance(e, ast.Name) and depth < 3:
                ds = [d for d in flow.defs.get(e.id, []) if d[0] != 'update']
                # the binder around this occurrence: a generator of an enclosing comprehension, or an enclosing for loop
                x = e
                while id(x) in parents:
                    x = parents[id(x)]
                    gens = x.generators if isinstance(x, (ast.ListComp, ast.GeneratorExp, ast.SetComp)) else []
                    hit = [g for g in gens if is_name(g.target, e.id)]
                    if hit:
                        ds = [('elem', hit[0].iter)]
                        break
                    if isinstance(x, ast.For) and is_name(x.target, e.id):
                        ds = [('elem', x.iter)]
                        break
                if len(ds) == 1 and ds[0][0] == 'elem':
                    it = flow.inline(ds[0][1])
                    if isinstance(it, ast.Call) and is_name(it.func, 'reversed') and it.args:
                        it = it.args[0]
                    if isinstance(it, ast.ListComp) and len(it.generators) == 1:
                        t, _ = var_type(it.elt, depth + 1)
                        if t is not None:
                            return t, e.id
                if len(ds) == 1 and ds[0][0] == 'value':
                    return var_type(ds[0][1], depth + 1)
            return None, None

        def guarded(call, tyexpr, alias, dom):
            """an enclosing comprehension condition or if-test says the variable's type equals dom"""
            texts = {src(tyexpr)}
            if alias:
                texts |= {alias + '.T', alias + '.get_type()'}
            x = call
            while id(x) in parents:
                par = parents[id(x)]
                conds = []
                if isinstance(par, (ast.ListComp, ast.GeneratorExp, ast.SetComp)):
                    conds = [c_ for g in par.generators for c_ in g.ifs]
                if isinstance(par, ast.If) and any(x is b or any(x is y for y in ast.walk(b)) for b in par.body):
                    conds = [par.test]
                for cnd in conds:
                    for cj in (cnd.values if isinstance(cnd, ast.BoolOp) and isinstance(cnd.op, ast.And) else [cnd]):
                        cp = compare_parts(cj)
                        if cp and cp[0] is ast.Eq and ((src(cp[1]) in texts and is_name(cp[2], dom)) or (src(cp[2]) in texts and is_name(cp[1], dom))):
                            return True
                x = par
            return False
        for call in ast.walk(f.node):
            if not (isinstance(call, ast.Call) and isinstance(call.func, ast.Name) and call.func.id in preds and len(call.args) == 1):
                continue
            dom = preds[call.func.id]
            ty, alias = var_type(call.args[0])
            if ty is None:
                continue          # an application of a constant: its type is the declared one, not this rule's subject
            ok = is_name(ty, dom) or guarded(call, ty, alias, dom)
            res.add('%s :: %s.get_extension :: %s(%s)@%d' % (ITEMS, cname, call.func.id, src(call.args[0], 30), call.lineno - f.node.lineno), ok,
                    'the variable has type %s' % dom if ok else
                    'line %d applies %s :: %s => bool to a variable of type `%s` that is not tested to equal %s: for a datatype that occurs in its own '
                    'constructors at another instance (nat ntree inside \'a ntree) the generated theorem is ill-typed' % (
                        call.lineno, call.func.id, dom, src(ty), dom), '%s:%d' % (ITEMS, call.lineno))
    return res

def rule_d11(repo):
    """Everything generated from a datatype item pairs the argument names of a constructor with the argument types of its
    declared type (`zip(constr['args'], argT)`) and treats the constructor's result as a value of the datatype.  Both are
    assumptions about the item, and the place to establish them is where the item is accepted: `Datatype.parse` records
    a constructor only after (a) a comparison of the number of names with the number of argument types and (b) a comparison
    of the result type with the datatype's own type, each with a failure on disagreement.  (zip stops at the shorter
    list: without (a) the extension is silently cut short; without (b) the distinctness and induction theorems are
    ill-typed.)"""
    res = RuleResult('C11.D11', 'a datatype item is accepted only if every constructor builds the datatype, names each of its arguments and uses the datatype\'s type parameters only', floor=3)
    f = repo.func(ITEMS, 'Datatype.parse')
    cfg = cfg_of(f.node)
    flow = flow_of(f.node)
    recs = [n for n in cfg.nodes if n.kind == 'stmt' and any(isinstance(c, ast.Call) and call_attr(c) == 'append' and (path_of(c.func.value) or '').endswith('constrs')
                                                              for c in ast.walk(n.ast))]
    need(recs, 'Datatype.parse: the statement that records a constructor not found')
    # the parts of the constructor's type: names bound from `<type>.strip_type()`
    parts = {}
    for n in ast.walk(f.node):
        if isinstance(n, ast.Assign) and isinstance(n.value, ast.Call) and call_attr(n.value) == 'strip_type' and isinstance(n.targets[0], ast.Tuple) and \
                len(n.targets[0].elts) == 2 and all(isinstance(e, ast.Name) for e in n.targets[0].elts):
            parts = {'args': n.targets[0].elts[0].id, 'res': n.targets[0].elts[1].id}

    def arity(e, pol):
        cp = compare_parts(e)
        if not cp or not parts:
            return False
        lens = [x for x in cp[1:] if isinstance(x, ast.Call) and is_name(x.func, 'len') and x.args]
        if len(lens) != 2:
            return False
        txt = [src(x.args[0]) for x in lens]
        names_side = any("['args']" in t or '["args"]' in t for t in txt)
        types_side = any(t == parts['args'] for t in txt)
        return names_side and types_side and ((cp[0] is ast.Eq and pol) or (cp[0] is ast.NotEq and not pol))

    def result(e, pol):
        cp = compare_parts(e)
        if not cp or not parts:
            return False
        about = any(is_name(x, parts['res']) for x in cp[1:])
        dt = any(isinstance(x, ast.Call) and call_name(x) == 'TConst' and x.args and 'self.name' in src(x.args[0]) for x in (flow.inline(y) for y in cp[1:]))
        return about and dt and ((cp[0] is ast.Eq and pol) or (cp[0] is ast.NotEq and not pol))
    def tvars_are_params(e, pol):
        # all(tv in P for tv in T.get_tvars()) holds / any(tv not in P for tv in T.get_tvars()) fails / set(T.get_tvars()) <= P holds
        e = flow.inline(e)
        if isinstance(e, ast.Call) and isinstance(e.func, ast.Name) and e.func.id in ('all', 'any') and e.args and isinstance(e.args[0], (ast.GeneratorExp, ast.ListComp)):
            g = e.args[0]
            if len(g.generators) != 1 or g.generators[0].ifs or not any(isinstance(c, ast.Call) and call_attr(c) == 'get_tvars' for c in ast.walk(g.generators[0].iter)):
                return False
            cp = compare_parts(g.elt)
            if not cp or not isinstance(g.generators[0].target, ast.Name) or not is_name(cp[1], g.generators[0].target.id):
                return False
            return (e.func.id == 'all' and cp[0] is ast.In and pol) or (e.func.id == 'any' and cp[0] is ast.NotIn and not pol)
        cp = compare_parts(e)
        if cp and cp[0] is ast.LtE and any(isinstance(c, ast.Call) and call_attr(c) == 'get_tvars' for c in ast.walk(cp[1])):
            return pol
        if isinstance(e, ast.Call) and call_attr(e) == 'issubset' and any(isinstance(c, ast.Call) and call_attr(c) == 'get_tvars' for c in ast.walk(e.func.value)):
            return pol
        return False
    for what, pred, why in (('type-variables-are-parameters', tvars_are_params, 'a constructor Mk :: \'a => big of a datatype without parameters is recorded: it embeds every type, '
                                                                              'also big set, into big'),
                            ('names-match-argument-types', arity, 'zip(constr[\'args\'], argT) in the generated extension stops at the shorter list: with more names than '
                                                                  'argument types the extension is cut short without a word and the display form raises IndexError'),
                            ('result-is-the-datatype', result, 'a constructor of type nat => nat is recorded for the datatype, and the generated distinctness and '
                                                               'induction theorems are ill-typed')):
        edges = cfg.establishing_edges(pred)
        ok = bool(edges) and all(cfg.path_avoiding(r, skip_edges=edges) is None for r in recs)
        res.add('%s :: Datatype.parse :: %s' % (ITEMS, what), ok,
                'tested before the constructor is recorded' if ok else 'line %d records the constructor without this test: %s' % (recs[0].lineno, why),
                '%s:%d' % (ITEMS, recs[0].lineno))
    return res

def rule_d12(repo):
    """The test "the constant being defined does not occur on the right" compares the *names* of the constants of the right-hand side with
    the name of the constant.  Inside terms a constant carries its general name (`plus`), also when the item defines one instance of
    an overloaded constant, whose expanded name (`nat_plus`, self.cname) is only a key of the theory.  The name compared with must be
    the one the left-hand head is built with in the same function (`Const(self.name, self.type)`); compared with the expanded name the
    test can never match for an overloaded constant and is switched off exactly there: foo (x::nat) = Suc (foo x) is accepted."""
    res = RuleResult('C11.D12', 'the self-occurrence test of a definition compares with the name constants carry inside terms', floor=1)
    f = repo.func(ITEMS, 'Definition.parse')
    heads = [c for c in ast.walk(f.node) if isinstance(c, ast.Call) and call_name(c) == 'Const' and len(c.args) == 2 and path_of(c.args[1]) == 'self.type']
    if not heads:
        # the left-hand head is not built here: rule D1 reports a missing head test; nothing to compare the name with
        res.floor = 0
        return res
    head_name = src(heads[0].args[0])
    tests = []
    for n in ast.walk(f.node):
        cp = compare_parts(n) if isinstance(n, ast.Compare) else None
        if cp and cp[0] in (ast.Eq, ast.NotEq):
            for x, y in ((cp[1], cp[2]), (cp[2], cp[1])):
                if isinstance(x, ast.Attribute) and x.attr == 'name' and isinstance(x.value, ast.Name) and (path_of(y) or '').startswith('self.'):
                    # x is an element of get_consts() of the right-hand side?
                    tests.append((n, y))
    need(tests, 'Definition.parse: no comparison of a constant\'s name with a name of the item found')
    for i, (n, y) in enumerate(tests):
        ok = src(y) == head_name
        res.add('%s :: Definition.parse :: name-compared#%d' % (ITEMS, i + 1), ok,
                'compared with %s, the name the head constant is built with' % head_name if ok else
                'line %d compares the names of the constants on the right with `%s`, while constants are built with `%s`: for an instance of an overloaded '
                'constant the two differ, the test never matches, and foo (x::nat) = Suc (foo x) is accepted as a definition' % (n.lineno, src(y), head_name),
                '%s:%d' % (ITEMS, n.lineno))
    return res


def rules(repo):
    return [rule_d1(repo), rule_d2(repo), rule_d3(repo), rule_d4(repo), rule_d5(repo), rule_d6(repo), rule_d7(repo), rule_d8(repo), rule_d9(repo), rule_d10(repo), rule_d11(repo), rule_d12(repo)]
