"""C13 - proof editing: copy isolation, immutable snapshots, total renumbering, exported step keys,
argument-signature exhaustiveness."""
import ast

from ..core import RuleResult, need
from ..idioms import loop_table_values
from ..cfg import cfg_of
from ..flow import flow_of
from ..astutil import (src, call_attr, call_name, compare_parts, is_name, path_of, walk_no_nested, self_attr_stores,
                       returns_of)
from ..dictkeys import written_keys, read_keys
from ..macros import macro_index
from ..repo import dotted
from .c01 import primitive_table

METHOD = 'server/method.py'
PROOF = 'kernel/proof.py'
IDE = 'app/ide.py'
PRINTER = 'syntax/printer.py'
PARSER = 'syntax/parser.py'
SERVER = 'server/server.py'
THEORY = 'kernel/theory.py'

NOT_DECIDED = ('that every sequence of edits keeps the goal and the checkability of the partial proof, contiguity of '
               'line numbers after arbitrary edit histories (runtime histories)')
ASSUMPTIONS = ['Term, Thm and ItemID objects are not modified after construction (C03.I3), so sharing them between copies is safe']

COPY_CALLS = {'copy.copy', 'copy', 'copy.deepcopy', 'deepcopy', 'list', 'dict'}


def _init_fields(cls):
    init = cls.methods.get('__init__')
    return [(a, v) for a, v, _s in self_attr_stores(init.node)] if init else []


def _is_mutable_init(v, repo, cls):
    if isinstance(v, (ast.List, ast.Dict, ast.ListComp, ast.DictComp, ast.Set)):
        return True
    if isinstance(v, ast.Call):
        nm = call_name(v) or ''
        if nm in ('list', 'dict', 'set'):
            return True
        r = repo.resolve_name(cls.module, nm) if nm else None
        from ..repo import ClassInfo
        if isinstance(r, ClassInfo) and r.module.rel == PROOF:
            return True
    if isinstance(v, ast.IfExp):
        return _is_mutable_init(v.body, repo, cls) or _is_mutable_init(v.orelse, repo, cls)
    return False


def rule_a1(repo):
    res = RuleResult('C13.A1', 'copying a proof state re-creates every mutable part, so editing the copy cannot change the original', floor=8)
    for rel, name in ((METHOD, 'ProofState'), (PROOF, 'Proof'), (PROOF, 'ProofItem')):
        cls = repo.cls(rel, name)
        cp = need(cls.methods.get('__copy__'), '%s.__copy__ not found' % name)
        fields = _init_fields(cls)
        need(fields, '%s.__init__ assigns no fields' % name)
        init_params = cls.methods['__init__'].params()[1:]
        # how each field is rebuilt in __copy__
        rebuilt = {}
        ctor = None
        for n in ast.walk(cp.node):
            if isinstance(n, ast.Assign):
                for t in n.targets:
                    if isinstance(t, ast.Attribute) and isinstance(t.value, ast.Name) and t.value.id != 'self':
                        rebuilt[t.attr] = n.value
            if isinstance(n, ast.Call) and call_name(n) == name:
                ctor = n
        if ctor is not None:
            # fields initialised from constructor parameters of the same name are rebuilt by the constructor
            init = cls.methods['__init__']
            for i, a in enumerate(ctor.args):
                if i < len(init_params):
                    rebuilt.setdefault(init_params[i], ('ctor', a))
            for k in ctor.keywords:
                rebuilt.setdefault(k.arg, ('ctor', k.value))
        for fld, initv in fields:
            how = rebuilt.get(fld)
            key = '%s :: %s.__copy__ :: field(%s)' % (rel, name, fld)
            if how is None:
                # a field the constructor sets to a constant default is rebuilt by calling the constructor
                if ctor is not None and isinstance(initv, ast.Constant):
                    res.add(key, True, 'constant default %r set by the constructor' % initv.value, cp.loc, nontrivial=False)
                else:
                    res.add(key, False, 'field %s of the original is not carried into the copy' % fld, cp.loc)
                continue
            via_ctor = isinstance(how, tuple)
            expr = how[1] if via_ctor else how
            mutable = _is_mutable_init(initv, repo, cls) or fld in ('prf', 'items', 'subproof', 'prevs', 'vars')
            if not mutable:
                res.add(key, True, 'immutable value carried over', cp.loc, nontrivial=False)
                continue
            if via_ctor:
                # the constructor must rebuild the container from its parameter
                init = cls.methods['__init__']
                assigned = [v for a, v, _s in self_attr_stores(init.node) if a == fld]
                ok = any(isinstance(v, (ast.ListComp, ast.IfExp, ast.Call, ast.List)) and not isinstance(v, ast.Name) for v in assigned)
                res.add(key, ok, 'rebuilt by the constructor (%s)' % src(assigned[0], 50) if ok else
                        'constructor stores the caller\'s container for %s' % fld, cp.loc)
                continue
            alias = path_of(expr) == 'self.' + fld
            elementwise = True
            if fld == 'items':
                # the items themselves are mutable: each one must be copied
                elementwise = isinstance(expr, (ast.ListComp, ast.GeneratorExp)) and isinstance(expr.elt, ast.Call) and \
                    (call_name(expr.elt) or '') in COPY_CALLS
            copied = isinstance(expr, (ast.ListComp, ast.DictComp)) or (isinstance(expr, ast.Call) and (call_name(expr) or '') in COPY_CALLS)
            ok = not alias and copied and elementwise
            res.add(key, ok, 'copied: %s' % src(expr, 50) if ok else
                    ('the copy shares %s with the original (`%s`): editing one edits the other' % (fld, src(expr, 50))), cp.loc)
    return res


def _aliases_prf(flow, name, seen=None):
    """the local name denotes (a part of) self.prf: it is bound, through plain assignments or loops,
    to an access path rooted at self.prf (values merely stored *into* the name do not count)"""
    seen = seen or set()
    if name in seen:
        return False
    seen.add(name)
    for kind, rhs in flow.defs.get(name, []):
        if kind not in ('value', 'elem'):
            continue
        p = path_of(rhs) if isinstance(rhs, (ast.Name, ast.Attribute, ast.Subscript)) else None
        if p is None and isinstance(rhs, ast.Call) and isinstance(rhs.func, ast.Attribute):
            # self.prf.get_parent_proof(id) / prf.find_item(...) hand out parts of the proof
            p = path_of(rhs.func.value)
            # ... and so does a method of the state itself whose result is (or contains) such a part: self._locate_line(id)
            if p == 'self' and rhs.func.attr in _PRF_RETURNING:
                return True
        if p is None:
            continue
        root = p.split('.')[0].split('[')[0]
        if p.startswith('self.prf'):
            return True
        if root != 'self' and root != name and _aliases_prf(flow, root, seen):
            return True
    return False


_PRF_RETURNING = set()


def _prf_returning_methods(cls):
    """methods of the proof state that hand out a part of self.prf (directly or inside a tuple)"""
    out = set()
    for name, f in cls.methods.items():
        flow = flow_of(f.node)
        for r in ast.walk(f.node):
            if isinstance(r, ast.Return) and r.value is not None:
                for x in ast.walk(r.value):
                    if isinstance(x, ast.Name) and _aliases_prf(flow, x.id):
                        out.add(name)
                    if isinstance(x, ast.Attribute) and (path_of(x) or '').startswith('self.prf'):
                        out.add(name)
    return out


def mutating_methods(repo):
    """methods of ProofState that change the proof (directly or through other methods)"""
    cls = repo.cls(METHOD, 'ProofState')
    direct = set()
    _PRF_RETURNING.clear()
    _PRF_RETURNING.update(_prf_returning_methods(cls))
    for name, f in cls.methods.items():
        if name in ('__init__', '__copy__'):
            continue
        flow = flow_of(f.node)
        for n in walk_no_nested(f.node):
            if isinstance(n, (ast.Assign, ast.AugAssign)):
                targets = n.targets if isinstance(n, ast.Assign) else [n.target]
                for t in targets:
                    if isinstance(t, (ast.Attribute, ast.Subscript)):
                        base = path_of(t) or ''
                        root = base.split('.')[0].split('[')[0]
                        if root == 'self' and not base.startswith('self.rpt'):
                            direct.add(name)
                        elif root and root != 'self' and _aliases_prf(flow, root):
                            direct.add(name)
        for sub in f.nested.values():
            for n in ast.walk(sub.node):
                if isinstance(n, ast.Assign) and any(isinstance(t, ast.Attribute) for t in n.targets):
                    direct.add(name)
    changed = True
    mut = set(direct)
    while changed:
        changed = False
        for name, f in cls.methods.items():
            if name in mut:
                continue
            for c in ast.walk(f.node):
                if isinstance(c, ast.Call):
                    if isinstance(c.func, ast.Attribute) and is_name(c.func.value, 'self') and c.func.attr in mut:
                        mut.add(name)
                        changed = True
                    elif call_name(c) in ('apply_method',) and c.args and is_name(c.args[0], 'self'):
                        mut.add(name)
                        changed = True
    return mut


def rule_a2(repo):
    res = RuleResult('C13.A2', 'a stored snapshot of a proof state reaches an editing operation only through a copy', floor=1)
    mut = mutating_methods(repo)
    need({'set_line', 'add_line_before', 'remove_line', 'apply_tactic', 'parse_steps'} <= mut,
         'mutating methods of ProofState not recognised: %s' % sorted(mut))
    res.info['mutating_methods'] = sorted(mut)
    n = 0
    for m in repo.source_modules():
        for f in m.all_funcs:
            flow = None
            for c in walk_no_nested(f.node, include_root=False):
                if not (isinstance(c, ast.Call) and isinstance(c.func, ast.Attribute) and c.func.attr in mut):
                    continue
                recv = c.func.value
                flow = flow or flow_of(f.node)
                # does the receiver come straight out of a history container `.states[...]`?
                cands = [recv]
                if isinstance(recv, ast.Name) and flow.is_local(recv.id):
                    cands = [r for k, r in flow.defs[recv.id] if k == 'value']
                direct = [r for r in cands if isinstance(r, ast.Subscript) and (path_of(r.value) or '').endswith('.states')]
                copied = [r for r in cands if isinstance(r, ast.Call) and (call_name(r) or '') in COPY_CALLS]
                if not direct and not any((path_of(x.value) or '').endswith('.states') for r in cands for x in ast.walk(r) if isinstance(x, ast.Subscript)):
                    continue
                n += 1
                ok = not direct
                res.add('%s :: %s :: %s(%s)' % (m.rel, f.qualname, c.func.attr, src(recv, 30)), ok,
                        'receiver is a copy of the snapshot' if ok else
                        '`%s` edits `%s`, an element of the snapshot history, in place: the stored state before that step is lost' % (
                            src(c, 40), src(direct[0], 40)), '%s:%d' % (m.rel, c.lineno))
    # snapshots are stored as copies
    cls = repo.cls(IDE, 'ProofCache')
    for name, f in cls.methods.items():
        for c in ast.walk(f.node):
            if isinstance(c, ast.Call) and call_attr(c) == 'append' and (path_of(c.func.value) or '').endswith('.states') and c.args:
                ok = isinstance(c.args[0], ast.Call) and (call_name(c.args[0]) or '') in COPY_CALLS
                res.add('%s :: ProofCache.%s :: snapshot-stored(%s)' % (IDE, name, src(c.args[0], 30)), ok,
                        'a copy is stored' if ok else 'the live state object itself is stored as a snapshot', '%s:%d' % (IDE, c.lineno))
    return res


def rule_a3(repo):
    res = RuleResult('C13.A3', 'inserting or removing a line renumbers the identifier, every citation and every nested step of all following items, and the state is re-checked', floor=8)
    item = repo.cls(PROOF, 'ProofItem')
    for meth, idfun in (('incr_proof_item', 'incr_id_after'), ('decr_proof_item', 'decr_id')):
        f = need(item.methods.get(meth), 'ProofItem.%s not found' % meth)
        id_ok = prevs_ok = sub_ok = False
        # the renumbering may be one worker shared by both directions, given the direction as a function: read through it.
        # The worker calling itself on a nested step with the arguments it was entered with is the recursion of `meth`.
        from ..inline import inlined
        f, expanded, _left = inlined(f, lambda h: h.cls is item and h.name not in ('incr_proof_item', 'decr_proof_item'))
        again = {(q.split('.')[-1], tuple(src(a, 200) for a in c.args)) for q, _l, c in expanded}
        for n in ast.walk(f.node):
            if isinstance(n, ast.Assign):
                for t in n.targets:
                    if path_of(t) == 'self.id' and isinstance(n.value, ast.Call) and call_attr(n.value) == idfun and path_of(n.value.func.value) == 'self.id':
                        id_ok = True
                    if path_of(t) == 'self.prevs' and isinstance(n.value, ast.ListComp) and isinstance(n.value.elt, ast.Call) and \
                            call_attr(n.value.elt) == idfun and path_of(n.value.generators[0].iter) == 'self.prevs' and not n.value.generators[0].ifs:
                        prevs_ok = True
            if isinstance(n, ast.For) and path_of(n.iter) == 'self.subproof.items' and any(
                    isinstance(c, ast.Call) and (call_attr(c) == meth or (call_attr(c), tuple(src(a, 200) for a in c.args)) in again)
                    for c in ast.walk(n)):
                sub_ok = True
        for what, ok in (('id', id_ok), ('prevs', prevs_ok), ('subproof', sub_ok)):
            res.add('%s :: ProofItem.%s :: rewrites(%s)' % (PROOF, meth, what), ok,
                    'renumbered with %s' % idfun if ok else '%s of a following item is not renumbered' % what, f.loc)
    st = repo.cls(METHOD, 'ProofState')
    for meth, renum, start in (('add_line_before', 'incr_proof_item', 'split+n'), ('remove_line', 'decr_proof_item', 'split')):
        f = need(st.methods.get(meth), 'ProofState.%s not found' % meth)
        ok = False
        for n in ast.walk(f.node):
            if isinstance(n, ast.For) and isinstance(n.iter, ast.Subscript) and (path_of(n.iter.value) or '').endswith('.items') and \
                    isinstance(n.iter.slice, ast.Slice) and n.iter.slice.upper is None and n.iter.slice.lower is not None and \
                    src(n.iter.slice.lower).replace(' ', '') == start:
                if any(isinstance(c, ast.Call) and call_attr(c) == renum for c in ast.walk(n)) and \
                        not any(isinstance(x, (ast.If, ast.Break, ast.Continue)) for s in n.body for x in ast.walk(s)):
                    ok = True
        res.add('%s :: ProofState.%s :: renumbers-all-following' % (METHOD, meth), ok,
                'every item from %s on is renumbered' % start if ok else 'not every following item is renumbered', f.loc)
    # every method storing into prf.items re-checks the proof on every path
    for name, f in st.methods.items():
        cfg = cfg_of(f.node)
        stores = []
        for n in cfg.stmt_nodes(ast.Assign):
            for t in n.ast.targets:
                p = path_of(t) or ''
                if '.items' in p and not p.startswith('res.'):
                    stores.append(n)
        if not stores:
            continue
        checks = [n for n in cfg.nodes if n.kind == 'stmt' and any(
            isinstance(c, ast.Call) and call_name(c) == 'self.check_proof' and
            any(k.arg == 'compute_only' and isinstance(k.value, ast.Constant) and k.value.value is True for k in c.keywords)
            for c in ast.walk(n.ast))]
        # methods that finish by calling another editing method inherit its check
        mut = mutating_methods(repo)
        checks += [n for n in cfg.nodes if n.kind == 'stmt' and any(
            isinstance(c, ast.Call) and isinstance(c.func, ast.Attribute) and is_name(c.func.value, 'self') and
            c.func.attr in (mut - {name}) for c in ast.walk(n.ast))]
        bad = [s for s in stores if cfg.exit.id in cfg.reach_from([b for b, _l in s.succ], skip_nodes=checks)]
        res.add('%s :: ProofState.%s :: recheck-after-edit' % (METHOD, name), not bad,
                'check_proof(compute_only=True) follows every store into the proof' if not bad else
                'the proof is modified at line %s and the method can return without re-checking it' % [s.lineno for s in bad], f.loc)
    return res


def rule_a4(repo):
    res = RuleResult('C13.A4', 'an exported proof step carries every key the importers read', floor=2)
    exp = repo.func(PRINTER, 'export_proof_item')
    # keys of the dict literal assigned to res
    always = set()
    # the line may be built in export_proof_item itself or in a function of the module it calls (two levels)
    builders, todo = [exp], [(exp, 0)]
    while todo:
        g, d = todo.pop()
        for c in ast.walk(g.node):
            if isinstance(c, ast.Call) and isinstance(c.func, ast.Name) and c.func.id in exp.module.functions and d < 2:
                h = exp.module.functions[c.func.id]
                if h not in builders:
                    builders.append(h)
                    todo.append((h, d + 1))
    for g in builders:
        gflow = flow_of(g.node)
        returned = {nm for r in ast.walk(g.node) if isinstance(r, ast.Return) and r.value is not None for nm in gflow.names_closure(r.value)}    # `exported = [res]; return exported`
        for n in ast.walk(g.node):
            if isinstance(n, ast.Assign) and isinstance(n.value, ast.Dict) and any(isinstance(t, ast.Name) and t.id in returned for t in n.targets) and \
                    any(isinstance(k, ast.Constant) and k.value == 'id' for k in n.value.keys):
                always |= {k.value for k in n.value.keys if isinstance(k, ast.Constant)}
    need(always, 'printer.export_proof_item: exported dict literal not found')
    for rel, qual, param in ((PARSER, 'parse_proof_rule', None), (SERVER, 'parse_proof', None)):
        f = repo.func(rel, qual)
        if qual == 'parse_proof':
            # reads keys of the loop variable over its parameter
            req = set()
            for n in ast.walk(f.node):
                if isinstance(n, ast.For) and is_name(n.iter, f.params()[0]) and isinstance(n.target, ast.Name):
                    v = n.target.id
                    for x in ast.walk(n):
                        if isinstance(x, ast.Subscript) and is_name(x.value, v) and isinstance(x.slice, ast.Constant):
                            req.add(x.slice.value)
        else:
            req, _opt = read_keys(f, f.params()[0])
        miss = sorted(req - always)
        res.add('%s :: %s :: keys' % (rel, qual), bool(req) and not miss,
                'reads %s, all exported' % sorted(req) if req and not miss else
                'reads %s which export_proof_item does not write: an exported proof cannot be imported' % miss, f.loc)
    return res


def _sig_text(node, module, repo):
    """normalised text of a signature expression: Tuple[str, Term] ..."""
    if node is None or (isinstance(node, ast.Constant) and node.value is None):
        return 'None'
    if isinstance(node, ast.Subscript):
        base = (dotted(node.value) or '').split('.')[-1]
        elts = node.slice.elts if isinstance(node.slice, ast.Tuple) else [node.slice]
        return '%s[%s]' % (base, ', '.join(_sig_text(e, module, repo) for e in elts))
    if isinstance(node, (ast.List,)):
        return '[]' if not node.elts else '[%s]' % ', '.join(_sig_text(e, module, repo) for e in node.elts)
    nm = dotted(node)
    if nm:
        return nm.split('.')[-1]
    return src(node)


def rule_a5(repo):
    res = RuleResult('C13.A5', 'every argument signature a proof step can carry is one the step parser can read back', floor=8)
    pa = repo.func(PARSER, 'parse_args')
    sigp = pa.params()[0]
    handled = set()
    for n in ast.walk(pa.node):
        cp = compare_parts(n) if isinstance(n, ast.Compare) else None
        if cp and cp[0] is ast.Eq and is_name(cp[1], sigp):
            # a comparison with a loop variable over a written-out table of signatures stands for its rows
            vals = loop_table_values(pa.node, cp[2].id, pa.module) if isinstance(cp[2], ast.Name) else None
            for v in (vals if vals is not None else [cp[2]]):
                handled.add(_sig_text(v, pa.module, repo))
        if cp and cp[0] is ast.In and is_name(cp[1], sigp) and isinstance(cp[2], (ast.Tuple, ast.List, ast.Set)):
            for v in cp[2].elts:
                handled.add(_sig_text(v, pa.module, repo))
    need(len(handled) >= 5, 'parser.parse_args: signature dispatch not found')
    sources = {}
    for mi in macro_index(repo):
        if not mi.names:
            continue
        for v in mi.sig_values():
            sources.setdefault(_sig_text(v, mi.cls.module, repo), []).append(mi.label)
    for name, (fn, tag, _row) in primitive_table(repo).items():
        sources.setdefault(tag or 'None', []).append(name)
    gs = repo.func(THEORY, 'Theory.get_proof_rule_sig')
    for r in returns_of(gs.node):
        if r.value is not None and not isinstance(r.value, ast.Name) and not (isinstance(r.value, ast.Attribute)):
            sources.setdefault(_sig_text(r.value, gs.module, repo), []).append('get_proof_rule_sig')
    for sig, who in sorted(sources.items()):
        ok = sig in handled
        res.add('%s :: parse_args :: signature(%s)' % (PARSER, sig), ok,
                'handled (used by %s%s)' % (', '.join(who[:3]), '...' if len(who) > 3 else '') if ok else
                'steps of rule %s carry arguments of signature %s, which parse_args cannot parse: exporting and re-importing a proof '
                'that uses it fails' % (', '.join(who[:3]), sig), pa.loc)
    return res


def rule_a6(repo):
    """ProofItem.__copy__ hands `args`, `prevs` and `th` of the original to the copy (C13.A1 accepts that
    because nobody modifies them).  That only holds if these fields are replaced, never modified in
    place: an in-place update of item.args through one state is visible in every copy."""
    res = RuleResult('C13.A6', 'fields that copies of a proof step share (args, th) are replaced, never modified in place', floor=1)
    MUT = {'insert', 'append', 'extend', 'pop', 'remove', 'clear', 'sort', 'reverse', 'update', 'setdefault', 'add'}
    SHARED = ('args', 'th', 'rule', 'id')
    n_scanned = 0
    for m in repo.source_modules():
        if not (m.rel.startswith(('server/', 'kernel/', 'logic/', 'app/', 'data/', 'prover/', 'imperative/'))):
            continue
        for f in m.all_funcs:
            if f.parent is not None:
                continue
            flow = None
            for n in ast.walk(f.node):
                target = None
                how = None
                if isinstance(n, ast.Call) and isinstance(n.func, ast.Attribute) and n.func.attr in MUT and \
                        isinstance(n.func.value, ast.Attribute) and n.func.value.attr in SHARED:
                    target, how = n.func.value, '.%s(...)' % n.func.attr
                elif isinstance(n, (ast.Assign, ast.AugAssign)):
                    for t in (n.targets if isinstance(n, ast.Assign) else [n.target]):
                        if isinstance(t, ast.Subscript) and isinstance(t.value, ast.Attribute) and t.value.attr in SHARED:
                            target, how = t.value, '[...] = '
                        if isinstance(n, ast.AugAssign) and isinstance(t, ast.Attribute) and t.attr in SHARED and \
                                isinstance(n.op, ast.Add) and False:
                            target, how = t, '+='
                if target is None:
                    continue
                # is the receiver a proof item?  (obtained from get_proof_item / find_item / .items[...])
                from ..flow import flow_of
                flow = flow or flow_of(f.node)
                roots = flow.resolve(target.value)
                is_item = any(('get_proof_item()' in r) or ('find_item()' in r) or ('.items[' in r) or r.endswith('.items[*]') for r in roots)
                if not is_item:
                    continue
                n_scanned += 1
                res.add('%s :: %s :: in-place(%s.%s%s)' % (m.rel, f.qualname, src(target.value, 20), target.attr, how), False,
                        '`%s` modifies the %s of a proof step in place; copies of the state made earlier share that object and change with it' % (
                            src(n, 60), target.attr), '%s:%d' % (m.rel, n.lineno))
    # the sharing that makes this necessary
    item = repo.cls(PROOF, 'ProofItem')
    cp = item.methods.get('__copy__')
    shares = cp is not None and any(isinstance(k, ast.keyword) and k.arg == 'args' and path_of(k.value) == 'self.args' for c in ast.walk(cp.node)
                                    if isinstance(c, ast.Call) for k in c.keywords)
    res.add('%s :: ProofItem.__copy__ :: shares(args)' % PROOF, True,
            'copies share args with the original (replace-only discipline checked over %d modules)' % len(repo.source_modules()) if shares else
            'copies get their own args', cp.loc if cp else item.loc, nontrivial=False)
    return res


def rule_a7(repo):
    """A loop over the items of a proof that rewrites their citations must descend into the nested
    subproof of each item: steps inside a later subproof may cite lines of the enclosing levels."""
    res = RuleResult('C13.A7', 'a traversal that rewrites the citations of proof items reaches the items of nested subproofs', floor=1)
    for rel in (METHOD, PROOF):
        m = repo.module(rel)
        for f in m.all_funcs:
            for loop in walk_no_nested(f.node, include_root=False):
                if not (isinstance(loop, ast.For) and isinstance(loop.target, ast.Name)):
                    continue
                itp = path_of(loop.iter.value if isinstance(loop.iter, ast.Subscript) else loop.iter) or ''
                if not itp.endswith('.items'):
                    continue
                v = loop.target.id
                rewrites = [n for st in loop.body for n in ast.walk(st) if isinstance(n, ast.Assign) and
                            any(path_of(t) == v + '.prevs' for t in n.targets)]
                if not rewrites:
                    continue
                descends = False
                for st in loop.body:
                    for n in ast.walk(st):
                        if isinstance(n, ast.Call) and any((path_of(a) or '').startswith(v + '.subproof') for a in n.args):
                            descends = True
                        if isinstance(n, ast.For) and (path_of(n.iter) or '').startswith(v + '.subproof'):
                            descends = True
                res.add('%s :: %s :: citation-rewrite(%s)' % (rel, f.qualname, itp), descends,
                        'each item\'s subproof is traversed too' if descends else
                        'the loop rewrites `%s.prevs` of the items of one level only: a step inside a later subproof that cites the '
                        'replaced line keeps the stale identifier' % v, '%s:%d' % (rel, loop.lineno))
    return res


def rule_a8(repo):
    """Whether a fact may be used for a goal is the checker's question (ItemID.can_depend_on: an earlier line
    of the same or an enclosing block).  The editor must ask it in the same words before it lets a method
    build lines that cite the fact: edit steps are re-checked with compute_only=True, which skips lines that
    already state a sequent, so an illegal citation would surface only in the final full check."""
    res = RuleResult('C13.A8', 'a method is applied only to facts the goal can depend on, decided by the checker\'s own predicate', floor=1)
    f = repo.func(METHOD, 'apply_method')
    cfg = cfg_of(f.node)
    applies = [n for n in cfg.nodes if n.kind == 'stmt' and any(isinstance(c, ast.Call) and call_attr(c) == 'apply' for c in ast.walk(n.ast))]
    need(applies, 'apply_method: call of method.apply not found')

    def visible(e, pol):
        # all(goal.can_depend_on(f) for f in facts)  /  goal.can_depend_on(f) inside a loop over the facts
        if not pol:
            return False
        if isinstance(e, ast.Call) and call_name(e) == 'all' and e.args and isinstance(e.args[0], (ast.GeneratorExp, ast.ListComp)):
            return any(isinstance(c, ast.Call) and call_attr(c) == 'can_depend_on' for c in ast.walk(e.args[0].elt)) and \
                not any(g.ifs for g in e.args[0].generators)
        return False
    edges = cfg.establishing_edges(visible)
    loops = []
    for it in cfg.nodes_of_kind('iter'):
        tests = [t for t in cfg.test_nodes() if isinstance(t.ast, ast.Call) and call_attr(t.ast) == 'can_depend_on' and
                 it.ast.lineno <= t.lineno <= (it.ast.end_lineno or 0)]
        # the failing side of the test must not lead on to the application
        if tests and all(not any(a.id in cfg.reach_from([b for b, l in t.succ if l == 'false']) for a in applies) for t in tests):
            loops.append(it)
    ok = bool(edges or loops) and all(cfg.path_avoiding(a, skip_edges=edges, skip_nodes=loops) is None for a in applies)
    res.add('%s :: apply_method :: facts-visible-from-goal' % METHOD, ok,
            'every fact passes goal_id.can_depend_on(fact) before the method is applied' if ok else
            'the method is applied without asking can_depend_on for every fact: a line of a closed sibling block, or the line of the '
            'enclosing block itself, can be cited; the step succeeds and the full check of the finished proof fails', f.loc)
    return res


def rule_a9(repo):
    """When a method finds that a gap is already proved (find_goal returns the line that proves it), the gap is
    removed and its citations are redirected - to that line.  `replace_id(gap, X)`: X must be what find_goal
    returned, not some other identifier that happens to be in scope."""
    res = RuleResult('C13.A9', 'citations of a discharged gap are redirected to the line find_goal found', floor=4)
    m = repo.module(METHOD)
    for f in m.all_funcs:
        calls = [c for c in ast.walk(f.node) if isinstance(c, ast.Call) and call_attr(c) == 'replace_id' and len(c.args) == 2]
        if not calls:
            continue
        flow = flow_of(f.node)
        for c in calls:
            tgt = c.args[1]
            from_find = any(isinstance(rh, ast.Call) and call_attr(rh) == 'find_goal' for nm in flow.names_closure(tgt) | ({tgt.id} if isinstance(tgt, ast.Name) else set())
                            for kd, rh in flow.defs.get(nm, []) if kd == 'value') or \
                (isinstance(tgt, ast.Call) and call_attr(tgt) == 'find_goal')
            k = sum(1 for i in res.instances if ':: %s ::' % f.qualname in i.key)
            res.add('%s :: %s :: redirect#%d(%s)' % (METHOD, f.qualname, k + 1, src(c.args[0], 20)), from_find,
                    'redirected to the result of find_goal' if from_find else
                    '`%s`: the new target `%s` is not the line find_goal returned: the closing step then cites a line that states something else, '
                    'and the finished proof fails its check' % (src(c, 50), src(tgt, 20)), '%s:%d' % (METHOD, c.lineno))
    return res


def renumbering_rule(repo, rid):
    """Inserting or deleting a line renumbers the lines behind it *and every line of their subproofs*
    (ids 2.0, 2.1 below line 2 move with line 2), in the id of each item and in every citation.  In ItemID the
    two renumbering functions must therefore (a) admit ids that are longer than the reference id - the length
    test is an ordering, not an equality - and (b) rebuild the id from prefix, adjusted component and the
    *remaining components*.  Renumbering only ids of the same depth leaves the subproof of a moved line under
    its old number: citations point at the wrong line and the proof no longer checks after a deletion."""
    res = RuleResult(rid, 'renumbering after an insertion or deletion moves the ids of every depth below the changed position', floor=2)
    cls = repo.module('kernel/proof.py').classes['ItemID']
    for mname in ('incr_id_after', 'decr_id'):
        f = need(cls.find_method(mname), 'ItemID.%s not found' % mname)
        ps = f.params()
        ref = ps[1]
        # names bound to len(<ref>.id)
        lens = {n.targets[0].id for n in ast.walk(f.node) if isinstance(n, ast.Assign) and isinstance(n.targets[0], ast.Name) and
                src(n.value, 60).replace(' ', '') == 'len(%s.id)' % ref}

        def is_reflen(e):
            return (isinstance(e, ast.Name) and e.id in lens) or src(e, 60).replace(' ', '') == 'len(%s.id)' % ref

        def is_selflen(e):
            return src(e, 60).replace(' ', '') == 'len(self.id)'
        from ..astutil import comparison_holding
        cfg = cfg_of(f.node)
        # the answers that renumber: everything returned except the identifier itself
        renum = [r for r in cfg.return_nodes() if r.ast.value is not None and not is_name(r.ast.value, 'self')]
        need(renum, 'ItemID.%s: no result in the renumbering case' % mname)
        problems = []
        length_tests = [t for t in cfg.test_nodes() if any((is_selflen(x) and is_reflen(y)) for _op, x, y in comparison_holding(t.ast, True))]
        if not length_tests:
            need(False, 'ItemID.%s: test on the length of the id not recognised' % mname)
        for t in length_tests:
            for bnode, label in t.succ:
                reach = cfg.reach_from([bnode])
                if not any(r.id in reach for r in renum):
                    continue
                holds = [op for op, x, y in comparison_holding(t.ast, label == 'true') if is_selflen(x) and is_reflen(y)]
                if not holds or holds[0] is not ast.GtE:
                    problems.append('the length test `%s` (taken %s) excludes the ids of the subproofs below a renumbered line' % (src(t.ast, 50), label))
        # the rebuilt id keeps the remaining components: the result contains the slice self.id[<reflen>:]
        flow = flow_of(f.node)
        for r in renum:
            v = flow.inline(r.ast.value)
            keeps = any(isinstance(x, ast.Subscript) and isinstance(x.slice, ast.Slice) and x.slice.upper is None and x.slice.lower is not None and
                        is_reflen(x.slice.lower) and src(x.value, 20) == 'self.id' for x in ast.walk(v))
            if not keeps:
                problems.append('the result `%s` does not carry the components behind position len(%s.id) over' % (src(r.ast.value, 50), ref))
        res.add('kernel/proof.py :: ItemID.%s :: all-depths' % mname, not problems,
                'ids at least as long as the reference id are renumbered and keep their remaining components' if not problems else
                '; '.join(problems) + ' -- after the edit the lines of a moved subproof keep their old numbers and citations point at other lines',
                f.loc)
    return res


def rule_a10(repo):
    return renumbering_rule(repo, 'C13.A10')


def rule_a11(repo):
    """An exported proof is read back line by line.  A `variable` line declares a name for the lines that
    follow it *in its scope*; two sibling subproofs may declare the same name at different types.  Each line must
    therefore be parsed under the declarations registered so far: registration and parsing are steps of one pass over
    the lines, registration first.  Declaring everything up front types every line by the last declaration of a name."""
    res = RuleResult('C13.A11', 'a proof line is parsed under the variable declarations of the lines before it (one pass, registration first)', floor=1)
    from ..inline import inlined
    f = inlined(repo.func('server/server.py', 'parse_proof'), lambda h: any(
        (isinstance(st, ast.Assign) and isinstance(st.targets[0], ast.Subscript) and src(st.targets[0].value, 40).endswith('ctxt.vars')) or
        (isinstance(st, ast.Call) and call_attr(st) == 'parse_proof_rule') for st in ast.walk(h.node)))[0]      # either step may be a helper
    cfg = cfg_of(f.node)
    loops = [l for l in ast.walk(f.node) if isinstance(l, ast.For)]
    reg = [(l, st) for l in loops for st in ast.walk(l) if isinstance(st, ast.Assign) and isinstance(st.targets[0], ast.Subscript) and
           src(st.targets[0].value, 40).endswith('ctxt.vars')]
    par = [(l, c) for l in loops for c in ast.walk(l) if isinstance(c, ast.Call) and call_attr(c) == 'parse_proof_rule']
    need(reg and par, 'parse_proof: registration of variable lines / parsing of a line not found')
    problems = []
    for l, c in par:
        same = [st for l2, st in reg if l2 is l]
        if not same:
            problems.append('line %d parses the lines in a loop of its own (line %d); the declarations are registered in another loop (line %d)' % (
                c.lineno, l.lineno, reg[0][0].lineno))
            continue
        if not (c.args and isinstance(l.target, ast.Name) and is_name(c.args[0], l.target.id)):
            problems.append('line %d does not parse the line of the current iteration' % c.lineno)
        # within one round of the loop the registration comes first: the parsing step cannot be followed by it before the next round
        head = [n for n in cfg.nodes_of_kind('iter') if n.ast is l]
        pnodes = [n for n in cfg.nodes if n.kind in ('stmt', 'return') and n.ast is not None and any(x is c for x in ast.walk(n.ast))]
        rnodes = [n for n in cfg.nodes if n.kind == 'stmt' and any(n.ast is st for st in same)]
        if head and pnodes and rnodes:
            after = cfg.reach_from([b for p in pnodes for b, _l in p.succ], skip_nodes=head)
            if any(r.id in after for r in rnodes):
                problems.append('line %d parses the line before its own declaration is registered' % c.lineno)
        else:
            need(False, 'parse_proof: steps of the loop over the lines not found in the flow graph')
    res.add('server/server.py :: parse_proof :: declare-then-parse-per-line', not problems,
            'one loop: a variable line is registered, then the line is parsed' if not problems else
            '; '.join(problems) + ' -- with two subproofs that each introduce x, at nat and at bool, every line is typed by the last declaration: the '
            'exported proof of a state that checks no longer parses', f.loc)
    return res


def _conv_skeleton(flow, e, depth=0):
    """the conversion an expression builds, as the nesting of its combinators (calls of `.._conv`), other arguments left out;
    a local with several definitions that all build the same conversion stands for it"""
    if isinstance(e, ast.Name) and flow.is_local(e.id) and depth < 4:
        sk = {_conv_skeleton(flow, r, depth + 1) for k, r in flow.defs[e.id] if k == 'value'}
        return sk.pop() if len(sk) == 1 else ''
    if isinstance(e, ast.Call) and (call_name(e) or '').split('.')[-1].endswith('_conv'):
        return '%s(%s)' % (call_name(e).split('.')[-1], ', '.join(x for x in (_conv_skeleton(flow, a, depth) for a in e.args) if x))
    return ''


def rule_a12(repo):
    """A tactic that hands a goal over to a macro states, at edit time, the subgoal the macro will leave (a `sorry` line
    with that statement); the macro recomputes the subgoal when the proof is checked in full.  Both obtain it by running a
    conversion over the goal: it has to be the same conversion, or the stated gap is not the statement the macro needs
    ((%x. g (f x)) a = c instead of g (f a) = c) and the full check of a proof that was edited without error fails."""
    from ..macros import macro_index
    res = RuleResult('C13.A12', 'a tactic states the subgoal of the macro it hands over to by the conversion that macro uses', floor=2)
    names = {}
    for mi in macro_index(repo):
        for n in mi.names:
            names[n] = mi
    m = repo.module('logic/tactic.py')

    def biggest(f):
        flow = flow_of(f.node)
        # every conversion the function builds, wherever it stands (assigned to a name, or used on the spot: then_conv(..).eval(t))
        sks = [_conv_skeleton(flow, n) for n in ast.walk(f.node) if isinstance(n, ast.Call) and (call_name(n) or '').split('.')[-1].endswith('_conv')]
        sks = [x for x in sks if x]
        return max(sks, key=len) if sks else None
    for c in m.classes.values():
        gp = c.methods.get('get_proof_term')
        if gp is None:
            continue
        used = sorted({x.value for x in ast.walk(gp.node) if isinstance(x, ast.Constant) and isinstance(x.value, str) and x.value in names})
        sk_t = biggest(gp)
        if not used or not sk_t:
            continue
        for nm in used:
            g = names[nm].cls.find_method('get_proof_term')
            sk_m = biggest(g) if g is not None else None
            if not sk_m:
                continue
            ok = sk_t == sk_m
            res.add('logic/tactic.py :: %s :: same-conversion-as(%s)' % (c.name, nm), ok,
                    'both use %s' % sk_t if ok else
                    'the tactic computes the new goal with %s, the macro %s with %s: the gap stated at edit time is not the statement the macro '
                    'reduces the goal to, and the full check fails although every editing step succeeded' % (sk_t, nm, sk_m), gp.loc)
    return res

def rule_a13(repo):
    """The introduction tactic opens a goal A_1 --> .. --> A_n --> C into a block of one `assume` line per antecedent and a
    gap for C; the `intros` step at the end of the block puts one implication back per assume line.  The line it stands
    on still states the goal, so there must be as many assume lines as the goal has antecedents: the assume lines are
    made from exactly the list the goal was taken apart into - repeated antecedents included (A --> A --> C comes out of
    an ordinary `cases A` on A --> C).  A list with repetitions removed gives a block that proves A --> C under a line that
    says A --> A --> C; the edit goes through (it is only computed, not compared) and every later full check fails."""
    res = RuleResult('C13.A13', 'the introduction tactic makes one assume line per antecedent of the goal, repetitions included', floor=1)
    f = repo.func('logic/tactic.py', 'intros.get_proof_term')
    cfg = cfg_of(f.node)
    comps = [c for c in ast.walk(f.node) if isinstance(c, (ast.ListComp, ast.GeneratorExp)) and len(c.generators) == 1 and isinstance(c.elt, ast.Call) and
             (call_name(c.elt) or '').endswith('ProofTerm.assume') and c.elt.args and isinstance(c.generators[0].target, ast.Name) and
             is_name(c.elt.args[0], c.generators[0].target.id)]
    need(comps, 'intros.get_proof_term: the assume premises (ProofTerm.assume(A) for A in ..) not found')
    for c in comps:
        at = cfg.node_for(c)
        need(at is not None, 'intros.get_proof_term: statement of the assume premises not found')
        it = cfg.value_at(at, c.generators[0].iter)
        while isinstance(it, ast.Call) and isinstance(it.func, ast.Name) and it.func.id in ('list', 'tuple') and len(it.args) == 1:
            it = it.args[0]
        verdict, why = None, ''
        if isinstance(it, ast.Name):
            defs = cfg.reaching_assignments(at, it.id)
            if len(defs) == 1 and isinstance(defs[0].ast, ast.Assign) and isinstance(defs[0].ast.targets[0], (ast.Tuple, ast.List)) and \
                    isinstance(defs[0].ast.value, ast.Call) and (call_name(defs[0].ast.value) or '').split('.')[-1] in ('strip_all_implies', 'strip_implies'):
                verdict = True
        if verdict is None:
            losing = [x for x in ast.walk(it) if isinstance(x, ast.Call) and ((call_name(x) or '') in ('dict.fromkeys', 'set', 'frozenset') or
                                                                           call_attr(x) in ('fromkeys',))]
            if losing or isinstance(it, (ast.SetComp, ast.DictComp)):
                verdict, why = False, src(it, 60)
        need(verdict is not None, 'intros.get_proof_term: cannot tell where the list of assumed antecedents `%s` comes from' % src(it, 60))
        res.add('logic/tactic.py :: intros.get_proof_term :: one-assume-per-antecedent', verdict,
                'the assume lines are made from the antecedents as the goal was taken apart' if verdict else
                'line %d makes the assume lines from `%s`, in which repeated antecedents occur once: for the goal A --> A --> C the block proves A --> C '
                'under a line that states A --> A --> C, and the proof no longer checks in full' % (c.lineno, why), 'logic/tactic.py:%d' % c.lineno)
    return res

def stale_id_rule(repo, rid):
    """Removing or inserting a line renumbers the lines after it (C13.A3).  A method that walks over several new lines and
    closes some of them (`replace_id`, `remove_line`) holds their identifiers from *before* the change: (a) the lines are
    visited from the last to the first (or the walk ends at the first change), so that the identifiers still to be used
    lie in front of every change; (b) the sequence walked over is not the very list that is being changed; (c) only gaps
    (`rule == 'sorry'`) are closed - an assumption or the closing step of a block is not a goal, and replacing it by a
    citation leaves a block that no longer proves its line; (d) after such a walk, identifiers taken from the same
    sequence are not used again.  conjI on (A --> A) & B lost the goal B; introduction replaced `assume A` by a citation."""
    res = RuleResult(rid, 'line numbers taken before lines are removed are not used after the removal; only gaps are closed', floor=2)
    m = repo.module(METHOD)
    RENUMBER = {'replace_id', 'remove_line', 'add_line_before'}
    INDEXING = RENUMBER | {'set_line', 'get_proof_item', 'find_goal', 'apply_tactic'}
    from ..inline import inlined

    def closes(h):
        # a helper that removes / replaces a line it is handed: read in place at its call (the body of a closing walk moved into a method)
        return any(isinstance(c, ast.Call) and call_attr(c) in ('replace_id', 'remove_line') for c in ast.walk(h.node)) and \
            not any(isinstance(l, (ast.For, ast.While)) for l in ast.walk(h.node))
    for f0 in m.all_funcs:
        if not any(isinstance(l, ast.For) for l in ast.walk(f0.node)):
            continue
        f = inlined(f0, closes)[0]
        loops = [l for l in ast.walk(f.node) if isinstance(l, ast.For) and isinstance(l.target, ast.Name)]
        if not loops:
            continue
        flow = flow_of(f.node)
        cfg = None
        for lp in loops:
            v = lp.target.id
            calls = [c for st in lp.body for c in ast.walk(st) if isinstance(c, ast.Call) and call_attr(c) in RENUMBER and
                     any(isinstance(x, ast.Name) and x.id == v for a in c.args for x in ast.walk(a))]
            if not calls:
                continue
            cfg = cfg or cfg_of(f.node)
            # reversed(X), list(reversed(X)), reversed(list(X)), X[::-1]: the order is what matters, copies in between change nothing
            it, rev, copied = lp.iter, False, False
            while True:
                if isinstance(it, ast.Call) and isinstance(it.func, ast.Name) and it.func.id in ('list', 'tuple') and len(it.args) == 1:
                    it, copied = it.args[0], True
                elif isinstance(it, ast.Call) and is_name(it.func, 'reversed') and len(it.args) == 1:
                    it, rev = it.args[0], not rev
                elif isinstance(it, ast.Subscript) and isinstance(it.slice, ast.Slice) and it.slice.lower is None and it.slice.upper is None and \
                        isinstance(it.slice.step, ast.UnaryOp) and isinstance(it.slice.step.op, ast.USub) and getattr(it.slice.step.operand, 'value', None) == 1:
                    it, rev, copied = it.value, not rev, True
                else:
                    break
            seq = it
            problems = []
            # (a) order
            head = [n for n in cfg.nodes if n.kind == 'iter' and n.ast is lp]
            need(head, '%s: loop head not found in the flow graph' % f.qualname)
            comes_back = any(head[0].id in cfg.reach_from([b for b, _l in cfg.node_for(c).succ]) for c in calls if cfg.node_for(c) is not None)
            if not rev and comes_back:
                problems.append('the lines are visited in forward order: after `%s` the identifiers of the following lines are one too high' % src(calls[0], 40))
            # (b) live list
            snap = copied or (isinstance(seq, ast.Call) and isinstance(seq.func, ast.Name) and seq.func.id in ('list', 'tuple', 'sorted'))
            inl = flow.inline(seq)
            live = not snap and any(isinstance(x, ast.Attribute) and x.attr == 'subproof' for x in ast.walk(inl))
            if live:
                problems.append('`%s` is the list of the block that is being changed (no copy is taken)' % src(seq, 40))
            # (c) only gaps
            def gap(e, pol, v=v):
                cp = compare_parts(e)
                return bool(cp) and pol and cp[0] is ast.Eq and src(cp[1]) == v + '.rule' and isinstance(cp[2], ast.Constant) and cp[2].value == 'sorry' or \
                    bool(cp) and not pol and cp[0] is ast.NotEq and src(cp[1]) == v + '.rule' and isinstance(cp[2], ast.Constant) and cp[2].value == 'sorry'
            edges = cfg.establishing_edges(gap)
            closing = [c for c in calls if call_attr(c) in ('replace_id', 'remove_line')]
            for c in closing:
                n = cfg.node_for(c)
                if n is not None and (not edges or cfg.path_avoiding(n, skip_edges=edges, start=head[0]) is not None):
                    problems.append('`%s` is reached for lines that are not gaps (no test `%s.rule == \'sorry\'`)' % (src(c, 40), v))
                    break
            # (d) the same sequence walked again afterwards, its identifiers used
            after = cfg.reach_from([b for b, l in head[0].succ if l == 'done'])
            for lp2 in loops:
                if lp2 is lp or not isinstance(lp2.target, ast.Name):
                    continue
                h2 = [n for n in cfg.nodes if n.kind == 'iter' and n.ast is lp2]
                it2 = lp2.iter.args[0] if isinstance(lp2.iter, ast.Call) and is_name(lp2.iter.func, 'reversed') and lp2.iter.args else lp2.iter
                if h2 and h2[0].id in after and src(it2) == src(seq) and any(
                        isinstance(c, ast.Call) and call_attr(c) in INDEXING and any(src(a).startswith(lp2.target.id + '.id') for a in c.args)
                        for st in lp2.body for c in ast.walk(st)):
                    problems.append('line %d walks over `%s` again and uses the identifiers its elements had before the removals' % (lp2.lineno, src(seq, 40)))
            res.add('%s :: %s :: closing-walk#%d' % (METHOD, f.qualname, 1 + sum(1 for k in res.instances if (' :: ' + f.qualname + ' :: ') in k.key)), not problems,
                    'last to first, over a sequence of its own, gaps only' if not problems else '; '.join(problems) +
                    ' -- the proof that results no longer checks although the step was applied without error', '%s:%d' % (METHOD, lp.lineno))
    return res


def rule_a14(repo):
    return stale_id_rule(repo, 'C13.A14')

def rule_a15(repo):
    """exists_elim opens the leading existential quantifiers of a fact with the names the user gave: `vars, body = strip_exists(prop, names)`.
    How many were opened is `len(vars)` - with more names than quantifiers the spare names are ignored.  Everything that is counted
    afterwards (lines to insert, the position of the assume line, the citations added to the closing step) is counted from what was
    opened, never from what was asked for: counted from `len(names)`, a spare name leaves an empty line in the block that the closing
    step cites, and the proof no longer checks."""
    res = RuleResult('C13.A15', 'after opening quantifiers, lines are counted from the variables that were opened, not from the names that were given', floor=1)
    m = repo.module(METHOD)
    n_found = 0
    for f in m.all_funcs:
        strips = [a for a in ast.walk(f.node) if isinstance(a, ast.Assign) and isinstance(a.targets[0], (ast.Tuple, ast.List)) and len(a.targets[0].elts) == 2 and
                  isinstance(a.value, ast.Call) and (call_name(a.value) or '').split('.')[-1] in ('strip_exists', 'strip_forall') and len(a.value.args) >= 2 and
                  isinstance(a.targets[0].elts[0], ast.Name) and isinstance(a.value.args[1], ast.Name)]
        if not strips:
            continue
        flow = flow_of(f.node)
        for a in strips:
            opened, asked = a.targets[0].elts[0].id, a.value.args[1].id
            n_found += 1
            bad = []
            for c in ast.walk(f.node):
                if not (isinstance(c, ast.Call) and (call_attr(c) in ('add_line_before', 'incr_id') or is_name(c.func, 'range'))):
                    continue
                for arg in c.args:
                    for nm in flow.names_closure(arg) | {x.id for x in ast.walk(arg) if isinstance(x, ast.Name)}:
                        for _k, rhs in flow.defs.get(nm, []) + [('value', arg)]:
                            for ln in ast.walk(rhs):
                                if isinstance(ln, ast.Call) and is_name(ln.func, 'len') and ln.args and is_name(ln.args[0], asked):
                                    bad.append((c, ln))
            res.add('%s :: %s :: counted-from-opened(%s)' % (METHOD, f.qualname, opened), not bad,
                    'line arithmetic uses len(%s)' % opened if not bad else
                    'line %d: `%s` is computed from `len(%s)`, the number of names given, not from `len(%s)`, the number of quantifiers opened: with a spare '
                    'name an empty line is inserted and cited' % (bad[0][0].lineno, src(bad[0][0], 50), asked, opened), '%s:%d' % (METHOD, bad[0][0].lineno if bad else a.lineno))
    need(n_found, 'server/method.py: no method that opens quantifiers with given names found')
    return res


def rules(repo):
    return [rule_a1(repo), rule_a2(repo), rule_a3(repo), rule_a4(repo), rule_a5(repo), rule_a6(repo), rule_a7(repo), rule_a8(repo), rule_a9(repo), rule_a10(repo), rule_a11(repo), rule_a12(repo), rule_a13(repo), rule_a14(repo), rule_a15(repo)]
