"""C01 - structural soundness conditions of the primitive inference rules (DESIGN.md 4.C01)."""
import ast

from ..core import RuleResult, need
from ..cfg import cfg_of
from .checker_blocks import check_item_func
from ..flow import flow_of, access_path, path_base
from ..astutil import (src, walk_no_nested, call_attr, call_name, returns_of, compare_parts,
                       names_in, is_name, path_of, comparison_holding)
from ..kinds import infeasible_edges, has_kind_tests, TERM_KINDS
from ..repo import dotted

THM = 'kernel/thm.py'
TERM = 'kernel/term.py'
THEORY = 'kernel/theory.py'

NOT_DECIDED = ('semantic soundness theorem of the 15 rules (needs a model of HOL); de Bruijn arithmetic of '
               'subst_bound / abstract_over (runtime values)')
ASSUMPTIONS = ['Thm(prop, *hyps) builds the sequent hyps |- prop (constructor body not re-verified beyond C01.K1)',
               'names are resolved through imports and class hierarchy (no type checker available)']


# ---------------------------------------------------------------------- shared helpers
def primitive_table(repo):
    """rows of kernel/thm.py::primitive_deriv: name -> (FuncInfo of Thm.<x>, tag string, row node)"""
    m = repo.module(THM)
    table = None
    for n in m.tree.body:
        if isinstance(n, ast.Assign) and any(is_name(t, 'primitive_deriv') for t in n.targets):
            table = n.value
    need(isinstance(table, ast.Dict), 'kernel/thm.py: primitive_deriv dict literal not found')
    rows = {}
    for k, v in zip(table.keys, table.values):
        need(isinstance(k, ast.Constant) and isinstance(v, ast.Tuple) and len(v.elts) == 2,
             'primitive_deriv: row is not "name": (function, tag)')
        fn = dotted(v.elts[0])
        tag = dotted(v.elts[1]) if not (isinstance(v.elts[1], ast.Constant) and v.elts[1].value is None) else None
        rows[k.value] = (fn, tag, v)
    return rows


def theorem_params(func):
    """Parameters used as theorems: `.prop` / `.hyps` / `.is_equals()` ... is read from them."""
    res = []
    for p in func.params():
        for n in ast.walk(func.node):
            if isinstance(n, ast.Attribute) and is_name(n.value, p) and \
                    n.attr in ('prop', 'hyps', 'is_equals', 'is_reflexive', 'concl', 'assums', 'lhs', 'rhs'):
                res.append(p)
                break
    return res


def thm_returns(func):
    """[(Return node, Call node)] for `return Thm(...)`."""
    res = []
    for r in returns_of(func.node):
        if isinstance(r.value, ast.Call) and call_name(r.value) == 'Thm':
            res.append((r, r.value))
    return res


def hyps_contribution(flow, arg, thparam, nonthm_params, prop_expr):
    """How does argument `arg` of Thm(...) carry `thparam.hyps`?
    returns 'whole' | 'map' | 'discharge' | None"""
    e = arg
    # unwrap tuple(...) / list(...) / set(...) / frozenset / sorted
    while isinstance(e, ast.Call) and isinstance(e.func, ast.Name) and \
            e.func.id in ('tuple', 'list', 'set', 'frozenset', 'sorted') and len(e.args) == 1:
        e = e.args[0]
    if isinstance(e, ast.Starred):
        e = e.value
    if isinstance(e, ast.Name) and flow.is_local(e.id):
        kinds = []
        for kind, rhs in flow.defs[e.id]:
            if kind != 'value':
                return None
            kinds.append(hyps_contribution(flow, rhs, thparam, nonthm_params, prop_expr))
        if kinds and all(k is not None for k in kinds):
            return kinds[0]
        return None
    if path_of(e) == thparam + '.hyps':
        return 'whole'
    # a sequence built from the premise as a whole and taken apart again: (th.hyps + (th.prop,)) mapped, then [:-1]
    from ..seqshape import describe
    d = describe(flow, e)
    if d is not None and len(d) == 1 and d[0][0] == 'all' and d[0][1] == thparam + '.hyps' and all(v in names_in(elt) for v, elt in d[0][2]):
        return 'map' if d[0][2] else 'whole'
    if isinstance(e, (ast.GeneratorExp, ast.ListComp)) and len(e.generators) == 1:
        g = e.generators[0]
        if path_of(g.iter) != thparam + '.hyps' or not isinstance(g.target, ast.Name):
            return None
        v = g.target.id
        if v not in names_in(e.elt):
            return None
        if not g.ifs:
            return 'map' if not is_name(e.elt, v) else 'whole'
        # a filter may drop a hypothesis only if it is discharged into the proposition:
        # `h != A` with A a non-theorem parameter that occurs in the returned proposition
        for cond in g.ifs:
            cp = compare_parts(cond)
            if not cp or cp[0] is not ast.NotEq:
                return None
            sides = [cp[1], cp[2]]
            other = [s for s in sides if not is_name(s, v)]
            if len(other) != 1 or not isinstance(other[0], ast.Name) or other[0].id not in nonthm_params:
                return None
            if other[0].id not in names_in(prop_expr):
                return None
        return 'discharge'
    return None


def _nfunc(repo, qual):
    """the function as the kernel rules read it: conditions that were given a name are read at their tests, a list filled by an
    append loop is read as the comprehension it abbreviates (sa/normalize.py, sa/cfg.py)"""
    from ..normalize import append_loops_as_comprehensions, as_func
    from ..cfg import inline_named_conditions
    f = repo.func(THM, qual)
    node = inline_named_conditions(append_loops_as_comprehensions(f.node))
    return as_func(f, node)


# ---------------------------------------------------------------------- K1
def rule_k1(repo):
    res = RuleResult('C01.K1', 'every theorem premise of a primitive rule contributes its hypotheses to every returned Thm', floor=12)
    rows = primitive_table(repo)
    npaths = 0
    for name, (fn, tag, _row) in sorted(rows.items()):
        func = _nfunc(repo, fn)
        flow = flow_of(func.node)
        ths = theorem_params(func)
        nonthm = [p for p in func.params() if p not in ths]
        rets = thm_returns(func)
        need(rets, 'kernel/thm.py :: %s has no `return Thm(...)`' % fn)
        npaths += cfg_of(func.node).count_paths()
        for p in ths:
            bad = []
            how = set()
            for r, call in rets:
                prop = call.args[0] if call.args else None
                found = None
                for a in call.args[1:]:
                    h = hyps_contribution(flow, a, p, nonthm, prop)
                    if h:
                        found = h
                if found is None:
                    bad.append('line %d: %s' % (r.lineno, src(call)))
                else:
                    how.add(found)
            res.add('%s :: %s :: hyps-of(%s)' % (THM, fn, p), not bad,
                    ('carried (%s)' % ','.join(sorted(how))) if not bad else
                    'hypotheses of premise %s do not reach: %s' % (p, '; '.join(bad)), func.loc)
    res.info['cfg_paths'] = npaths
    return res


# ---------------------------------------------------------------------- K2
def _eq_edges(cfg, pred_sides):
    """edges on which an ==/!= comparison satisfying pred_sides(left, right) is known to be equal"""
    def pred(expr, pol):
        cp = compare_parts(expr)
        if not cp:
            return False
        if cp[0] is ast.Eq and pol and (pred_sides(cp[1], cp[2]) or pred_sides(cp[2], cp[1])):
            return True
        if cp[0] is ast.NotEq and not pol and (pred_sides(cp[1], cp[2]) or pred_sides(cp[2], cp[1])):
            return True
        return False
    return cfg.establishing_edges(pred)


def rule_k2(repo):
    res = RuleResult('C01.K2', 'every component destructured from a premise is used in the result or linked by an equality test that guards the result', floor=12)
    rows = primitive_table(repo)
    for name, (fn, tag, _row) in sorted(rows.items()):
        func = _nfunc(repo, fn)
        flow = flow_of(func.node)
        cfg = cfg_of(func.node)
        ths = theorem_params(func)
        rets = thm_returns(func)
        for n in walk_no_nested(func.node):
            if not (isinstance(n, ast.Assign) and len(n.targets) == 1 and isinstance(n.targets[0], ast.Tuple)):
                continue
            roots = flow.resolve(n.value)
            if not any(path_base(p) in ths and '.prop' in p for p in roots):
                continue
            for te in n.targets[0].elts:
                if not isinstance(te, ast.Name):
                    continue
                comp = te.id
                missing = []
                for r, call in rets:
                    rn = cfg.node_for(r)
                    used_in_prop = bool(call.args) and comp in flow.names_closure(call.args[0])
                    if used_in_prop:
                        continue

                    def sides(a, b, comp=comp):
                        # comp (or a value computed from comp only) on one side, something not derived
                        # from comp on the other
                        return comp in names_in(a) and comp not in names_in(b)
                    edges = _eq_edges(cfg, sides)
                    if cfg.path_avoiding(rn, skip_edges=edges) is not None:
                        missing.append('return at line %d reachable without an equality test on %s' % (r.lineno, comp))
                res.add('%s :: %s :: component(%s)' % (THM, fn, comp), not missing,
                        'used or linked' if not missing else '; '.join(missing),
                        '%s:%d' % (THM, n.lineno))
    # type links
    for fn, left_attr, right_attr, what in (
            ('Thm.combination', 'domain_type', 'get_type', 'domain type of f equals type of x'),
            ('Thm.forall_elim', 'var_T', 'get_type', 'type of the bound variable equals type of s')):
        func = _nfunc(repo, fn)
        cfg = cfg_of(func.node)
        rets = thm_returns(func)

        def sides(a, b, left_attr=left_attr, right_attr=right_attr):
            la = {x.attr for x in ast.walk(a) if isinstance(x, ast.Attribute)}
            lb = {x.attr for x in ast.walk(b) if isinstance(x, ast.Attribute)}
            return left_attr in la and right_attr in lb
        edges = _eq_edges(cfg, sides)
        missing = [r.lineno for r, _c in rets if cfg.path_avoiding(cfg.node_for(r), skip_edges=edges) is not None]
        res.add('%s :: %s :: type-link' % (THM, fn), not missing,
                what if not missing else 'return at line %s reachable without the test that %s' % (missing, what),
                func.loc)
    return res


# ---------------------------------------------------------------------- K3
def _admitted_kinds(repo, func, binder_pred, start_in_loop=False):
    """kinds of the binder under which `func` can complete normally"""
    cfg = cfg_of(func.node)
    kinds = ['var', 'svar', 'other']
    adm = set()
    if not has_kind_tests(cfg, binder_pred):
        return None
    start = cfg.entry
    if start_in_loop:
        for n in cfg.nodes_of_kind('iter'):
            if any(binder_pred(ast.Name(id=t, ctx=ast.Load())) for t in names_in(n.ast.target)):
                for (b, l) in n.succ:
                    if l == 'loop':
                        start = b
    for k in kinds:
        skip = infeasible_edges(cfg, binder_pred, k if k != 'other' else 'const')
        if cfg.can_reach(start, cfg.exit, skip_edges=skip):
            adm.add(k)
    return adm


def rule_k3(repo):
    res = RuleResult('C01.K3', 'kinds of term admitted as the bound variable are kinds the hypothesis side condition can see', floor=4)
    occurs = None
    for fn in ('Thm.abstraction', 'Thm.forall_intr'):
        func = repo.func(THM, fn)
        cfg = cfg_of(func.node)
        params = func.params()
        need(len(params) == 2, '%s: expected (binder, theorem) parameters' % fn)
        x, th = params
        rets = thm_returns(func)
        need(rets, '%s: no return Thm' % fn)
        # --- the side condition guard: any(hyp.<f>(x) for hyp in th.hyps) with raise on true, or the same as a loop
        from ..idioms import forall_not_edges

        def elem_test(e, v, x=x):
            if isinstance(e, ast.Call) and isinstance(e.func, ast.Attribute) and is_name(e.func.value, v) and len(e.args) == 1 and is_name(e.args[0], x):
                return e.func.attr
            return None
        edges, infos = forall_not_edges(cfg, lambda it, th=th: path_of(it) == th + '.hyps', elem_test)
        guard_nodes = list(edges)
        side_fn = infos[0] if infos else None
        unguarded = [r.lineno for r, _c in rets if cfg.path_avoiding(cfg.node_for(r), skip_edges=edges) is not None]
        res.add('%s :: %s :: side-condition-guard' % (THM, fn), guard_nodes and not unguarded,
                'any(hyp.%s(%s) for hyp in %s.hyps) is false on every path to the result' % (side_fn, x, th)
                if guard_nodes and not unguarded else
                'result reachable without testing that %s is not free in every hypothesis of %s' % (x, th),
                func.loc)
        # --- admitted kinds: rule's own guard, then the constructors it passes x to
        binder = lambda e, x=x: is_name(e, x)
        adm = _admitted_kinds(repo, func, binder)
        chain = [fn + ('' if adm is None else '=%s' % sorted(adm))]
        total = {'var', 'svar', 'other'} if adm is None else set(adm)
        # constructors reached with x as first argument (Lambda / Forall, transitively Lambda)
        todo = []
        for c in ast.walk(func.node):
            if isinstance(c, ast.Call) and c.args and is_name(c.args[0], x) and isinstance(c.func, ast.Name):
                t = repo.resolve_call(func, c)
                todo.extend(t)
        seen = set()
        while todo:
            f2 = todo.pop()
            if id(f2) in seen or f2.module.rel != TERM:
                continue
            seen.add(id(f2))
            # binder inside a vararg constructor: loop variable over args[:-1]
            loopvars = set()
            for n in ast.walk(f2.node):
                if isinstance(n, ast.For) and isinstance(n.target, ast.Name):
                    loopvars.add(n.target.id)
            bp = lambda e, lv=loopvars: isinstance(e, ast.Name) and e.id in lv
            a2 = _admitted_kinds(repo, f2, bp, start_in_loop=True)
            if a2 is not None:
                total &= a2
                chain.append('%s=%s' % (f2.qualname, sorted(a2)))
            for c in ast.walk(f2.node):
                if isinstance(c, ast.Call) and c.args and isinstance(c.args[0], ast.Name) and \
                        c.args[0].id in loopvars and isinstance(c.func, ast.Name):
                    todo.extend(repo.resolve_call(f2, c))
        # --- blind kinds of the side condition function
        need(side_fn is not None or True, '')
        blind = None
        if side_fn:
            occurs = repo.func(TERM, 'Term.' + side_fn)
            blind = blind_kinds(occurs)
            bad = sorted((total - {'other'}) & blind)
            res.add('%s :: %s :: binder-kind' % (THM, fn), not bad,
                    'admitted %s, Term.%s blind for %s (%s)' % (sorted(total), side_fn, sorted(blind), ' & '.join(chain)),
                    func.loc)
            if 'other' in total:
                res.add('%s :: %s :: binder-is-variable' % (THM, fn), False,
                        'a term that is neither Var nor SVar is admitted as bound variable (%s)' % ' & '.join(chain), func.loc)
            else:
                res.add('%s :: %s :: binder-is-variable' % (THM, fn), True, 'only variables admitted (%s)' % ' & '.join(chain), func.loc)
        else:
            res.add('%s :: %s :: binder-kind' % (THM, fn), False, 'no side-condition function found', func.loc)
    # --- K3b traversal completeness of the side-condition function
    if occurs is not None:
        cfg = cfg_of(occurs.node)
        selfp = lambda e: is_name(e, 'self')
        for kind, fields in (('comb', ('fun', 'arg')), ('abs', ('body',))):
            skip = infeasible_edges(cfg, selfp, kind)
            reach = cfg.reach_from(cfg.entry, skip_edges=skip)
            visited = set()
            conj = False
            for r in cfg.return_nodes():
                if r.id not in reach or r.ast.value is None:
                    continue
                for c in ast.walk(r.ast.value):
                    if isinstance(c, ast.Call) and isinstance(c.func, ast.Attribute) and c.func.attr == occurs.name \
                            and isinstance(c.func.value, ast.Attribute) and is_name(c.func.value.value, 'self'):
                        visited.add(c.func.value.attr)
                for b in ast.walk(r.ast.value):
                    if isinstance(b, ast.BoolOp) and isinstance(b.op, ast.And):
                        conj = True
            # a disjunct spelled out: `if self.fun.occurs_var(t): return True`
            for tn in cfg.test_nodes():
                if tn.id not in reach:
                    continue
                c = tn.ast
                if isinstance(c, ast.Call) and isinstance(c.func, ast.Attribute) and c.func.attr == occurs.name \
                        and isinstance(c.func.value, ast.Attribute) and is_name(c.func.value.value, 'self'):
                    yes = [b for b, l in tn.succ if l == 'true']
                    if yes and all(isinstance(b.ast, ast.Return) and isinstance(b.ast.value, ast.Constant) and b.ast.value.value is True for b in yes):
                        visited.add(c.func.value.attr)
            miss = [f for f in fields if f not in visited]
            res.add('%s :: %s :: traverses(%s)' % (TERM, occurs.qualname, kind), not miss and not conj,
                    'recurses into %s' % ','.join(fields) if not miss and not conj else
                    ('does not recurse into %s' % ','.join(miss) if miss else 'sub-results combined with `and`'),
                    occurs.loc)
    return res


def blind_kinds(func):
    """Term kinds of `self` for which every reachable return of `func` is the constant False."""
    cfg = cfg_of(func.node)
    selfp = lambda e: is_name(e, 'self')
    blind = set()
    for k in ('var', 'svar'):
        skip = infeasible_edges(cfg, selfp, k)
        reach = cfg.reach_from(cfg.entry, skip_edges=skip)
        rets = [r for r in cfg.return_nodes() if r.id in reach]
        if rets and all(isinstance(r.ast.value, ast.Constant) and r.ast.value.value is False for r in rets):
            blind.add(k)
    return blind


# ---------------------------------------------------------------------- K4
def rule_k4(repo):
    res = RuleResult('C01.K4', 'every accepted step passes the type check of its sequent', floor=2)
    func = check_item_func(repo)
    cfg = cfg_of(func.node)
    seq = func.params()[2]
    checks = []
    for n in cfg.nodes:
        for h in cfg.headers(n):
            for c in ast.walk(h):
                if isinstance(c, ast.Call) and call_attr(c) == 'check_thm_type' and \
                        path_of(c.func.value) == seq + '.th':
                    checks.append(n)
    # the handler of its TypeCheckException must not complete normally
    handlers_ok = True
    for cn in checks:
        for (b, l) in cn.succ:
            if l == 'exc' and cfg.can_reach(b, cfg.exit):
                handlers_ok = False
    sources = []
    for n in cfg.nodes:
        if n.kind == 'stmt' and isinstance(n.ast, ast.Assign) and \
                any(path_of(t) == seq + '.th' for t in n.ast.targets):
            sources.append(('assign', n))
        if n.kind == 'test' and any(call_attr(c) == 'can_prove' for c in ast.walk(n.ast) if isinstance(c, ast.Call)):
            sources.append(('can_prove', n))
    need(sources, '_check_proof_item: neither `seq.th = ...` nor a can_prove test found')
    for what, n in sources:
        # every path from this node to normal exit passes a check node (taking its non-exceptional edge)
        skip_edges = set()
        reach = cfg.reach_from(n, skip_nodes=checks)
        ok = bool(checks) and cfg.exit.id not in reach and handlers_ok
        res.add('%s :: Theory._check_proof_item :: typecheck-after(%s@%s)' % (THEORY, what, src(n.ast, 40)), ok,
                'post-dominated by %s.th.check_thm_type() with a raising handler' % seq if ok else
                'normal exit reachable from `%s` without %s.th.check_thm_type() (or its failure is swallowed)' % (src(n.ast, 60), seq),
                '%s:%d' % (THEORY, n.lineno))
    # Thm.check_thm_type itself: all hyps and prop are checked against BoolType
    f2 = repo.func(THM, 'Thm.check_thm_type')
    body = f2.node
    it_ok = False
    for n in ast.walk(body):
        if isinstance(n, ast.For):
            names = {path_of(x) for x in ast.walk(n.iter) if isinstance(x, ast.Attribute)}
            if 'self.hyps' in names and 'self.prop' in names:
                tests = [c for c in ast.walk(n) if isinstance(c, ast.Compare)]
                for t in tests:
                    cp = compare_parts(t)
                    if cp and cp[0] is ast.NotEq and any(call_attr(c) == 'checked_get_type' for c in ast.walk(t) if isinstance(c, ast.Call)) \
                            and 'BoolType' in names_in(t):
                        it_ok = True
    res.add('%s :: Thm.check_thm_type :: covers-hyps-and-prop' % THM, it_ok,
            'checked_get_type() != BoolType raises for every hypothesis and the proposition' if it_ok else
            'check_thm_type no longer checks every hypothesis and the proposition against BoolType', f2.loc)
    return res


# ---------------------------------------------------------------------- K5
def rule_k5(repo):
    res = RuleResult('C01.K5', 'primitive_deriv rows name static Thm rules and their argument tags agree with the signatures', floor=15)
    rows = primitive_table(repo)
    for name, (fn, tag, row) in sorted(rows.items()):
        ok = True
        why = []
        if fn != 'Thm.' + name:
            ok = False
            why.append('row %r dispatches to %s' % (name, fn))
        func = repo.opt_func(THM, fn) if fn else None
        if func is None:
            res.add('%s :: primitive_deriv[%s]' % (THM, name), False, 'function %s not found' % fn, '%s:%d' % (THM, row.lineno))
            continue
        if 'staticmethod' not in func.decorators():
            ok = False
            why.append('not a @staticmethod')
        ths = theorem_params(func)
        params = func.params()
        first_nonthm = bool(params) and params[0] not in ths
        if (tag is not None) != first_nonthm:
            ok = False
            why.append('tag %s but first parameter %s' % (tag, 'is an argument' if first_nonthm else 'is a theorem'))
        if any(p not in ths for p in params[1 if first_nonthm else 0:]):
            ok = False
            why.append('non-theorem parameter after the first')
        res.add('%s :: primitive_deriv[%s]' % (THM, name), ok, '; '.join(why) or 'Thm.%s, tag %s' % (name, tag),
                '%s:%d' % (THM, row.lineno), nontrivial=False)
    return res


# ---------------------------------------------------------------------- K6 / K7
def rule_k6(repo):
    res = RuleResult('C01.K6', 'the derived sequent of a step comes only from the theory, a primitive rule, a macro, or a checked sub-proof', floor=6)
    func = check_item_func(repo)
    cfg = cfg_of(func.node)
    flow = flow_of(func.node)
    params = func.params()
    prf, seq = params[1], params[2]
    n_assign = 0
    # the sequent's name: the variable compared with / stored into seq.th at the end
    todo, seen_names = ['res_th'], set()
    while todo:
        name = todo.pop()
        if name in seen_names:
            continue
        seen_names.add(name)
        for n in cfg.nodes:
            if not (n.kind == 'stmt' and isinstance(n.ast, ast.Assign) and any(is_name(t, name) for t in n.ast.targets)):
                continue
            if isinstance(n.ast.value, ast.Name) and flow.is_local(n.ast.value.id) and n.ast.value.id != seq:
                todo.append(n.ast.value.id)       # `res_th = th`: judged where th is computed
                continue
            n_assign += 1
            values = [n.ast.value]
            if isinstance(n.ast.value, ast.IfExp):
                values = [n.ast.value.body, n.ast.value.orelse]
            kinds = []
            ok = True
            for v in values:
                k = _classify_source(repo, func, cfg, flow, n, v, seq)
                kinds.append(k or 'UNTRUSTED: ' + src(v))
                ok = ok and k is not None
            res.add('%s :: Theory._check_proof_item :: res_th <- %s' % (THEORY, src(n.ast.value, 60)), ok,
                    ', '.join(kinds), '%s:%d' % (THEORY, n.lineno))
    # trust gate for evaluated macros
    evals = [n for n in cfg.nodes if n.kind == 'stmt' and any(
        isinstance(c, ast.Call) and call_attr(c) == 'eval' for c in ast.walk(n.ast))]
    need(evals, '_check_proof_item: macro.eval call not found')
    for n in evals:
        def gate(expr, pol):
            for op, a, b in comparison_holding(expr, pol):
                if op is ast.LtE and (path_of(a) or '').endswith('.level') and path_of(b) == 'check_level':
                    return True
            return False

        def notnone(expr, pol):
            for op, a, b in comparison_holding(expr, pol):
                if op is ast.IsNot and (path_of(a) or '').endswith('.level') and isinstance(b, ast.Constant) and b.value is None:
                    return True
            return False
        e1 = cfg.establishing_edges(gate)
        e2 = cfg.establishing_edges(notnone)
        ok = cfg.path_avoiding(n, skip_edges=e1) is None and cfg.path_avoiding(n, skip_edges=e2) is None
        res.add('%s :: Theory._check_proof_item :: trust-gate(macro.eval)' % THEORY, ok,
                'macro.eval only when level is not None and level <= check_level' if ok else
                'macro.eval reachable without `level is not None and level <= check_level`',
                '%s:%d' % (THEORY, n.lineno))
    return res


def _from_cited(flow, expr, prf, seq, func=None):
    """expr is made of the step's argument and of what was read from the cited steps, nothing else"""
    roots = {r for r in flow.resolve(expr) if not r.startswith(('zip()', 'enumerate()', 'list()', 'tuple()', 'range()', 'len()'))}
    ok = (seq + '.args', seq + '.prevs', prf + '.find_item()')
    # the result of a function defined inside the checker (`[cited_th(p) for p in seq.prevs]`): what it returns, its own
    # parameters aside (the arguments are among the roots already)
    for r in sorted(roots):
        name = r.split('(')[0]
        if func is not None and r.startswith(name + '()') and name in func.nested:
            h = func.nested[name]
            hflow = flow_of(h.node)
            inner = set()
            for ret in ast.walk(h.node):
                if isinstance(ret, ast.Return) and ret.value is not None:
                    inner |= {x for x in hflow.resolve(ret.value) if path_base(x) not in h.params()}
            roots.discard(r)
            roots |= inner or {r}
    return bool(roots) and all(r.startswith(ok) for r in roots)


def _classify_source(repo, func, cfg, flow, node, v, seq):
    if isinstance(v, ast.Call):
        nm = call_name(v)
        if nm == 'self.get_theorem':
            return 'theory'
        if nm == 'Thm.mk_VAR':
            return 'variable declaration'
        if isinstance(v.func, ast.Name):
            # rule_fun destructured from primitive_deriv[seq.rule]
            defs = flow.defs.get(v.func.id, [])
            if defs and all(k == 'elem' and path_of(r) == 'primitive_deriv[*]' and
                            path_of(r.slice) == seq + '.rule' for k, r in defs):
                # arguments: only seq.args and the cited theorems
                for a in v.args:
                    if not _from_cited(flow, a.value if isinstance(a, ast.Starred) else a, func.params()[1], seq, func):
                        return None
                return 'primitive rule'
            return None
        if call_attr(v) == 'eval' and isinstance(v.func.value, ast.Name):
            defs = flow.defs.get(v.func.value.id, [])
            if defs and all(k == 'value' and isinstance(r, ast.Call) and call_name(r) == 'get_macro' and
                            [path_of(a) for a in r.args] == [seq + '.rule'] for k, r in defs):
                if len(v.args) == 2 and path_of(v.args[0]) == seq + '.args' and _from_cited(flow, v.args[1], func.params()[1], seq, func):
                    return 'macro evaluation'
            return None
        return None
    ap = path_of(v)
    if ap == seq + '.subproof.items[-1].th':
        # must be dominated by a check of every item of seq.subproof.items (inline loop or the block helper)
        from .checker_blocks import checks_block
        for b in checks_block(repo, cfg, seq + '.subproof.items', None):
            if cfg.dominates(b, node):
                return 'checked sub-proof'
        return None
    return None


def rule_k8(repo):
    """Term.subst extends inst.tyinst from the schematic variables of the term it is applied to.  A rule
    that applies it to several terms of one sequent must determine the type instantiation from all of
    them before it instantiates any, or hypotheses and proposition get different type instantiations."""
    res = RuleResult('C01.K8', 'the substitution rule fixes one type instantiation for the whole sequent before instantiating any of its terms', floor=1)
    func = repo.func(THM, 'Thm.substitution')
    cfg = cfg_of(func.node)
    inst, th = func.params()[:2]
    # does Term.subst still extend the instantiation it is given?
    subst = repo.func(TERM, 'Term.subst')
    sp = subst.params()[1]
    mutates = any(isinstance(c, ast.Call) and call_attr(c) == 'match_incr' and any((path_of(a) or '').startswith(sp + '.') for a in c.args)
                  for c in ast.walk(subst.node))
    uses = [n for n in cfg.nodes if n.kind == 'stmt' and any(
        isinstance(c, ast.Call) and call_attr(c) == 'subst' and c.args and is_name(c.args[0], inst) for c in ast.walk(n.ast)) and
        isinstance(n.ast, (ast.Assign, ast.Return))]
    need(uses, 'Thm.substitution: no call X.subst(%s) found' % inst)
    if not mutates:
        res.add('%s :: Thm.substitution :: one-type-instantiation' % THM, True,
                'Term.subst does not extend the instantiation it is given', func.loc, nontrivial=False)
        return res
    # a loop over hypotheses *and* proposition that matches types (or calls subst) before the first result
    prepasses = []
    k8flow = flow_of(func.node)
    matchers = {g.name for g in func.nested.values() if any(isinstance(c, ast.Call) and call_attr(c) == 'match_incr' for c in ast.walk(g.node))}
    for it in cfg.nodes_of_kind('iter'):
        paths = {path_of(x) for x in ast.walk(k8flow.inline(it.ast.iter)) if isinstance(x, ast.Attribute)}
        if th + '.hyps' in paths and th + '.prop' in paths and any(
                isinstance(c, ast.Call) and (call_attr(c) == 'match_incr' or (call_attr(c) == 'subst' and c.args and is_name(c.args[0], inst)) or
                                             (isinstance(c.func, ast.Name) and c.func.id in matchers))
                for s in it.ast.body for c in ast.walk(s)):
            prepasses.append(it)
    first = min(uses, key=lambda n: n.lineno)
    ok = bool(prepasses) and all(cfg.dominates(p, first) for p in prepasses[:1]) and \
        all(cfg.path_avoiding(u, skip_edges={(prepasses[0].id, 'done')}) is None for u in uses)
    res.add('%s :: Thm.substitution :: one-type-instantiation' % THM, ok,
            'the type instantiation is collected from hypotheses and proposition before any of them is instantiated' if ok else
            'hypotheses and proposition are instantiated one by one while Term.subst still extends %s.tyinst from each term: a '
            'hypothesis without the instantiated schematic variable keeps ?\'a while the proposition gets its instance' % inst, func.loc)
    return res


def rule_k9(repo):
    """subst_bound is the engine of beta_conv and forall_elim: its memo must distinguish binder depths."""
    from .c03 import rule_i5
    r = rule_i5(repo)
    res = RuleResult('C01.K9', 'memo tables of the substitution engine behind beta_conv / forall_elim are keyed by every parameter of the recursion', floor=1)
    for i in r.instances:
        if 'subst' in i.key:
            res.add(i.key, i.ok, i.detail, i.loc)
    return res


def rule_k10(repo):
    """Term.subst replaces a variable by the given term as it is, also under binders: it does not lift
    loose bound variables (subst_bound does).  A rule that hands a caller-supplied instantiation to it must
    therefore test every term of the instantiation for closedness, or a loose Bound is captured by the
    binders of the premise.  (get_type() is no such test: it does not look into argument positions.)"""
    res = RuleResult('C01.K10', 'the substitution rule puts only closed terms under the binders of the premise', floor=2)
    subst = repo.func(TERM, 'Term.subst')
    sp = subst.params()[1]
    # the tables of the instantiation whose entries are put into the term
    tables = set()
    for f in [subst] + list(subst.nested.values()):
        for r in ast.walk(f.node):
            if not (isinstance(r, ast.Return) and r.value is not None):
                continue
            # an entry handed back as the result: table[k], table.get(k, t), `table[k] if k in table else t`
            alts = [r.value.body, r.value.orelse] if isinstance(r.value, ast.IfExp) else [r.value]
            for v in alts:
                tb = v.value if isinstance(v, ast.Subscript) else (
                    v.func.value if isinstance(v, ast.Call) and call_attr(v) == 'get' and v.args else None)
                pth = (path_of(tb) or '') if tb is not None else ''
                if pth and (pth == sp or pth.startswith(sp + '.')):
                    tables.add(pth[len(sp):])          # '' for inst[..], '.var_inst' for inst.var_inst[..]
    need(tables, 'Term.subst: no table of the instantiation is read')
    lifts = any(isinstance(c, ast.Call) and call_attr(c) in ('lift', 'incr_boundvars', 'shift') for c in ast.walk(subst.node))
    func = repo.func(THM, 'Thm.substitution')
    cfg = cfg_of(func.node)
    kflow = flow_of(func.node)
    inst = func.params()[0]
    uses = [n for n in cfg.nodes if n.kind == 'stmt' and any(
        isinstance(c, ast.Call) and call_attr(c) == 'subst' and c.args and is_name(c.args[0], inst) for c in ast.walk(n.ast))]
    need(uses, 'Thm.substitution: no call X.subst(%s) found' % inst)
    for tb in sorted(tables):
        label = inst + tb
        if lifts:
            res.add('%s :: Thm.substitution :: closed(%s)' % (THM, label), True, 'Term.subst lifts loose bound variables itself', func.loc, nontrivial=False)
            continue
        # a test `t.is_open()` over the values of this table, whose true side cannot reach a use
        guards = []
        for t in cfg.test_nodes():
            e = t.ast
            # any(v.is_open() for v in <values>)  or  v.is_open() inside a loop over <values>
            subj_iter = None
            gnode = t
            if isinstance(e, ast.Call) and call_name(e) == 'any' and e.args and isinstance(e.args[0], (ast.GeneratorExp, ast.ListComp)) and \
                    any(isinstance(c, ast.Call) and call_attr(c) == 'is_open' for c in ast.walk(e.args[0].elt)):
                subj_iter = ' '.join(src(kflow.inline(g.iter), 300) for g in e.args[0].generators)
            elif isinstance(e, ast.Call) and call_attr(e) == 'is_open' and isinstance(e.func.value, ast.Name):
                for it in cfg.nodes_of_kind('iter'):
                    if e.func.value.id in {x.id for x in ast.walk(it.ast.target) if isinstance(x, ast.Name)} and \
                            it.ast.lineno <= t.lineno <= (it.ast.end_lineno or 0):
                        subj_iter = src(kflow.inline(it.ast.iter), 300)      # a local that names the list of values is read through
                        gnode = it          # the loop as a whole is what every path has to pass
            if subj_iter is None:
                continue
            covers = ('%s.values()' % label in subj_iter or '%s.items()' % label in subj_iter) and \
                (tb != '' or ('%s.values()' % inst) in subj_iter.replace('%s.var_inst.values()' % inst, '') or
                 ('%s.items()' % inst) in subj_iter.replace('%s.var_inst.items()' % inst, ''))
            if covers and not any(u.id in cfg.reach_from([b for b, l in t.succ if l == 'true']) for u in uses):
                guards.append(gnode)
        ok = bool(guards) and all(cfg.path_avoiding(u, skip_nodes=guards) is None for u in uses)
        res.add('%s :: Thm.substitution :: closed(%s)' % (THM, label), ok,
                'every entry is tested with is_open() before the instantiation is applied' if ok else
                'entries of `%s` are substituted under the binders of the premise without a closedness test: with ?x := h (Bound 0), '
                '|- !y. (%%w. ?x) a = ?x becomes |- !y. (%%w. h w) a = h y, which is false' % label, func.loc)
    return res


def rule_k11(repo):
    """The dispatch table gives, for each primitive rule, the class of its argument (None: the rule takes
    premises only).  The step checker calls `rule(args, *premises)` whenever args is not None, so whatever
    the proof supplies as args lands in the first parameter: for a rule without argument that parameter is
    a *premise*, and a theorem object written into the proof is used as if it had been derived.  The
    argument must therefore be tested against the table's class before the call."""
    res = RuleResult('C01.K11', 'the step checker tests the argument of a primitive step against the class given in the dispatch table before calling the rule', floor=1)
    f = check_item_func(repo)
    cfg = cfg_of(f.node)
    unp = [n for n in cfg.stmt_nodes(ast.Assign) if isinstance(n.ast.value, ast.Subscript) and is_name(n.ast.value.value, 'primitive_deriv') and
           isinstance(n.ast.targets[0], ast.Tuple) and len(n.ast.targets[0].elts) == 2]
    need(unp, '_check_proof_item: `rule, sig = primitive_deriv[..]` not found')
    fun_v, sig_v = [e.id if isinstance(e, ast.Name) else None for e in unp[0].ast.targets[0].elts]
    need(fun_v, '_check_proof_item: the rule function is not bound to a name')
    calls = [n for n in cfg.nodes if n.kind == 'stmt' and any(isinstance(c, ast.Call) and is_name(c.func, fun_v) for c in ast.walk(n.ast))]
    need(calls, '_check_proof_item: call of the primitive rule not found')
    seqp = f.params()[2]

    def fits(e, pol):
        # isinstance(seq.args, sig) true  /  seq.args is None true  /  seq.args is not None false
        if isinstance(e, ast.Call) and call_name(e) == 'isinstance' and len(e.args) == 2 and path_of(e.args[0]) == seqp + '.args' and \
                sig_v and is_name(e.args[1], sig_v):
            return pol
        cp = compare_parts(e)
        if cp and path_of(cp[1]) == seqp + '.args' and isinstance(cp[2], ast.Constant) and cp[2].value is None:
            if cp[0] is ast.Is:
                return pol
            if cp[0] is ast.IsNot:
                return not pol
        return False
    edges = cfg.establishing_edges(fits) if sig_v and not sig_v.startswith('_') else set()
    # the None case counts only together with a test that the table says None
    has_sig_none = any(compare_parts(t.ast) and is_name(compare_parts(t.ast)[1], sig_v or '') and isinstance(compare_parts(t.ast)[2], ast.Constant)
                       and compare_parts(t.ast)[2].value is None for t in cfg.test_nodes())
    has_isinst = any(isinstance(t.ast, ast.Call) and call_name(t.ast) == 'isinstance' and len(t.ast.args) == 2 and
                     path_of(t.ast.args[0]) == seqp + '.args' and is_name(t.ast.args[1], sig_v or '') for t in cfg.test_nodes())
    ok = bool(edges) and has_sig_none and has_isinst and all(cfg.path_avoiding(c, skip_edges=edges, start=unp[0]) is None for c in calls)
    res.add('%s :: Theory._check_proof_item :: argument-fits-signature' % THEORY, ok,
            'args is None for a rule without argument, an instance of the table\'s class otherwise' if ok else
            'the argument class of the dispatch table is not consulted before `%s(%s.args, *premises)`: for equal_elim, implies_elim, symmetric, '
            'transitive, combination, equal_intr a Thm given as args becomes the first premise - reflexive p, then equal_elim with '
            'args = Thm((p = p) = false) is a two-step proof of |- false' % (fun_v, seqp), f.loc)
    return res


def rule_k12(repo):
    """The closedness test of the substitution rule (K10) and the side condition of abstraction / forall_intr
    (K3) are structural recursions: they are worth what their traversal is worth."""
    from ..traverse import traversal_rule
    return traversal_rule(repo, 'C01.K12', 'the term predicates the primitive rules rely on look at every sub-term',
                          [(TERM, 'Term.is_open.<locals>.rec'), (TERM, 'Term.occurs_var')],
                          'the primitive rule that relies on this test accepts a term in which the offending variable sits in the position that is skipped')


def rule_k13(repo):
    """abstraction and forall_intr test their side condition with occurs_var, which distinguishes a variable
    from the schematic variable of the same name.  abstract_over, which then binds the variable, must make
    the same distinction: if abstracting over x also binds ?x, a ?x that is still free in a hypothesis is
    generalised (assume ?x, forall_intr x gives ?x |- !x. x)."""
    from ..kinds import infeasible_edges
    res = RuleResult('C01.K13', 'abstract_over binds only leaves of the same kind as the variable it abstracts over', floor=2)
    from ..normalize import conditional_expressions_as_branches, as_func
    from ..inline import inlined
    f = repo.func(TERM, 'Term.abstract_over')
    rec = need(f.nested.get('rec'), 'Term.abstract_over: nested rec not found')
    # `return Bound(n) if is_occurrence(s) else s`: the conditional as a branch, the local predicate read in place
    rec = as_func(rec, conditional_expressions_as_branches(rec.node))
    rec = inlined(rec, lambda h: h.parent is not None and h.name != 'rec')[0]
    cfg = cfg_of(rec.node)
    leaf, tvar = rec.params()[0], f.params()[1]
    binds = [r for r in cfg.return_nodes() if isinstance(r.ast.value, ast.Call) and call_name(r.ast.value) == 'Bound']
    need(binds, 'Term.abstract_over.rec: no `return Bound(n)`')

    def same_kind(e, pol):
        # <leaf>.ty == <variable>.ty holds on this side of the test
        for op, a, b in comparison_holding(e, pol):
            if op is ast.Eq and {path_of(a), path_of(b)} == {leaf + '.ty', tvar + '.ty'}:
                return True
        return False
    for k_leaf, k_t in (('svar', 'var'), ('var', 'svar')):
        skip = infeasible_edges(cfg, lambda e: is_name(e, leaf), k_leaf) | infeasible_edges(cfg, lambda e: is_name(e, tvar), k_t) | \
            cfg.establishing_edges(same_kind)          # the two kinds differ in the case considered
        reach = cfg.reach_from(cfg.entry, skip_edges=skip)
        hit = [r for r in binds if r.id in reach]
        res.add('%s :: Term.abstract_over :: leaf(%s) vs variable(%s)' % (TERM, k_leaf, k_t), not hit,
                'a leaf of kind %s is never bound when abstracting over a %s' % (k_leaf, k_t) if not hit else
                'when abstracting over a %s, a %s leaf of the same name reaches `return Bound(n)` (line %d): the side condition of '
                'abstraction / forall_intr (occurs_var) tells the two apart, the binding does not' % (k_t, k_leaf, hit[0].lineno), rec.loc)
    return res


def rule_k14(repo):
    """beta_conv and forall_elim are as sound as subst_bound / incr_boundvars: the binder counting of C03.I7."""
    from .c03 import rule_i7
    r = rule_i7(repo)
    res = RuleResult('C01.K14', 'the substitution engine behind beta_conv / forall_elim counts binders correctly', floor=4)
    for i in r.instances:
        if 'subst_bound' in i.key or 'incr_boundvars' in i.key or 'is_open' in i.key or 'abstract_over' in i.key:
            res.add(i.key, i.ok, i.detail, i.loc)
    return res


def rule_k15(repo):
    """A derivation is sound only if what a step cites was derived before it: the scoping predicate and the
    identifier-equals-position discipline of the checker (C02.P10, C02.P11) are part of the kernel's argument."""
    from .c02 import rule_p10, rule_p11
    res = RuleResult('C01.K15', 'a step can only cite lines that were checked before it: scoping predicate and position discipline', floor=2)
    for r in (rule_p10(repo), rule_p11(repo)):
        for i in r.instances:
            res.add(i.key, i.ok, i.detail, i.loc)
    return res


def rule_k16(repo):
    """A[s] |- B[s]: the two instantiation rules apply to every hypothesis the same operation, with the same
    argument, as to the conclusion - unconditionally.  Skipping the operation for hypotheses that "have nothing to
    instantiate" relies on a helper to decide that (get_stvars does not look into the types of schematic variables),
    and hypothesis and conclusion then speak about different variables."""
    res = RuleResult('C01.K16', 'an instantiation rule applies to every hypothesis exactly the operation it applies to the conclusion', floor=2)
    for fn in ('subst_type', 'substitution'):
        func = _nfunc(repo, 'Thm.' + fn)
        flow = flow_of(func.node)
        th = theorem_params(func)
        need(len(th) == 1, 'Thm.%s: one theorem premise expected' % fn)
        rets = thm_returns(func)
        need(rets, 'Thm.%s has no `return Thm(...)`' % fn)
        problems = []
        for r, call in rets:
            if len(call.args) < 2:
                problems.append('line %d: the result has no hypotheses' % r.lineno)
                continue

            def value_of(e):
                if isinstance(e, ast.Name) and flow.is_local(e.id) and len(flow.defs.get(e.id, [])) == 1:
                    return flow.defs[e.id][0][1]
                return e
            prop, hyps = value_of(call.args[0]), value_of(call.args[1])
            # the whole sequent mapped at once and taken apart again: every term goes through the same call by construction
            from ..seqshape import describe, element
            dh, ep = describe(flow, call.args[1]), element(flow, call.args[0])
            if dh is not None and ep is not None and len(dh) == 1 and dh[0][0] == 'all' and dh[0][1] == th[0] + '.hyps' and \
                    src(ep[0], 40) == th[0] + '.prop' and dh[0][2] and [src(m[1], 80) for m in dh[0][2]] == [src(m[1], 80) for m in ep[1]]:
                continue
            if not (isinstance(prop, ast.Call) and isinstance(prop.func, ast.Attribute) and src(prop.func.value, 40) == th[0] + '.prop'):
                problems.append('line %d: the conclusion is not `%s.prop.<op>(..)`' % (r.lineno, th[0]))
                continue
            op, opargs = prop.func.attr, [src(a, 60) for a in prop.args]
            gen = hyps.args[0] if isinstance(hyps, ast.Call) and call_name(hyps) in ('tuple', 'list') and hyps.args else hyps
            gen = value_of(gen)             # tuple(hyps) with hyps = [.. for hyp in th.hyps]
            if not (isinstance(gen, (ast.GeneratorExp, ast.ListComp)) and len(gen.generators) == 1 and
                    src(gen.generators[0].iter, 40) == th[0] + '.hyps' and isinstance(gen.generators[0].target, ast.Name)):
                problems.append('line %d: the hypotheses are not built by one pass over `%s.hyps`' % (r.lineno, th[0]))
                continue
            hv = gen.generators[0].target.id
            if gen.generators[0].ifs:
                problems.append('line %d: hypotheses are filtered (`if %s`)' % (r.lineno, src(gen.generators[0].ifs[0], 40)))
            e = gen.elt
            same = isinstance(e, ast.Call) and isinstance(e.func, ast.Attribute) and is_name(e.func.value, hv) and e.func.attr == op and \
                [src(a, 60) for a in e.args] == opargs
            if not same:
                problems.append('line %d: each hypothesis becomes `%s`, the conclusion `%s`' % (r.lineno, src(e, 60), src(prop, 50)))
        res.add('%s :: Thm.%s :: same-operation-on-hypotheses' % (THM, fn), not problems,
                'every hypothesis and the conclusion go through the same call' if not problems else
                '; '.join(problems) + ' -- a hypothesis that keeps its schematic (type) variables no longer mentions the variables of the conclusion, '
                'and the side condition of forall_intr / abstraction does not see them', func.loc)
    return res


def rule_k17(repo):
    """A primitive rule reads the two sides of a premise by position (`x, y = th.prop.args`).  Positions mean the sides of
    an equation (the parts of an implication, the body of a quantifier) only for a proposition with that head: every
    path to such a read passes a head test *of the proposition that is read* - `th.prop.is_equals()`, or a predicate of
    Thm that is defined as that test of `self.prop`.  A predicate that looks at something else (the conclusion behind
    the implications) lets A --> (s = t) through, whose two arguments are A and s = t."""
    res = RuleResult('C01.K17', 'a primitive rule takes the proposition of a premise apart only after a head test of that proposition', floor=9)
    rows = primitive_table(repo)
    thm = repo.cls(THM, 'Thm')
    POS = ('args', 'arg', 'arg1', 'fun', 'lhs', 'rhs', 'body')

    def about_prop(meth):
        """the predicate of Thm is a test of self.prop: every attribute path from self in what it returns starts with self.prop"""
        f = thm.methods.get(meth)
        if f is None:
            return None
        rets = [r for r in ast.walk(f.node) if isinstance(r, ast.Return) and r.value is not None]
        if not rets:
            return None
        for r in rets:
            for a in ast.walk(r.value):
                if isinstance(a, ast.Attribute) and is_name(a.value, 'self') and a.attr != 'prop':
                    return False
        return True
    for name, (fn, tag, _row) in sorted(rows.items()):
        func = repo.func(THM, fn)
        cfg = cfg_of(func.node)
        kflow = flow_of(func.node)

        def denotes_prop(e, p):
            # `th.prop`, or a local that was given that value once (eq1 = th1.prop)
            return path_of(e) == p + '.prop' or path_of(kflow.inline(e)) == p + '.prop'
        for p in theorem_params(func):
            sites = [n for n in cfg.nodes if n.ast is not None and n.kind in ('stmt', 'test', 'return') and any(
                isinstance(a, ast.Attribute) and a.attr in POS and denotes_prop(a.value, p)
                for h in cfg.headers(n) for a in ast.walk(h))]
            if not sites:
                continue
            wrong = []

            def head(e, pol, p=p):
                if not pol or not isinstance(e, ast.Call) or not isinstance(e.func, ast.Attribute) or not e.func.attr.startswith('is_') or e.args:
                    return False
                if denotes_prop(e.func.value, p):
                    return True
                if is_name(e.func.value, p):
                    ok = about_prop(e.func.attr)
                    if ok is False and e.func.attr not in wrong:
                        wrong.append(e.func.attr)
                    return bool(ok)
                return False
            edges = cfg.establishing_edges(head)
            bad = [s_ for s_ in sites if cfg.path_avoiding(s_, skip_edges=edges) is not None]
            res.add('%s :: %s :: head-test-of(%s.prop)' % (THM, fn, p), not bad,
                    'every positional read of %s.prop follows a head test of it' % p if not bad else
                    'line %d reads `%s.prop` by position without a head test of that proposition%s: an implication A --> (s = t) has two arguments '
                    'as well, and symmetric / equal_elim then give |- A from nothing' % (
                        bad[0].lineno, p, ('; the test `%s.%s()` is about something else than self.prop' % (p, wrong[0])) if wrong else ''),
                    '%s:%d' % (THM, bad[0].lineno if bad else sites[0].lineno))
    return res

def rule_k18(repo, rid='C01.K18'):
    """The post-step type check (K4) is what keeps ill-formed terms out of accepted sequents.  It finds the type of a bound
    variable by position in the list of enclosing binders: `bd_vars[t.n]`.  Python reads a negative position from the *end*
    of the list, so the index must be refused when it is negative as well as when it is too large - otherwise Bound(-1)
    under two binders has a type (that of the outermost binder), the term counts as closed, and a step about it is
    accepted.  Every such look-up in the type-computing functions of kernel/term.py is behind both bounds."""
    from ..astutil import comparison_holding
    res = RuleResult(rid, 'the type of a bound variable is looked up only for an index that is neither negative nor too large', floor=1)
    m = repo.module(TERM)
    for f in m.all_funcs:
        top = f
        while top.parent is not None:
            top = top.parent
        # the type-computing functions: get_type, checked_get_type and what they were split into (a helper with `type` in its name)
        if 'type' not in top.name.lower():
            continue
        subs = [n for n in ast.walk(f.node) if isinstance(n, ast.Subscript) and isinstance(n.ctx, ast.Load) and isinstance(n.slice, ast.Attribute) and
                n.slice.attr == 'n' and isinstance(n.value, ast.Name)]
        own = {id(x) for g in f.nested.values() for x in ast.walk(g.node)} if getattr(f, 'nested', None) else set()
        subs = [n for n in subs if id(n) not in own]
        if not subs:
            continue
        cfg = cfg_of(f.node)
        for sub in subs:
            idx = src(sub.slice)

            def nonneg(e, pol, idx=idx):
                for op, a, b in comparison_holding(e, pol):
                    if src(a) == idx and isinstance(b, ast.Constant) and ((op is ast.GtE and b.value == 0) or (op is ast.Gt and b.value == -1)):
                        return True
                return False

            def small(e, pol, idx=idx, lst=sub.value.id):
                for op, a, b in comparison_holding(e, pol):
                    if src(a) == idx and op is ast.Lt and isinstance(b, ast.Call) and is_name(b.func, 'len') and b.args and is_name(b.args[0], lst):
                        return True
                return False
            n = cfg.node_for(sub)
            e1, e2 = cfg.establishing_edges(nonneg), cfg.establishing_edges(small)
            ok1 = bool(e1) and n is not None and cfg.path_avoiding(n, skip_edges=e1) is None
            ok2 = bool(e2) and n is not None and cfg.path_avoiding(n, skip_edges=e2) is None
            res.add('%s :: %s :: lookup(%s[%s])' % (TERM, f.qualname, sub.value.id, idx), ok1 and ok2,
                    'behind %s >= 0 and %s < len(%s)' % (idx, idx, sub.value.id) if ok1 and ok2 else
                    'line %d reads `%s` %s: Python counts a negative index from the end, so %%x. %%y. Bound(-1) gets the type of x, is not "open", '
                    'and the checker accepts a step about it' % (sub.lineno, src(sub), 'without a test that the index is not negative' if not ok1 else
                                                                 'without a test that the index is below the number of binders'), '%s:%d' % (TERM, sub.lineno))
    return res

def rule_k19(repo):
    """The checker compares what a rule derived with what the line states through `Thm.can_prove` (C02.P3).  For this property: the derived
    hypotheses have to be *among* the stated ones - a test by counting is equivalent only for lists without repetition, and a stated
    sequent with a repeated hypothesis then hides a hypothesis of the derived one: |- false in five steps."""
    from .c02 import rule_p3
    r = rule_p3(repo)
    res = RuleResult('C01.K19', 'a stated sequent is accepted for a derived one only if the derived hypotheses are among the stated ones', floor=1)
    for i in r.instances:
        if 'can_prove' in i.key:
            res.add(i.key, i.ok, i.detail, i.loc)
    return res


def rules(repo):
    return [rule_k1(repo), rule_k2(repo), rule_k3(repo), rule_k4(repo), rule_k5(repo), rule_k6(repo),
            rule_k8(repo), rule_k9(repo), rule_k10(repo), rule_k11(repo), rule_k12(repo), rule_k13(repo), rule_k14(repo), rule_k15(repo), rule_k16(repo),
            rule_k17(repo), rule_k18(repo), rule_k19(repo)]
