"""C02 - the proof checker accepts only well-founded, gap-free, fully justified proofs (structural clauses)."""
import ast

from ..core import RuleResult, need
from ..cfg import cfg_of, desugar_bool_returns
from .checker_blocks import check_item_func, extend_func
from ..flow import flow_of, path_base, denotes
from ..astutil import (src, call_attr, call_name, compare_parts, names_in, is_name, path_of, returns_of)

THM = 'kernel/thm.py'
THEORY = 'kernel/theory.py'
PROOFTERM = 'kernel/proofterm.py'
EXTENSION = 'kernel/extension.py'

NOT_DECIDED = ('exploration of proof shapes and identifier patterns (runtime); exact contents of ProofReport; '
               'that macro expansions themselves are well-formed proofs (C04)')
ASSUMPTIONS = ['ItemID.can_depend_on implements "strictly earlier in the same or an enclosing block" (read, 6 lines)',
               'Proof.find_item(id) returns the item at position id (read)']


def _succ(node, label):
    return [b for (b, l) in node.succ if l == label]


def _calls_in_node(cfg, n):
    res = []
    for h in cfg.headers(n):
        for c in ast.walk(h):
            if isinstance(c, ast.Call):
                res.append(c)
    return res


def _nodes_calling(cfg, pred):
    return [n for n in cfg.nodes if any(pred(c) for c in _calls_in_node(cfg, n))]


def rule_p1(repo):
    res = RuleResult('C02.P1', 'a cited step is read only after the identifier test and a position guard for the citing step', floor=2)
    func = check_item_func(repo)
    cfg = cfg_of(func.node)
    flow = flow_of(func.node)
    params = func.params()
    prf, seq = params[1], params[2]
    reads = []
    for n in cfg.nodes:
        for c in _calls_in_node(cfg, n):
            if call_attr(c) == 'find_item' and path_of(c.func.value) == prf and c.args:
                roots = flow.resolve(c.args[0])
                if any(r.startswith(seq + '.prevs') for r in roots):
                    reads.append((n, c))
    # the read may sit in a nested helper that is called with the cited identifier: it is judged in the helper (identifier
    # test) and at the helper's call sites (position guard)
    helper_reads = []
    for g in func.nested.values():
        gps = g.params()
        gcfg, gflow = cfg_of(g.node), flow_of(g.node)
        for n in gcfg.nodes:
            for c in _calls_in_node(gcfg, n):
                if call_attr(c) == 'find_item' and path_of(c.func.value) == prf and c.args and any(path_base(r) in gps for r in gflow.resolve(c.args[0])):
                    pidx = [gps.index(path_base(r)) for r in gflow.resolve(c.args[0]) if path_base(r) in gps][0]
                    sites = []
                    for m in cfg.nodes:
                        for c2 in _calls_in_node(cfg, m):
                            if is_name(c2.func, g.name) and len(c2.args) > pidx and any(r.startswith(seq + '.prevs') for r in flow.resolve(c2.args[pidx])):
                                sites.append(m)
                    if sites:
                        helper_reads.append((g, gcfg, gflow, gps[pidx], n, c, sites))
    need(reads or helper_reads, '_check_proof_item: no read of a cited item (prf.find_item(prev)) found')

    def dep_pred(expr, pol):
        return pol and isinstance(expr, ast.Call) and call_attr(expr) == 'can_depend_on' and \
            path_of(expr.func.value) == seq + '.id' and expr.args and \
            any(r.startswith(seq + '.prevs') for r in flow.resolve(expr.args[0]))

    def pos_pred(expr, pol):
        cp = compare_parts(expr)
        if not cp:
            return False
        op, a, b = cp
        for x, y in ((a, b), (b, a)):
            if is_name(y, seq):
                roots = flow.resolve(x)
                if any(r.startswith(prf + '.find_item()') for r in roots) and (seq + '.id') in roots:
                    if op in (ast.Is, ast.Eq) and pol:
                        return True
                    if op in (ast.IsNot, ast.NotEq) and not pol:
                        return True
        return False
    dep_edges = cfg.establishing_edges(dep_pred)
    pos_edges = cfg.establishing_edges(pos_pred)
    for g, gcfg, gflow, gp, n, c, sites in helper_reads:
        def gdep(expr, pol, gflow=gflow, gp=gp):
            return pol and isinstance(expr, ast.Call) and call_attr(expr) == 'can_depend_on' and path_of(expr.func.value) == seq + '.id' and \
                expr.args and any(path_base(r) == gp for r in gflow.resolve(expr.args[0]))
        ok1 = gcfg.path_avoiding(n, skip_edges=gcfg.establishing_edges(gdep)) is None
        res.add('%s :: Theory._check_proof_item :: cited-read :: identifier-test' % THEORY, ok1,
                '%s.id.can_depend_on(prev) holds on every path to the read (in the helper %s)' % (seq, g.name) if ok1 else
                '%s reachable without %s.id.can_depend_on(prev)' % (src(c), seq), '%s:%d' % (THEORY, n.lineno))
        ok2 = all(cfg.path_avoiding(m, skip_edges=pos_edges) is None for m in sites)
        res.add('%s :: Theory._check_proof_item :: cited-read :: position-guard' % THEORY, ok2,
                'the citing step is the item stored at its own identifier on every path to the read' if ok2 else
                'no test that %s.find_item(%s.id) is %s: a step whose identifier disagrees with its position can cite '
                'itself or a later step' % (prf, seq, seq), '%s:%d' % (THEORY, n.lineno))
    for n, c in reads:
        ok1 = cfg.path_avoiding(n, skip_edges=dep_edges) is None
        res.add('%s :: Theory._check_proof_item :: cited-read :: identifier-test' % THEORY, ok1,
                '%s.id.can_depend_on(prev) holds on every path to the read' % seq if ok1 else
                '%s reachable without %s.id.can_depend_on(prev)' % (src(c), seq), '%s:%d' % (THEORY, n.lineno))
        ok2 = cfg.path_avoiding(n, skip_edges=pos_edges) is None
        res.add('%s :: Theory._check_proof_item :: cited-read :: position-guard' % THEORY, ok2,
                'the citing step is the item stored at its own identifier on every path to the read' if ok2 else
                'no test that %s.find_item(%s.id) is %s: a step whose identifier disagrees with its position can cite '
                'itself or a later step' % (prf, seq, seq), '%s:%d' % (THEORY, n.lineno))
    # cited theorem must not be None
    none_tests = [n for n in cfg.test_nodes() if (lambda cp: cp and cp[0] in (ast.Is,) and isinstance(cp[2], ast.Constant)
                                                  and cp[2].value is None and 'prev_th' in ''.join(names_in(cp[1])))(compare_parts(n.ast))]
    ok = bool(none_tests) and all(not cfg.can_reach(s, cfg.exit, skip_nodes=[]) or True for s in none_tests)
    raising = all(all(_only_raises(cfg, b) for b in _succ(t, 'true')) for t in none_tests)
    if not none_tests:
        # the same test as the filter of a list of offenders that must be empty: bad = [p for p, th in zip(..) if th is None]; if bad: raise
        for a in ast.walk(func.node):
            if isinstance(a, ast.Assign) and len(a.targets) == 1 and isinstance(a.targets[0], ast.Name) and isinstance(a.value, (ast.ListComp, ast.GeneratorExp)) and \
                    any((lambda cp: cp and cp[0] is ast.Is and isinstance(cp[2], ast.Constant) and cp[2].value is None and
                         'prev_th' in ''.join(names_in(cp[1])))(compare_parts(c_)) for g_ in a.value.generators for c_ in g_.ifs):
                offenders = a.targets[0].id
                none_tests = [n for n in cfg.test_nodes() if is_name(n.ast, offenders)]
                raising = bool(none_tests) and all(all(_only_raises(cfg, b) for b in _succ(t, 'true')) for t in none_tests)
    res.add('%s :: Theory._check_proof_item :: cited-theorem-not-None' % THEORY, bool(none_tests) and raising,
            'a cited step without theorem is rejected' if none_tests and raising else
            'no rejection of cited steps whose theorem is None', func.loc)
    return res


def _only_raises(cfg, node):
    return not cfg.can_reach(node, cfg.exit)


def rule_p2(repo):
    res = RuleResult('C02.P2', 'gaps are refused when disallowed, reported when allowed, and the flag reaches every nested check', floor=5)
    func = check_item_func(repo)
    cfg = cfg_of(func.node)
    params = func.params()
    seq = params[2]
    need('no_gaps' in params and 'rpt' in params, '_check_proof_item: parameters no_gaps / rpt not found')
    sorry_tests = [n for n in cfg.test_nodes() if (lambda cp: cp and cp[0] is ast.Eq and path_of(cp[1]) == seq + '.rule'
                                                   and isinstance(cp[2], ast.Constant) and cp[2].value == 'sorry')(compare_parts(n.ast))]
    need(sorry_tests, '_check_proof_item: test `%s.rule == "sorry"` not found' % seq)
    ng_tests = [n for n in cfg.test_nodes() if is_name(n.ast, 'no_gaps')]
    for st in sorry_tests:
        starts = _succ(st, 'true')
        ok = bool(ng_tests) and all(cfg.exit.id not in cfg.reach_from(s, skip_edges={(t.id, 'false') for t in ng_tests}) for s in starts) \
            and all(all(_only_raises(cfg, b) for b in _succ(t, 'true')) for t in ng_tests if any(cfg.can_reach(s, t) for s in starts))
        res.add('%s :: Theory._check_proof_item :: sorry :: refused-when-no_gaps' % THEORY, ok,
                'every normal completion of a sorry step passes `no_gaps` false; true raises' if ok else
                'a sorry step can complete normally although no_gaps is set', '%s:%d' % (THEORY, st.lineno))
        gap_nodes = _nodes_calling(cfg, lambda c: call_attr(c) == 'add_gap' and path_of(c.func.value) == 'rpt'
                                   and [path_of(a) for a in c.args] == [seq + '.th'])
        rpt_tests = [n for n in cfg.test_nodes() if (lambda cp: cp and cp[0] is ast.IsNot and is_name(cp[1], 'rpt'))(compare_parts(n.ast))]
        ok = bool(gap_nodes) and all(cfg.exit.id not in cfg.reach_from(
            s, skip_nodes=gap_nodes, skip_edges={(t.id, 'false') for t in rpt_tests}) for s in starts)
        res.add('%s :: Theory._check_proof_item :: sorry :: reported' % THEORY, ok,
                'rpt.add_gap(%s.th) on every normal completion with a report' % seq if ok else
                'a sorry step can complete without rpt.add_gap(%s.th)' % seq, '%s:%d' % (THEORY, st.lineno))
        # the sorry test is evaluated before any rule is applied: it dominates all res_th assignments
        assigns = [n for n in cfg.nodes if n.kind == 'stmt' and isinstance(n.ast, ast.Assign) and any(is_name(t, 'res_th') for t in n.ast.targets)]
        ok = all(cfg.path_avoiding(a, skip_edges={(st.id, 'false')}) is None for a in assigns)
        res.add('%s :: Theory._check_proof_item :: sorry :: decided-first' % THEORY, ok,
                'no derivation is attempted for a step before it is known not to be a sorry' if ok else
                'a derivation is reachable without the sorry test', '%s:%d' % (THEORY, st.lineno), nontrivial=False)
    # forwarding: every call that hands items on to the step checker (directly or through the block helper) passes the
    # caller's report and flags unchanged
    th_cls = repo.cls(THEORY, 'Theory')
    n_calls = 0
    for caller in th_cls.methods.values():
        for c in ast.walk(caller.node):
            if not (isinstance(c, ast.Call) and call_name(c) in ('self._check_proof_item', 'self._check_proof_items')):
                continue
            callee = th_cls.methods.get(call_name(c).split('.')[1])
            if callee is None:
                continue
            cps = callee.params()[1:]
            n_calls += 1
            bad = []
            for p in ('rpt', 'no_gaps', 'compute_only', 'check_level'):
                if p not in cps:
                    bad.append('%s has no parameter %s' % (callee.name, p))
                    continue
                i = cps.index(p)
                got = c.args[i] if i < len(c.args) else next((k.value for k in c.keywords if k.arg == p), None)
                if not is_name(got, p):
                    bad.append('%s <- %s' % (p, src(got) if got is not None else 'missing'))
            if not is_name(c.args[0] if c.args else None, params[1]):
                bad.append('proof argument is %s' % (src(c.args[0]) if c.args else 'missing'))
            res.add('%s :: Theory.%s :: call(%s)@%s :: forwards-flags' % (THEORY, caller.name, callee.name, src(c.args[1], 30) if len(c.args) > 1 else '?'),
                    not bad, 'rpt, no_gaps, compute_only, check_level forwarded unchanged' if not bad else '; '.join(bad),
                    '%s:%d' % (THEORY, c.lineno))
    need(n_calls >= 1, '_check_proof_item: no recursive call found')
    # check_proof entry points forward their keyword
    cp = repo.func(THEORY, 'Theory.check_proof')
    for c in ast.walk(cp.node):
        if isinstance(c, ast.Call) and call_name(c) == 'self._check_proof_item':
            bad = []
            item_params = check_item_func(repo).params()[1:]
            for p in ('rpt', 'no_gaps', 'compute_only', 'check_level'):
                i = item_params.index(p)
                got = c.args[i] if i < len(c.args) else next((k.value for k in c.keywords if k.arg == p), None)
                if not is_name(got, p):
                    bad.append('%s <- %s' % (p, src(got) if got is not None else 'missing'))
            res.add('%s :: Theory.check_proof :: forwards-flags' % THEORY, not bad,
                    'flags forwarded' if not bad else '; '.join(bad), '%s:%d' % (THEORY, c.lineno))
    gcp = repo.func(THEORY, 'check_proof')
    for c in ast.walk(gcp.node):
        if isinstance(c, ast.Call) and call_attr(c) == 'check_proof':
            kws = {k.arg: k.value for k in c.keywords}
            bad = [p for p in ('no_gaps', 'compute_only', 'check_level') if not is_name(kws.get(p), p)]
            res.add('%s :: check_proof :: forwards-flags' % THEORY, not bad,
                    'flags forwarded' if not bad else 'not forwarded: %s' % bad, '%s:%d' % (THEORY, c.lineno))
    return res


def rule_p3(repo):
    res = RuleResult('C02.P3', 'a stated sequent is accepted only if the derived one proves it', floor=4)
    func = check_item_func(repo)
    cfg = cfg_of(func.node)
    seq = func.params()[2]
    assigns = [n for n in cfg.nodes if n.kind == 'stmt' and isinstance(n.ast, ast.Assign) and any(is_name(t, 'res_th') for t in n.ast.targets)]
    need(assigns, '_check_proof_item: no assignment to res_th')

    flow = flow_of(func.node)

    def canprove(expr, pol):
        return pol and isinstance(expr, ast.Call) and call_attr(expr) == 'can_prove' and \
            is_name(expr.func.value, 'res_th') and len(expr.args) == 1 and denotes(flow, expr.args[0], seq + '.th')

    def isnone(expr, pol):
        cp = compare_parts(expr)
        return bool(cp) and ((cp[0] is ast.Is and pol) or (cp[0] is ast.IsNot and not pol)) and denotes(flow, cp[1], seq + '.th') and \
            isinstance(cp[2], ast.Constant) and cp[2].value is None
    cp_edges = cfg.establishing_edges(canprove)
    none_edges = cfg.establishing_edges(isnone)
    stores = [n for n in cfg.nodes if n.kind == 'stmt' and isinstance(n.ast, ast.Assign) and
              any(path_of(t) == seq + '.th' for t in n.ast.targets)]
    good_stores = [n for n in stores if is_name(n.ast.value, 'res_th') and cfg.path_avoiding(n, skip_edges=none_edges) is None]
    bad_stores = [n for n in stores if n not in good_stores]
    for a in assigns:
        reach = cfg.reach_from(a, skip_nodes=good_stores, skip_edges=cp_edges)
        ok = cfg.exit.id not in reach
        res.add('%s :: Theory._check_proof_item :: after(res_th <- %s)' % (THEORY, src(a.ast.value, 50)), ok,
                'completion only through `%s.th = res_th` (when None) or res_th.can_prove(%s.th)' % (seq, seq) if ok else
                'a step can be accepted without comparing the derived sequent with the stated one',
                '%s:%d' % (THEORY, a.lineno))
    res.add('%s :: Theory._check_proof_item :: stores-to-stated-sequent' % THEORY, not bad_stores,
            'the stated sequent is only filled in from res_th when absent' if not bad_stores else
            'stated sequent overwritten: %s' % '; '.join(src(n.ast) for n in bad_stores), func.loc)
    # Thm.can_prove: a truthy answer only where the propositions are equal and the hypotheses are among the stated ones,
    # whether these are conjuncts of the returned expression or tests passed on the way to the return
    f = repo.func(THM, 'Thm.can_prove')
    tgt = f.params()[1]
    fl = flow_of(f.node)
    fcfg = cfg_of(f.node)

    def mentions(e, path):
        return path in fl.resolve(e)

    def prop_eq(c, pol=True):
        cp = compare_parts(c)
        if not cp:
            return False
        sides = (denotes(fl, cp[1], 'self.prop') and denotes(fl, cp[2], tgt + '.prop')) or (denotes(fl, cp[2], 'self.prop') and denotes(fl, cp[1], tgt + '.prop'))
        return sides and ((cp[0] is ast.Eq and pol) or (cp[0] is ast.NotEq and not pol))

    def hyps_sub(c, pol=True):
        if not pol:
            return False
        cp = compare_parts(c)
        if isinstance(c, ast.Call) and call_attr(c) == 'issubset' and mentions(c.func.value, 'self.hyps') and c.args and mentions(c.args[0], tgt + '.hyps'):
            return True
        if cp and cp[0] is ast.LtE and mentions(cp[1], 'self.hyps') and mentions(cp[2], tgt + '.hyps') and \
                all(isinstance(s_, ast.Call) and call_name(s_) in ('set', 'frozenset') for s_ in (cp[1], cp[2])):
            return True
        if isinstance(c, ast.Call) and call_name(c) == 'all' and c.args and isinstance(c.args[0], (ast.GeneratorExp, ast.ListComp)):
            g = c.args[0]
            cp2 = compare_parts(g.elt)
            if cp2 and cp2[0] is ast.In and mentions(cp2[2], tgt + '.hyps') and len(g.generators) == 1 and denotes(fl, g.generators[0].iter, 'self.hyps') \
                    and not g.generators[0].ifs and is_name(cp2[1], getattr(g.generators[0].target, 'id', None)):
                return True
        return False
    ok_prop = ok_hyps = True
    rets = [r for r in fcfg.return_nodes() if r.ast.value is not None]
    need(rets, 'Thm.can_prove: no result')
    for r in rets:
        e = r.ast.value
        if isinstance(e, ast.Constant) and e.value is False:
            continue
        conj = e.values if isinstance(e, ast.BoolOp) and isinstance(e.op, ast.And) else [e]
        for pred, which in ((prop_eq, 'prop'), (hyps_sub, 'hyps')):
            inside = any(pred(c) for c in conj)
            before = fcfg.path_avoiding(r, skip_edges=fcfg.establishing_edges(pred)) is None
            if not (inside or before):
                if which == 'prop':
                    ok_prop = False
                else:
                    ok_hyps = False
    res.add('%s :: Thm.can_prove :: same-proposition' % THM, ok_prop,
            'self.prop == target.prop' if ok_prop else 'can_prove no longer requires equal propositions', f.loc)
    res.add('%s :: Thm.can_prove :: hyps-subset' % THM, ok_hyps,
            'hyps(self) is a subset of hyps(target)' if ok_hyps else
            'can_prove no longer requires the hypotheses of the derived sequent to be among the stated ones', f.loc)
    return res


def rule_p4(repo):
    res = RuleResult('C02.P4', 'a theorem extension with a proof is installed only after a gap-free check that concludes the stated theorem', floor=3)
    func = repo.func(THEORY, 'Theory.checked_extend')
    cfg = cfg_of(func.node)
    flow = flow_of(func.node)
    # the statement becomes citable through add_theorem - directly, or through unchecked_extend, which calls it
    adds = _nodes_calling(cfg, lambda c: call_name(c) in ('self.add_theorem', 'self.unchecked_extend', 'self.extend_theorem'))
    need(adds, 'checked_extend: no call that installs the theorem (add_theorem / unchecked_extend) found')
    prf_tests = [n for n in cfg.test_nodes() if (path_of(n.ast) or '').endswith('.prf') or
                 (compare_parts(n.ast) and (path_of(compare_parts(n.ast)[1]) or '').endswith('.prf'))]
    need(prf_tests, 'checked_extend: test on the extension\'s proof not found')
    ext = path_of(prf_tests[0].ast if not compare_parts(prf_tests[0].ast) else compare_parts(prf_tests[0].ast)[1]).split('.')[0]

    def with_proof_label(t):
        cp = compare_parts(t.ast)
        if cp and cp[0] is ast.Is:        # ext.prf is None
            return 'false'
        return 'true'
    checks = _nodes_calling(cfg, lambda c: call_attr(c) == 'check_proof')
    gapfree = [n for n in checks if any(
        call_attr(c) == 'check_proof' and any(k.arg == 'no_gaps' and isinstance(k.value, ast.Constant) and k.value.value is True
                                              for k in c.keywords) and c.args and path_of(c.args[0]) == ext + '.prf'
        for c in _calls_in_node(cfg, n))]

    def concl_pred(expr, pol):
        # the checked result proves ext.th
        if isinstance(expr, ast.Call) and call_attr(expr) == 'can_prove' and pol:
            recv = flow.resolve(expr.func.value)
            if any('check_proof()' in r for r in recv) and [path_of(a) for a in expr.args] == [ext + '.th']:
                return True
        cp = compare_parts(expr)
        if cp and ((cp[0] is ast.Eq and pol) or (cp[0] is ast.NotEq and not pol)):
            for x, y in ((cp[1], cp[2]), (cp[2], cp[1])):
                if path_of(y) == ext + '.th' and any('check_proof()' in r for r in flow.resolve(x)):
                    return True
        return False
    concl_edges = cfg.establishing_edges(concl_pred)
    for a in adds:
        wo_proof = {(t.id, 'false' if with_proof_label(t) == 'true' else 'true') for t in prf_tests}
        with_proof = {(t.id, with_proof_label(t)) for t in prf_tests}
        ok = bool(gapfree) and cfg.path_avoiding(a, skip_nodes=gapfree, skip_edges=wo_proof) is None
        res.add('%s :: Theory.checked_extend :: with-proof :: gap-free-check' % THEORY, ok,
                'check_proof(%s.prf, no_gaps=True) dominates add_theorem' % ext if ok else
                'theorem installed as proved without a check_proof(..., no_gaps=True) of its proof '
                '(checks found: %s)' % ([src(c, 60) for n in checks for c in _calls_in_node(cfg, n) if call_attr(c) == 'check_proof'] or 'none'),
                '%s:%d' % (THEORY, a.lineno))
        ok = bool(concl_edges) and cfg.path_avoiding(a, skip_edges=wo_proof | concl_edges) is None
        res.add('%s :: Theory.checked_extend :: with-proof :: concludes-stated-theorem' % THEORY, ok,
                'the checked conclusion is compared with %s.th before add_theorem' % ext if ok else
                'the result of the check is never compared with %s.th: any accepted proof installs any statement' % ext,
                '%s:%d' % (THEORY, a.lineno))
        axioms = _nodes_calling(cfg, lambda c: call_attr(c) == 'add_axiom')
        ok = bool(axioms) and cfg.path_avoiding(a, skip_nodes=axioms, skip_edges=with_proof) is None
        res.add('%s :: Theory.checked_extend :: without-proof :: reported-as-axiom' % THEORY, ok,
                'add_axiom dominates add_theorem on the branch without proof' if ok else
                'a theorem without proof can be installed without being reported as an axiom', '%s:%d' % (THEORY, a.lineno))
    return res


def rule_p5(repo):
    res = RuleResult('C02.P5', 'ProofTerm.check reports every gap and visits every premise', floor=2)
    func = repo.func(PROOFTERM, 'ProofTerm.check.<locals>.rec')
    cfg = cfg_of(func.node)
    pt = func.params()[0]
    sorry_tests = [n for n in cfg.test_nodes() if (lambda cp: cp and cp[0] is ast.Eq and path_of(cp[1]) == pt + '.rule'
                                                   and isinstance(cp[2], ast.Constant) and cp[2].value == 'sorry')(compare_parts(n.ast))]
    need(sorry_tests, 'ProofTerm.check.rec: sorry test not found')
    gap_nodes = _nodes_calling(cfg, lambda c: call_attr(c) == 'add_gap' and [path_of(a) for a in c.args] == [pt + '.th'])
    for st in sorry_tests:
        ok = bool(gap_nodes) and all(cfg.exit.id not in cfg.reach_from(s, skip_nodes=gap_nodes) for s in _succ(st, 'true'))
        res.add('%s :: ProofTerm.check.rec :: sorry :: reported' % PROOFTERM, ok,
                'rpt.add_gap(%s.th)' % pt if ok else 'a sorry proof term is not reported as a gap', '%s:%d' % (PROOFTERM, st.lineno))
    # all prevs are visited before the rule is examined
    loops = [n for n in cfg.nodes_of_kind('iter') if path_of(n.ast.iter) == pt + '.prevs' and
             any(isinstance(c, ast.Call) and is_name(c.func, func.name) for c in ast.walk(n.ast))]
    ok = bool(loops) and all(cfg.dominates(loops[0], st) for st in sorry_tests)
    res.add('%s :: ProofTerm.check.rec :: visits-all-premises' % PROOFTERM, ok,
            'for prev in %s.prevs: rec(prev)' % pt if ok else 'premises of a proof term are not all visited', func.loc)
    return res


def rule_p6(repo):
    res = RuleResult('C02.P6', 'both extension entry points handle every extension kind; only the theorem branch installs theorems', floor=10)
    ext_cls = repo.cls(EXTENSION, 'Extension')
    kinds = sorted(m for m in ext_cls.methods if m.startswith('is_'))
    need(len(kinds) >= 5, 'kernel/extension.py: fewer than 5 kind predicates on Extension')
    for fn in ('Theory.unchecked_extend', 'Theory.checked_extend'):
        func = extend_func(repo, fn)
        cfg = cfg_of(func.node)
        tested = {}
        for n in cfg.test_nodes():
            if isinstance(n.ast, ast.Call) and call_attr(n.ast) in kinds:
                tested.setdefault(call_attr(n.ast), []).append(n)
        for k in kinds:
            res.add('%s :: %s :: kind(%s)' % (THEORY, fn, k), k in tested,
                    'handled' if k in tested else 'extension kind %s has no branch' % k, func.loc, nontrivial=False)
        # fallthrough raises: from the false edge of the last kind test no normal continuation
        adds = _nodes_calling(cfg, lambda c: call_name(c) == 'self.add_theorem')
        if 'is_theorem' in tested:
            ok = bool(adds) and all(cfg.path_avoiding(a, skip_edges={(t.id, 'true') for t in tested['is_theorem']}) is None for a in adds)
            res.add('%s :: %s :: add_theorem-only-for-theorems' % (THEORY, fn), ok,
                    'add_theorem dominated by is_theorem()' if ok else 'add_theorem reachable for a non-theorem extension', func.loc)
        # unknown kind -> raise: all kind tests false leads to raise
        all_false = {(n.id, 'true') for ns in tested.values() for n in ns}
        starts = [n for n in cfg.nodes_of_kind('iter')]
        ok = True
        for it in starts:
            body = _succ(it, 'loop')
            reach = cfg.reach_from(body, skip_edges=all_false)
            if it.id in reach or cfg.exit.id in reach:
                ok = False
        res.add('%s :: %s :: unknown-kind-raises' % (THEORY, fn), ok,
                'an extension of no known kind raises' if ok else 'an extension of unknown kind is silently skipped', func.loc)
    return res


def rule_p7(repo):
    res = RuleResult('C02.P7', 'check_proof checks every item of the proof it is given and returns the last checked sequent', floor=2)
    func = repo.func(THEORY, 'Theory.check_proof')
    cfg = cfg_of(func.node)
    prf = func.params()[1]
    from .checker_blocks import checks_block
    blocks = checks_block(repo, cfg, prf + '.items', prf)
    ok = bool(blocks) and all(any(cfg.dominates(b, r) for b in blocks) for r in cfg.return_nodes())
    res.add('%s :: Theory.check_proof :: all-items' % THEORY, ok,
            'every item of %s.items is handed to the step checker before check_proof returns' % prf if ok else
            'not every item of the proof is checked before check_proof returns', func.loc)
    rets = cfg.return_nodes()
    ok = bool(rets) and all(r.ast.value is not None and path_of(r.ast.value) == prf + '.items[-1].th' and
                            isinstance(r.ast.value.value, ast.Subscript) and
                            isinstance(r.ast.value.value.slice, ast.UnaryOp) and
                            getattr(r.ast.value.value.slice.operand, 'value', None) == 1 for r in rets)
    res.add('%s :: Theory.check_proof :: returns-last' % THEORY, ok,
            'returns %s.items[-1].th' % prf if ok else 'check_proof does not return the sequent of the last item', func.loc,
            nontrivial=False)
    return res


def rule_p8(repo):
    """Identifiers address positions: a negative component would be resolved by Python from the end
    of the list, so that `-1` passes the 'strictly earlier' test and names the last step."""
    res = RuleResult('C02.P8', 'a step identifier is resolved to a position only after negative components are refused', floor=2)
    from ..inline import inlined
    f = inlined(repo.func('kernel/proof.py', 'Proof.find_item'), lambda h: any(
        isinstance(x, ast.Subscript) and (path_of(x.value) or '').endswith('.items') for x in ast.walk(h.node)))[0]   # the descent may be a helper
    cfg = cfg_of(f.node)
    idp = f.params()[1]
    flow = flow_of(f.node)
    lookups = []
    for n in cfg.nodes:
        for h in cfg.headers(n):
            for x in ast.walk(h):
                if isinstance(x, ast.Subscript) and isinstance(x.ctx, ast.Load) and (path_of(x.value) or '').endswith('.items') and \
                        any(p.startswith(idp + '.id') for p in flow.resolve(x.slice)):
                    lookups.append((n, x))
    need(lookups, 'Proof.find_item: no lookup of items by an identifier component found')

    def nonneg(e, pol):
        # `any(i < 0 for i in id.id)` false, or `all(i >= 0 ...)` true, or `min(id.id) < 0` false
        if isinstance(e, ast.Call) and call_name(e) in ('any', 'all') and e.args and isinstance(e.args[0], ast.GeneratorExp):
            g = e.args[0]
            cp = compare_parts(g.elt)
            if cp and denotes(flow, g.generators[0].iter, idp + '.id') and isinstance(cp[2], ast.Constant) and cp[2].value == 0:
                if call_name(e) == 'any' and cp[0] is ast.Lt:
                    return not pol
                if call_name(e) == 'all' and cp[0] is ast.GtE:
                    return pol
        cp = compare_parts(e)
        if cp and isinstance(cp[1], ast.Call) and call_name(cp[1]) == 'min' and isinstance(cp[2], ast.Constant) and cp[2].value == 0:
            return (cp[0] is ast.Lt and not pol) or (cp[0] is ast.GtE and pol)
        return False
    edges = cfg.establishing_edges(nonneg)
    # the same test written as a loop over the components: `for i in id.id: if i < 0: raise`
    from ..idioms import forall_not_edges

    def neg_elem(e, v):
        cp = compare_parts(e)
        if cp and cp[0] is ast.Lt and is_name(cp[1], v) and isinstance(cp[2], ast.Constant) and cp[2].value == 0:
            return 'negative'
        return None
    loop_edges, _i = forall_not_edges(cfg, lambda it: any(p == idp + '.id' for p in flow.resolve(it)) and len(flow.resolve(it)) == 1, neg_elem)
    edges = set(edges) | loop_edges
    for n, x in lookups:
        ok = bool(edges) and cfg.path_avoiding(n, skip_edges=edges) is None
        res.add('kernel/proof.py :: Proof.find_item :: lookup(%s)' % src(x, 40), ok,
                'reached only for identifiers without negative components' if ok else
                '`%s` is reached for a negative identifier component: ItemID(-1) passes can_depend_on and names the last step, which '
                'can thus cite itself' % src(x, 40), 'kernel/proof.py:%d' % n.lineno)
    return res


def rule_p9(repo):
    res = RuleResult('C02.P9', 'a step that the checker skips cannot carry a stated theorem for later steps to cite', floor=1)
    func = check_item_func(repo)
    cfg = cfg_of(func.node)
    seq = func.params()[2]
    empties = [n for n in cfg.test_nodes() if (lambda cp: cp and cp[0] is ast.Eq and path_of(cp[1]) == seq + '.rule' and
                                               isinstance(cp[2], ast.Constant) and cp[2].value == '')(compare_parts(n.ast))]
    need(empties, '_check_proof_item: branch for the empty rule not found')

    def th_none(e, pol):
        cp = compare_parts(e)
        return bool(cp) and path_of(cp[1]) == seq + '.th' and isinstance(cp[2], ast.Constant) and cp[2].value is None and \
            ((cp[0] is ast.Is and pol) or (cp[0] is ast.IsNot and not pol))
    edges = cfg.establishing_edges(th_none)
    for t in empties:
        # from the empty-rule branch, normal completion without any derivation requires th is None
        starts = [b for b, l in t.succ if l == 'true']
        derive = [n for n in cfg.nodes if n.kind == 'stmt' and isinstance(n.ast, ast.Assign) and any(is_name(x, 'res_th') for x in n.ast.targets)]
        reach = cfg.reach_from(starts, skip_nodes=derive, skip_edges=edges)
        ok = cfg.exit.id not in reach
        res.add('%s :: Theory._check_proof_item :: empty-rule :: no-stated-theorem' % THEORY, ok,
                'an empty line completes only when it states no theorem' if ok else
                'a step with the empty rule is accepted unchecked whatever theorem it states; a later step can cite it: '
                '[0: "" th |- false; 1: substitution {} from 0] is accepted', '%s:%d' % (THEORY, t.lineno))
    return res


def rule_p10(repo):
    """A step may cite an earlier line of its own block or of an enclosing block: the cited identifier,
    without its last component, must be a prefix of the citing one, and its last component smaller than the
    citing identifier's component at that position.  Whatever way this is written, a comparison that finds
    the two identifiers *different* somewhere before the last component of the cited one can only mean "no";
    and "yes" can only be answered after the prefixes were compared."""
    res = RuleResult('C02.P10', 'can_depend_on answers "no" wherever the identifiers differ before the cited line\'s last component, and "yes" only after comparing the prefixes', floor=2)
    f = repo.func('kernel/proof.py', 'ItemID.can_depend_on')
    fnode = desugar_bool_returns(f.node)      # `return a and b == c and d < e` reads like the chain of early returns
    cfg = cfg_of(fnode)
    flow = flow_of(fnode)
    me, other = f.params()[0], f.params()[1]

    def about_ids(e):
        roots = {path_base(p) for p in flow.resolve(e)}
        return bool(roots & {me, other})
    eq_tests = []
    for t in cfg.test_nodes():
        cp = compare_parts(t.ast)
        if cp and cp[0] in (ast.Eq, ast.NotEq) and about_ids(cp[1]) and about_ids(cp[2]) and \
                not (isinstance(cp[1], ast.Call) or isinstance(cp[2], ast.Call)):
            eq_tests.append((t, 'true' if cp[0] is ast.NotEq else 'false', 'false' if cp[0] is ast.NotEq else 'true'))
    if not eq_tests:
        res.add('kernel/proof.py :: ItemID.can_depend_on :: yes-after-prefix-comparison', False,
                'the two identifiers are never compared for (in)equality: a line of any other block can be cited', f.loc)
        res.floor = 1
        return res

    def is_false(r):
        return isinstance(r.ast.value, ast.Constant) and r.ast.value.value is False
    for t, unequal, equal in eq_tests:
        after = cfg.reach_from([b for b, l in t.succ if l == unequal])
        wrong = [r for r in cfg.return_nodes() if r.id in after and not is_false(r)]
        # a return reached from the unequal side through the *next* round of a loop that compares further components is
        # still "different earlier": only `return False` is admissible
        res.add('kernel/proof.py :: ItemID.can_depend_on :: different(%s)' % src(t.ast, 40), not wrong,
                'where the identifiers differ the answer is False' if not wrong else
                'when `%s` finds the identifiers different, `%s` (line %d) can still answer yes: a step may then cite a line inside an earlier, '
                'already closed block (1.0 citing 0.0), which the checker never visits' % (src(t.ast, 40), src(wrong[0].ast, 40), wrong[0].lineno),
                '%s:%d' % ('kernel/proof.py', t.lineno))
    equal_edges = {(t.id, equal) for t, _u, equal in eq_tests}
    yes = [r for r in cfg.return_nodes() if not is_false(r)]
    need(yes, 'ItemID.can_depend_on: no return that can answer yes')
    # a loop that compares the prefix component by component counts as the comparison (it may have nothing to compare)
    loops = [it for it in cfg.nodes_of_kind('iter') if any(it.ast.lineno <= t.lineno <= (it.ast.end_lineno or 0) for t, _u, _e in eq_tests)]
    bad = [r for r in yes if cfg.path_avoiding(r, skip_edges=equal_edges, skip_nodes=loops) is not None]
    res.add('kernel/proof.py :: ItemID.can_depend_on :: yes-after-prefix-comparison', not bad,
            'every possibly-true answer is behind an equality test of the prefixes' if not bad else
            '`%s` (line %d) is reachable without comparing the prefixes of the two identifiers' % (src(bad[0].ast, 40), bad[0].lineno), f.loc)
    return res


def rule_p11(repo):
    """A step may cite lines with smaller identifiers; that is only as good as "identifier = position".  The
    test `prf.find_item(seq.id) is seq` (P1) is fooled by one item object placed at two positions: it is found
    under its own identifier, is visited early, and cites itself (or a later line) before anything is derived.
    Every loop that hands the items of a block to the step checker must compare each item\'s identifier with
    the block\'s identifier extended by the loop index."""
    res = RuleResult('C02.P11', 'every item is checked at the position its identifier names: the loops over a block compare identifier and index', floor=1)
    m = repo.module('kernel/theory.py')
    th = repo.cls('kernel/theory.py', 'Theory')
    calls = []
    for f in th.methods.values():
        for c in ast.walk(f.node):
            if isinstance(c, ast.Call) and call_attr(c) == '_check_proof_item':
                calls.append((f, c))
    need(calls, 'Theory: no call of _check_proof_item')
    for f, c in calls:
        # enclosing for-loop over enumerate(..)
        loop = None
        for n in ast.walk(f.node):
            if isinstance(n, ast.For) and any(x is c for st in n.body for x in ast.walk(st)):
                loop = n
        ok = False
        why = 'the step checker is called outside a loop that knows the position of the item'
        if loop is not None and isinstance(loop.iter, ast.Call) and call_name(loop.iter) == 'enumerate' and isinstance(loop.target, ast.Tuple):
            idx, item = [getattr(e, 'id', None) for e in loop.target.elts]
            arg_ok = len(c.args) >= 2 and is_name(c.args[1], item)
            tests = [n for st in loop.body for n in ast.walk(st) if isinstance(n, ast.If) and compare_parts(n.test) and
                     compare_parts(n.test)[0] in (ast.NotEq,) and (path_of(compare_parts(n.test)[1]) or '').startswith(item + '.id') and
                     idx in {x.id for x in ast.walk(compare_parts(n.test)[2]) if isinstance(x, ast.Name)} and
                     any(isinstance(x, ast.Raise) for b in n.body for x in ast.walk(b))]
            before = [t for t in tests if t.lineno < c.lineno]
            ok = arg_ok and bool(before)
            why = 'identifier compared with the block identifier extended by the index, mismatch raises' if ok else \
                'the loop does not compare `%s.id` with the position `%s` before the item is checked' % (item, idx)
        res.add('kernel/theory.py :: Theory.%s :: item-at-its-position' % f.name, ok,
                why if ok else why + ': an item object placed at a second position is visited early and can cite lines that are not derived yet '
                '(items [X, R, X] with X = "2: |- false by equal_elim from 1, 0" were accepted)', '%s:%d' % ('kernel/theory.py', c.lineno))
    return res


def rule_p12(repo):
    """"Fully justified" includes *by whom*: a `theorem` step is justified by the theory that checks the proof
    (`self.get_theorem`), a rule step by the dispatch table, a macro step by the macro registered under the step's rule
    name.  A look-up in the process-wide current theory instead (`get_theorem(..)` of the module) justifies a step from a
    theory that is not the one being extended.  The source classification of C01.K6, read for this property."""
    from .c01 import rule_k6
    r = rule_k6(repo)
    res = RuleResult('C02.P12', 'each kind of step takes its justification from the checking theory, the dispatch table or the registered macro', floor=6)
    for i in r.instances:
        res.add(i.key, i.ok, i.detail, i.loc)
    return res


def rules(repo):
    return [rule_p1(repo), rule_p2(repo), rule_p3(repo), rule_p4(repo), rule_p5(repo), rule_p6(repo), rule_p7(repo),
            rule_p8(repo), rule_p9(repo), rule_p10(repo), rule_p11(repo), rule_p12(repo)]
