"""C09 - matching: the caller's instantiation is never modified (copy on entry, deep enough copy), and an
existing binding is never overwritten."""
import ast
import re

from ..core import RuleResult, need
from ..cfg import cfg_of
from ..flow import flow_of
from ..astutil import src, call_attr, call_name, compare_parts, is_name, path_of, walk_no_nested, self_attr_stores
from ..repo import dotted

MATCHER = 'logic/matcher.py'
TERM = 'kernel/term.py'
TYPE = 'kernel/type.py'

NOT_DECIDED = ('that the returned instantiation really maps the pattern to the target up to beta-eta, and completeness '
               'for first-order patterns (runtime values)')
ASSUMPTIONS = ['UserDict(other) copies the mapping of `other` into a new dict']

MUTATORS = {'update', 'pop', 'popitem', 'clear', 'setdefault', '__setitem__', '__delitem__'}
HARMLESS_CALLEES = {'copy', 'isinstance', 'typecheck.checkinstance', 'len', 'list', 'dict', 'str', 'repr', 'print', 'bool'}


def _entry_points(repo):
    m = repo.module(MATCHER)
    return [f for f in m.functions.values() if 'inst' in f.params()]


def _mutates_inst(node):
    """does the statement / expression mutate the object named `inst`"""
    for n in ast.walk(node):
        if isinstance(n, (ast.Assign, ast.AugAssign, ast.AnnAssign)):
            targets = n.targets if isinstance(n, ast.Assign) else [n.target]
            for t in targets:
                for x in ast.walk(t):
                    if isinstance(x, (ast.Subscript, ast.Attribute)) and isinstance(x.ctx, ast.Store) and \
                            (path_of(x) or '').split('.')[0].split('[')[0] == 'inst':
                        return 'store `%s`' % src(t)
        if isinstance(n, ast.Delete):
            for t in n.targets:
                if (path_of(t) or '').split('.')[0].split('[')[0] == 'inst':
                    return 'del `%s`' % src(t)
        if isinstance(n, ast.Call):
            if isinstance(n.func, ast.Attribute) and n.func.attr in MUTATORS and (path_of(n.func.value) or '').split('.')[0] == 'inst':
                return 'call `%s`' % src(n, 50)
            if call_attr(n) == 'match_incr' and any((path_of(a) or '').split('.')[0] == 'inst' for a in n.args):
                return 'call `%s`' % src(n, 50)
    return None


def rule_n1(repo):
    res = RuleResult('C09.N1', 'an entry point of the matcher rebinds `inst` to a copy (or a fresh Inst) before anything can modify it', floor=2)
    eps = _entry_points(repo)
    need(len(eps) >= 2, 'logic/matcher.py: fewer than two functions with an `inst` parameter')
    safe_names = {f.name for f in eps}
    for f in eps:
        cfg = cfg_of(f.node)
        rebinds = []
        for n in cfg.stmt_nodes(ast.Assign):
            if any(is_name(t, 'inst') for t in n.ast.targets):
                def fresh(v):
                    if isinstance(v, ast.IfExp):
                        return fresh(v.body) and fresh(v.orelse)
                    if not isinstance(v, ast.Call):
                        return False
                    cn = call_name(v)
                    return (cn in ('copy', 'copy.copy') and v.args and is_name(v.args[0], 'inst')) or cn == 'Inst' or cn in safe_names
                if fresh(n.ast.value):
                    rebinds.append(n)
        nested_mutating = {name for name, g in f.nested.items() if _mutates_inst(g.node)}
        unsafe = []
        for n in cfg.nodes:
            for h in cfg.headers(n):
                why = None
                if n.kind == 'stmt' and not isinstance(n.ast, (ast.FunctionDef, ast.ClassDef)):
                    why = _mutates_inst(h)
                if why is None:
                    for c in ast.walk(h):
                        if not isinstance(c, ast.Call):
                            continue
                        if isinstance(c.func, ast.Name) and c.func.id in nested_mutating:
                            why = 'call of nested `%s`, which modifies inst' % c.func.id
                        elif any(is_name(a, 'inst') for a in c.args) or any(is_name(k.value, 'inst') for k in c.keywords):
                            cn = call_name(c) or ''
                            if cn not in HARMLESS_CALLEES and cn not in safe_names:
                                why = 'inst handed to `%s`' % cn
                if why:
                    unsafe.append((n, why))
        bad = [(n, why) for n, why in unsafe if cfg.path_avoiding(n, skip_nodes=rebinds) is not None]
        res.add('%s :: %s :: copy-on-entry' % (MATCHER, f.qualname), not bad,
                '%d uses that may modify inst, all after the rebinding' % len(unsafe) if not bad else
                '; '.join('line %d: %s reachable before inst is rebound to a copy' % (n.lineno, why) for n, why in bad[:3]) +
                ' -- the caller\'s instantiation object is modified', f.loc)
    return res


def rule_n2(repo):
    res = RuleResult('C09.N2', '__copy__ of an instantiation re-creates every mutable field its constructor creates', floor=2)
    for rel, clsname in ((TERM, 'Inst'), (TYPE, 'TyInst')):
        cls = repo.cls(rel, clsname)
        init = cls.methods.get('__init__')
        cp = need(cls.methods.get('__copy__'), '%s.__copy__ not found' % clsname)
        fields = [a for a, _v, _s in self_attr_stores(init.node)] if init else []
        # the mapping itself: constructor call of the class on self
        news = [n for n in ast.walk(cp.node) if isinstance(n, ast.Call) and call_name(n) == clsname and n.args and is_name(n.args[0], 'self')]
        ok = bool(news)
        missing = []
        for fld in fields:
            good = False
            for n in ast.walk(cp.node):
                if isinstance(n, ast.Assign) and any(isinstance(t, ast.Attribute) and t.attr == fld and not is_name(t.value, 'self') for t in n.targets):
                    v = n.value
                    if isinstance(v, ast.Call) and call_name(v) in ('copy', 'copy.copy', 'dict', 'list', 'TyInst', 'Inst') and v.args and \
                            path_of(v.args[0]) == 'self.' + fld:
                        good = True
                    if isinstance(v, (ast.DictComp, ast.ListComp)):
                        good = True
            if not good:
                missing.append(fld)
        res.add('%s :: %s.__copy__ :: field-coverage' % (rel, clsname), ok and not missing,
                'mapping and fields %s are copied' % fields if ok and not missing else
                ('fields %s are shared with (or missing from) the copy: modifying the copy modifies the original' % missing if missing
                 else '__copy__ does not build a new %s from self' % clsname), cp.loc)
    return res


def _key(flow, e):
    """the variable name a binding is filed under, as a canonical text: locals that were given the value once are read through, and
    `X.head.name` is `X.name` (a term that has a name is its own head)"""
    t = src(flow.inline(e), 80)
    return re.sub(r'\.head\.name$', '.name', t)


_matcher_views = {}


def matcher_nested(repo):
    """The functions nested in first_order_match as the rules read them: the recursive worker(s) with the non-recursive helpers defined
    beside them (a step such as `assign(svar, s)` that was moved out of the worker) expanded at their calls (sa/inline.py).  A helper that
    could not be expanded everywhere stays an entry of its own."""
    from ..inline import inlined
    if id(repo) in _matcher_views:
        return _matcher_views[id(repo)][1]
    f = repo.func(MATCHER, 'first_order_match')
    rec = {n for n, g in f.nested.items() if any(isinstance(c, ast.Call) and is_name(c.func, n) for c in ast.walk(g.node))}
    out = {}
    left_over = set()
    for n, g in f.nested.items():
        if n in rec or not rec:
            g2, done, left = inlined(g, lambda h: h.parent is not None and h.name not in rec and h.name != g.name)
            out[n] = g2
            left_over |= {getattr(x, 'name', str(x)) for x in left}
    for n, g in f.nested.items():
        if n not in out and (n in left_over or not any(isinstance(c, ast.Call) and is_name(c.func, n) for w in f.nested.values() for c in ast.walk(w.node))):
            out[n] = g
    _matcher_views[id(repo)] = (repo, out)
    return out


def rule_n3(repo):
    res = RuleResult('C09.N3', 'a schematic variable is bound only when it has no binding yet (the given instantiation is extended, never altered)', floor=3)
    f = repo.func(MATCHER, 'first_order_match')
    need(f.nested, 'first_order_match has no nested match function')
    n_stores = 0
    for name, g in matcher_nested(repo).items():
        cfg = cfg_of(g.node)
        for n in cfg.stmt_nodes(ast.Assign):
            for t in n.ast.targets:
                if isinstance(t, ast.Subscript) and is_name(t.value, 'inst'):
                    n_stores += 1
                    kflow = flow_of(g.node)
                    keytxt = _key(kflow, t.slice)

                    def fresh(e, pol, keytxt=keytxt, kflow=kflow):
                        cp = compare_parts(e)
                        if not cp or not is_name(cp[2], 'inst') or _key(kflow, cp[1]) != keytxt:
                            return False
                        return (cp[0] is ast.NotIn and pol) or (cp[0] is ast.In and not pol)
                    edges = cfg.establishing_edges(fresh)
                    ok = bool(edges) and cfg.path_avoiding(n, skip_edges=edges) is None
                    res.add('%s :: first_order_match.%s :: bind(%s)@%s' % (MATCHER, name, keytxt, src(n.ast.value, 30)), ok,
                            'only when %s not in inst' % keytxt if ok else
                            '`%s` can overwrite an existing binding' % src(n.ast), '%s:%d' % (MATCHER, n.lineno))
    need(n_stores, 'first_order_match: no binding store inst[...] = ... found')
    return res

def rule_n11(repo):
    """N3 says a binding is stored only where the variable has none yet.  The test and the store are two statements: what
    runs between them must not be able to bind the variable itself.  The matcher's own recursion can - the same head
    variable may occur again inside the argument (?f (?f ?x)) - and a binding made there would be overwritten without being
    compared: the pattern then "matches" a target it is no instance of.  So on no path from the test to the store is there
    a recursive call of the matcher."""
    res = RuleResult('C09.N11', 'nothing that can bind the variable runs between the test that it is unbound and the store of its binding', floor=3)
    f = repo.func(MATCHER, 'first_order_match')
    need(f.nested, 'first_order_match has no nested match function')
    rec_names = set(f.nested) | {'first_order_match', 'first_order_match_list'}
    for name, g in matcher_nested(repo).items():
        cfg = cfg_of(g.node)
        for n in cfg.stmt_nodes(ast.Assign):
            for t in n.ast.targets:
                if not (isinstance(t, ast.Subscript) and is_name(t.value, 'inst')):
                    continue
                kflow = flow_of(g.node)
                keytxt = _key(kflow, t.slice)

                def fresh(e, pol, keytxt=keytxt, kflow=kflow):
                    cp = compare_parts(e)
                    if not cp or not is_name(cp[2], 'inst') or _key(kflow, cp[1]) != keytxt:
                        return False
                    return (cp[0] is ast.NotIn and pol) or (cp[0] is ast.In and not pol)
                edges = cfg.establishing_edges(fresh)
                if not edges:
                    continue            # N3 reports that
                byid = {x.id: x for x in cfg.nodes}
                starts = [b for (nid, lab) in edges for (b, l2) in byid[nid].succ if l2 == lab]
                fwd = cfg.reach_from(starts, skip_edges=edges)
                between = []
                for c in cfg.nodes:
                    if c.id not in fwd or c is n or c.ast is None or c.kind not in ('stmt', 'test', 'return', 'iter'):
                        continue
                    if isinstance(c.ast, (ast.FunctionDef, ast.ClassDef)):
                        continue
                    calls = [x for h in cfg.headers(c) for x in ast.walk(h)
                             if isinstance(x, ast.Call) and isinstance(x.func, ast.Name) and x.func.id in rec_names]
                    if calls and n.id in cfg.reach_from([b for b, _l in c.succ], skip_edges=edges):
                        between.append((c, calls[0]))
                res.add('%s :: first_order_match.%s :: bind(%s)@%s :: test-then-store' % (MATCHER, name, keytxt, src(n.ast.value, 30)), not between,
                        'no recursive call between `%s not in inst` and the store' % keytxt if not between else
                        'line %d calls `%s` after `%s` was found unbound and before line %d stores its binding: if the variable occurs in what is matched '
                        'there (?f (?f ?x) against p (q a)) the recursive call binds it (?f := q) and the store overwrites that binding (?f := p) without '
                        'comparing - the match succeeds and the instantiated pattern p (p a) is not the target' % (
                            between[0][0].lineno, src(between[0][1], 40), keytxt, n.lineno), '%s:%d' % (MATCHER, n.lineno))
    return res


def rule_n4(repo):
    """When the instantiation of `?F x` is computed from a target `f x`, dropping the last argument
    (eta-contraction, `inst_t = inst_t.fun`) is only correct if x does not occur anywhere in f.  The test
    must therefore look through the whole function part (get_vars / occurs_var / has_vars / find_term),
    not at its top-level arguments."""
    res = RuleResult('C09.N4', 'an argument is dropped from an instantiation (eta-contraction) only after a freeness test over the whole function part', floor=2)
    f = repo.func(MATCHER, 'first_order_match')
    WHOLE_TERM = {'get_vars', 'occurs_var', 'has_vars', 'has_var', 'find_term', 'get_svars'}
    for name, g in matcher_nested(repo).items():
        cfg = cfg_of(g.node)
        for n in cfg.stmt_nodes(ast.Assign):
            t, v = n.ast.targets[0], n.ast.value
            if not (isinstance(t, ast.Name) and isinstance(v, ast.Attribute) and v.attr == 'fun' and is_name(v.value, t.id)):
                continue
            var = t.id

            def free_test(e, pol, var=var):
                # `x not in <var>.fun.get_vars()` true / `not find_term(<var>.fun, x)` true / `<var>.fun.occurs_var(x)` false
                cp = compare_parts(e)
                if cp and cp[0] in (ast.NotIn, ast.In) and isinstance(cp[2], ast.Call) and call_attr(cp[2]) in WHOLE_TERM and \
                        path_of(cp[2].func.value) == var + '.fun':
                    return pol if cp[0] is ast.NotIn else not pol
                if isinstance(e, ast.Call) and (call_attr(e) in WHOLE_TERM):
                    args = [path_of(a) for a in e.args] + ([path_of(e.func.value)] if isinstance(e.func, ast.Attribute) else [])
                    if var + '.fun' in args:
                        return not pol
                return False
            edges = cfg.establishing_edges(free_test)
            ok = bool(edges) and cfg.path_avoiding(n, skip_edges=edges) is None
            label = _guard_text(cfg, n)
            k = sum(1 for i in res.instances if label in i.key)
            res.add('%s :: first_order_match.%s :: eta-contraction#%d@(%s)' % (MATCHER, name, k + 1, label), ok,
                    'dropped only when the variable does not occur in the function part' if ok else
                    '`%s` is reachable without a whole-term freeness test on %s.fun: a bound variable nested inside an earlier '
                    'argument leaks into the instantiation (%%x. ?P x against %%x. R (h x) x gives ?P := R (h x))' % (src(n.ast), var),
                    '%s:%d' % (MATCHER, n.lineno))
    return res


def _guard_text(cfg, node):
    """text of the nearest test the node depends on, as a stable label for the instance"""
    best = None
    for t in cfg.test_nodes():
        for label in ('true', 'false'):
            if cfg.path_avoiding(node, skip_edges={(t.id, label)}) is None and cfg.path_avoiding(node, skip_nodes=[t]) is None:
                if best is None or t.lineno > best.lineno:
                    best = t
    return src(best.ast, 40) if best is not None else 'unconditional'


def rule_n5(repo):
    """Type matching underlies every term match.  Per kind of the pattern type, matching may complete only
    behind the test that makes the instantiated pattern equal to the target: a bound schematic variable
    and a rigid type variable behind an equality test with the target, a constructor behind the tests that
    the target is the same constructor, and through the recursion over the arguments."""
    res = RuleResult('C09.N5', 'Type.match_incr completes, for each kind of pattern type, only behind the equality / constructor tests against the target', floor=5)
    f = repo.func(TYPE, 'Type.match_incr')
    cfg = cfg_of(f.node)
    n5flow = flow_of(f.node)
    params = f.params()
    need(len(params) >= 3, 'Type.match_incr: parameters changed')
    T, inst = params[1], params[2]

    def kind_test(attr):
        ts = [n for n in cfg.test_nodes() if isinstance(n.ast, ast.Call) and call_attr(n.ast) == attr and is_name(n.ast.func.value, 'self')]
        need(ts, 'Type.match_incr: branch self.%s() not found' % attr)
        return ts[0]

    def eq_edges(a_ok, b_ok):
        def pred(e, pol):
            cp = compare_parts(e)
            if not cp or cp[0] not in (ast.Eq, ast.NotEq):
                return False
            l, r = src(n5flow.inline(cp[1])), src(n5flow.inline(cp[2]))     # `assigned = tyinst[self.name]; T != assigned`
            if not ((a_ok(l) and b_ok(r)) or (a_ok(r) and b_ok(l))):
                return False
            return pol if cp[0] is ast.Eq else not pol
        return cfg.establishing_edges(pred)

    def completes_without(start, edges=(), nodes=()):
        return cfg.path_avoiding(cfg.exit, skip_edges=set(edges), skip_nodes=list(nodes), start=start) is not None

    # rigid type variable
    t = kind_test('is_tvar')
    start = [b for b, l in t.succ if l == 'true'][0]
    edges = eq_edges(lambda x: x == 'self', lambda x: x == T)
    ok = bool(edges) and not completes_without(start, edges)
    res.add('%s :: Type.match_incr :: tvar :: equal-to-target' % TYPE, ok,
            'a rigid type variable matches only itself' if ok else
            'a non-schematic type variable of the pattern can match a different type: the match succeeds although no '
            'instantiation makes the pattern equal to the target', '%s:%d' % (TYPE, t.lineno))
    # schematic variable that already has a binding
    t = kind_test('is_stvar')
    bound = [n for n in cfg.test_nodes() if compare_parts(n.ast) and compare_parts(n.ast)[0] in (ast.In, ast.NotIn) and
             is_name(compare_parts(n.ast)[2], inst)]
    need(bound, 'Type.match_incr: test whether the schematic variable is bound not found')
    lab = 'true' if compare_parts(bound[0].ast)[0] is ast.In else 'false'
    start = [b for b, l in bound[0].succ if l == lab][0]
    edges = eq_edges(lambda x: x == T, lambda x: x.startswith(inst + '['))
    ok = bool(edges) and not completes_without(start, edges)
    res.add('%s :: Type.match_incr :: stvar-bound :: equal-to-binding' % TYPE, ok,
            'a bound schematic type variable matches only its binding' if ok else
            'a schematic type variable that already has a binding can match a different type', '%s:%d' % (TYPE, bound[0].lineno))
    # schematic variable without a binding: the binding is recorded - also ?'a := ?'a, which is what keeps a later ?'a from
    # being matched with something else (the table is the memory of the incremental matcher)
    other = 'false' if lab == 'true' else 'true'
    ustart = [b for b, l in bound[0].succ if l == other][0]
    stores = [n for n in cfg.stmt_nodes(ast.Assign) if any(isinstance(tg, ast.Subscript) and is_name(tg.value, inst) for tg in n.ast.targets)]
    ok = bool(stores) and not completes_without(ustart, nodes=stores)
    res.add('%s :: Type.match_incr :: stvar-unbound :: recorded' % TYPE, ok,
            'an unbound schematic type variable is bound on every path' if ok else
            'a schematic type variable without a binding can match without the binding being recorded: a later occurrence of the same '
            'variable is then free to match another type (?\'a => ?\'a matches ?\'a => nat)', '%s:%d' % (TYPE, bound[0].lineno))
    # constructor
    t = kind_test('is_tconst')
    start = [b for b, l in t.succ if l == 'true'][0]

    def same_con(e, pol):
        return isinstance(e, ast.Call) and call_attr(e) == 'is_tconst' and is_name(e.func.value, T) and pol
    e1 = cfg.establishing_edges(same_con)
    e2 = eq_edges(lambda x: x == 'self.name', lambda x: x == T + '.name')
    ok = bool(e1) and bool(e2) and not completes_without(start, e1) and not completes_without(start, e2)
    res.add('%s :: Type.match_incr :: tconst :: same-constructor' % TYPE, ok,
            'a constructor matches only the same constructor' if ok else
            'a type constructor of the pattern can match a variable or a different constructor', '%s:%d' % (TYPE, t.lineno))
    loops = [it for it in cfg.nodes_of_kind('iter') if 'args' in src(it.ast.iter) and
             any(isinstance(c, ast.Call) and call_attr(c) == 'match_incr' for st in it.ast.body for c in ast.walk(st))]
    ok = bool(loops) and not completes_without(start, nodes=loops)
    res.add('%s :: Type.match_incr :: tconst :: arguments-matched' % TYPE, ok,
            'the arguments are matched recursively' if ok else 'a constructor type can match without its arguments being matched', '%s:%d' % (TYPE, t.lineno))
    return res


def rule_n6(repo):
    """Every binding of a schematic variable fixes the type of the pattern variable too: the store
    `inst[name] = t` is preceded by matching the variable's type against the type of what it is bound to.
    Otherwise ?n::nat matches `true` and applying the instantiation to the pattern fails."""
    res = RuleResult('C09.N6', 'a schematic variable is bound only after its type was matched against the type of the term it is bound to', floor=3)
    f = repo.func(MATCHER, 'first_order_match')
    for name, g in matcher_nested(repo).items():
        cfg = cfg_of(g.node)
        tm = [n for n in cfg.nodes if n.kind == 'stmt' and any(
            isinstance(c, ast.Call) and call_attr(c) == 'match_incr' and c.args and path_of(c.args[-1]) == 'inst.tyinst' and
            (path_of(c.func.value) or '').endswith('.T') for c in ast.walk(n.ast))]
        for n in cfg.stmt_nodes(ast.Assign):
            for t in n.ast.targets:
                if isinstance(t, ast.Subscript) and is_name(t.value, 'inst'):
                    ok = bool(tm) and cfg.path_avoiding(n, skip_nodes=tm) is None
                    res.add('%s :: first_order_match.%s :: typed-bind(%s)@%s' % (MATCHER, name, src(t.slice), src(n.ast.value, 30)), ok,
                            'the type of the pattern variable is matched first' if ok else
                            '`%s` is reachable without matching the type of the schematic variable: a variable of one type is bound to '
                            'a term of another, and the instantiated pattern is not the target (not even well-typed)' % src(n.ast),
                            '%s:%d' % (MATCHER, n.lineno))
    return res


def rule_n7(repo):
    """The matcher refuses to bind a schematic variable to a term that mentions a bound variable of the
    pattern (has_vars), and drops an argument only if it does not occur in the rest (get_vars, find_term).
    These tests are structural recursions and must look at every sub-term - including the function part of
    a beta-redex."""
    from ..traverse import traversal_rule
    return traversal_rule(repo, 'C09.N7', 'the occurrence tests of the matcher look at every sub-term',
                          [(TERM, 'Term.has_vars'), (TERM, 'Term.has_var'), (TERM, 'Term.get_vars.<locals>.rec'), (MATCHER, 'find_term')],
                          'a bound variable in the skipped position leaks into the instantiation, which then does not instantiate the pattern to the target')


def rule_n8(repo):
    """A schematic head ?f applied to bound variables and matched variables is instantiated by abstracting
    the target over those arguments.  That is right only if the target mentions no bound variable of the
    pattern that is *not* among the arguments; the matcher tests this over the whole target
    (`any(v in t.get_vars() and v not in pat.args for v in bd_vars)`) and otherwise falls back.  The test must
    be on every path to the abstraction branch - not behind a shortcut on the number of arguments."""
    res = RuleResult('C09.N8', 'the instantiation of a schematic head is computed by abstraction only after the target was searched for bound variables that are not arguments', floor=1)
    f = repo.func(MATCHER, 'first_order_match')
    g = need(matcher_nested(repo).get('match'), 'first_order_match: nested match not found')
    cfg = cfg_of(g.node)
    # the binding of the head in the non-heuristic branch: inst[pat.head.name] = inst_t  (value a plain local name)
    binds = [n for n in cfg.stmt_nodes(ast.Assign) if any(isinstance(t, ast.Subscript) and is_name(t.value, 'inst') for t in n.ast.targets) and
             isinstance(n.ast.value, ast.Name) and n.ast.value.id not in ('t',)]
    need(binds, 'first_order_match.match: binding of the head by abstraction not found')
    # the search: an any(...) over bd_vars that looks into the variables of the target
    searches = [t for t in cfg.test_nodes() if isinstance(t.ast, ast.Call) and call_name(t.ast) == 'any' and t.ast.args and
                isinstance(t.ast.args[0], (ast.GeneratorExp, ast.ListComp)) and
                any(is_name(gen.iter, 'bd_vars') for gen in t.ast.args[0].generators) and 'pat.args' in src(t.ast, 300)]
    # ... or the same search written as a loop over bd_vars
    searches += [n for n in cfg.nodes if n.kind == 'iter' and isinstance(n.ast, ast.For) and is_name(n.ast.iter, 'bd_vars') and
                 any('pat.args' in src(x, 200) for st in n.ast.body for x in ast.walk(st) if isinstance(x, (ast.If, ast.Compare)))]
    need(searches, 'first_order_match.match: search of the target for extra bound variables not found')
    for b in binds:
        ok = cfg.path_avoiding(b, skip_nodes=searches) is None
        res.add('%s :: first_order_match.match :: head-by-abstraction@%s' % (MATCHER, src(b.ast.value, 20)), ok,
                'every path passes the search for bound variables that are not arguments' if ok else
                'the abstraction branch is reachable without the search `%s`: %%x. %%y. ?f y ?a against %%x. %%y. g x y c gives ?f := g x, with the '
                'binder\'s variable free in the instantiation' % src(searches[0].ast, 60), '%s:%d' % (MATCHER, b.lineno))
    return res


def rule_n9(repo):
    """Opening a binder replaces its bound variable by a fresh free variable.  Fresh means: different from
    every variable of the two bodies *as they are now*, which contain the replacements chosen for the enclosing
    binders.  A list of names taken once from the top-level terms misses those: %x. %x. g B1 B0 then matches
    %a. %b. g b b."""
    from ..fresh import fresh_sites
    res = RuleResult('C09.N9', 'the replacement for a bound variable is chosen against the terms as they are when the binder is opened', floor=1)
    n = 0
    for f in repo.module('logic/matcher.py').all_funcs:
        for c, avoid, how, ok, detail in fresh_sites(f):
            n += 1
            res.add('logic/matcher.py :: %s :: fresh(%s)' % (f.qualname, src(c.args[0], 30)), ok, detail, 'logic/matcher.py:%d' % c.lineno)
    need(n >= 1, 'logic/matcher.py: no fresh-name site found')
    return res


def rule_n10(repo):
    """The matcher extends the instantiation it is given: what the caller already fixed - term bindings *and* type
    bindings - stays fixed.  The parameter may be replaced by a new, empty instantiation only where it is None; a test
    like `len(inst) == 0` sees the term bindings only, and a seed that fixes ?'a := nat would be thrown away."""
    from ..astutil import comparison_holding
    res = RuleResult('C09.N10', 'the instantiation passed to the matcher is replaced by an empty one only when none was passed', floor=2)
    m = repo.module(MATCHER)
    for f in m.all_funcs:
        if f.parent is not None:
            continue
        a = f.node.args
        defaults = dict(zip([x.arg for x in a.args][len(a.args) - len(a.defaults):], a.defaults))
        for p, d in defaults.items():
            if not (isinstance(d, ast.Constant) and d.value is None):
                continue
            cfg = cfg_of(f.node)
            fresh = [n for n in cfg.stmt_nodes(ast.Assign) if any(is_name(t, p) for t in n.ast.targets) and
                     not any(is_name(x, p) for x in ast.walk(n.ast.value))]
            if not fresh:
                continue

            def none(e, pol, p=p):
                return any(op is ast.Is and is_name(x, p) and isinstance(y, ast.Constant) and y.value is None for op, x, y in comparison_holding(e, pol))
            edges = cfg.establishing_edges(none)
            bad = [n for n in fresh if cfg.path_avoiding(n, skip_edges=edges) is not None]
            res.add('%s :: %s :: seed(%s)' % (MATCHER, f.qualname, p), not bad,
                    '`%s` is replaced only where it is None' % p if not bad else
                    'line %d `%s` is reached with an instantiation the caller passed: what it fixed (its type bindings, if the test looked at the '
                    'term bindings only) is dropped, and the match can contradict it' % (bad[0].lineno, src(bad[0].ast, 40)), '%s:%d' % (MATCHER, (bad or fresh)[0].lineno))
    return res

def rule_n12(repo):
    """Inside an abstraction the matcher works on bodies in which the bound variable is replaced by a stand-in.  What it
    assigns to a schematic variable must not mention a stand-in - the instantiated pattern would have a free variable
    where the target has a bound one.  For a part of the target that is assigned *as it is* (`inst[k] = t`, `= t.fun`) that
    means: the store is behind `<that part>.has_vars(bd_vars)` with a failure on true.  (Values built by abstracting the
    arguments are N8's subject.)  The bare-variable case had the test, the heuristic branch had not:
    %x. ?f (?m x + 1) matched %x. g x (r x + 1) with ?f := g x."""
    res = RuleResult('C09.N12', 'a part of the target is assigned to a schematic variable only after it was tested free of stand-ins for bound variables', floor=2)
    f = repo.func(MATCHER, 'first_order_match')
    for name, g in matcher_nested(repo).items():
        ps = g.params()
        if len(ps) < 2:
            continue
        tpar = ps[1]
        cfg = cfg_of(g.node)
        for n in cfg.stmt_nodes(ast.Assign):
            for t in n.ast.targets:
                if not (isinstance(t, ast.Subscript) and is_name(t.value, 'inst')):
                    continue
                nflow = flow_of(g.node)
                v = path_of(nflow.inline(n.ast.value))          # also through a local that was given the part once (s = t.fun)
                if v is None or v.split('.')[0] != tpar:
                    continue

                def escapes(e, pol, v=v, nflow=nflow):
                    return not pol and isinstance(e, ast.Call) and call_attr(e) in ('has_vars', 'has_var') and path_of(nflow.inline(e.func.value)) == v and \
                        e.args and 'bd_vars' in src(e.args[0], 40)

                def no_binders(e, pol):
                    return not pol and is_name(e, 'bd_vars')
                edges = cfg.establishing_edges(escapes) | cfg.establishing_edges(no_binders)
                has_test = bool(cfg.establishing_edges(escapes))
                ok = has_test and cfg.path_avoiding(n, skip_edges=edges) is None
                res.add('%s :: first_order_match.%s :: bind(%s)@%s :: free-of-stand-ins' % (MATCHER, name, src(t.slice), v), ok,
                        '`%s.has_vars(bd_vars)` fails the match first' % v if ok else
                        'line %d assigns `%s` as it is, without testing it for the variables that stand for enclosing binders: inside %%x. .. the assigned term can '
                        'mention x, and the instantiated pattern is not the target' % (n.lineno, v), '%s:%d' % (MATCHER, n.lineno))
    return res


def rule_n13(repo):
    """The stand-in for a bound variable has to differ from every variable that can turn up while the bodies are matched.
    Those are the variables of the two bodies - and the variables of the terms already assigned, because a schematic
    variable of the pattern's body stands for such a term: with ?y := x, the pattern ?y + F (%x. ?y) must not match
    x + F (%z. z), which it does when the stand-in for the binder is also called x.  The list of names to avoid takes
    names from the instantiation."""
    from ..fresh import fresh_sites, _sum_parts
    res = RuleResult('C09.N13', 'the stand-in for a bound variable also avoids the variables of the terms already assigned', floor=1)
    f = repo.func(MATCHER, 'first_order_match')
    n_sites = 0
    for name, g in matcher_nested(repo).items():
        flow = flow_of(g.node)
        for c, avoid, how, ok0, detail in fresh_sites(g):
            n_sites += 1
            # everything that flows into the list (a list written in place, or a concatenation, is followed part by part)
            avoid = c.args[1]
            contrib = []
            for part in _sum_parts(avoid):
                if not isinstance(part, ast.Name):
                    contrib.append(part)
                    continue
                contrib += [r for _k, r in flow.defs.get(part.id, [])]
                for lp in ast.walk(g.node):
                    if isinstance(lp, ast.For) and any(isinstance(x, ast.Call) and call_attr(x) in ('append', 'extend') and is_name(x.func.value, part.id) for x in ast.walk(lp)):
                        contrib.append(lp.iter)
            from_inst = any(isinstance(x, ast.Name) and x.id == 'inst' for e in contrib for x in ast.walk(e))
            res.add('%s :: first_order_match.%s :: avoid-list-includes-instantiation' % (MATCHER, name), from_inst,
                    'names of the variables of the assigned terms are added to `%s`' % src(avoid, 40) if from_inst else
                    'line %d chooses the stand-in against `%s`, which is built from the two bodies only: a variable of a term assigned earlier can have the same '
                    'name, and ?y + F (%%x. ?y) matches x + F (%%z. z)' % (c.lineno, src(avoid, 40)), '%s:%d' % (MATCHER, c.lineno))
    need(n_sites, 'first_order_match: no fresh-name site found')
    return res

def rule_n14(repo):
    """The instantiation is a table from the *names of schematic variables* to terms.  A fixed variable of the pattern can have
    the same name as a schematic one (x and ?x), so asking the table about `v.name` means something only when v is known to be
    a schematic variable: every question `v.name in inst` and every look-up with a default `inst.get(v.name, ..)` in the matcher
    is made behind `v.is_svar()` (in the same condition or on the path), or for the head of a pattern that was found to be a
    schematic variable.  Asked for a fixed x, the table answers for ?x: ?x + ?f x matched a + p a with ?f := p."""
    res = RuleResult('C09.N14', 'the instantiation is asked about a name only for a variable known to be schematic', floor=2)
    for name, g in matcher_nested(repo).items():
        cfg = cfg_of(g.node)
        flow = flow_of(g.node)
        asks = []
        asserted = {id(x) for a in ast.walk(g.node) if isinstance(a, ast.Assert) for x in ast.walk(a.test)}
        for n in cfg.nodes:
            if n.ast is None:
                continue
            for h in cfg.headers(n):
                for x in ast.walk(h):
                    if id(x) in asserted:
                        continue            # `assert v.name in inst` states what the code relies on; nothing is decided by it
                    cp = compare_parts(x) if isinstance(x, ast.Compare) else None
                    if cp and cp[0] in (ast.In, ast.NotIn) and is_name(cp[2], 'inst') and isinstance(cp[1], ast.Attribute) and cp[1].attr == 'name':
                        asks.append((n, cp[1].value, x))
                    if isinstance(x, ast.Call) and call_attr(x) == 'get' and is_name(x.func.value, 'inst') and x.args and \
                            isinstance(x.args[0], ast.Attribute) and x.args[0].attr == 'name':
                        asks.append((n, x.args[0].value, x))
        for i, (n, subj, where) in enumerate(asks):
            stxt = src(flow.inline(subj), 60)
            stxt = re.sub(r'\.head$', '', stxt) if stxt.endswith('.head') else stxt

            def known(e, pol, stxt=stxt):
                if not (pol and isinstance(e, ast.Call) and call_attr(e) == 'is_svar'):
                    return False
                r = src(flow.inline(e.func.value), 60)
                return r == stxt or r == stxt + '.head' or re.sub(r'\.head$', '', r) == stxt
            edges = cfg.establishing_edges(known)
            # the same condition: `v.is_svar() and v.name in inst` - the atoms of one `and` are separate test nodes, the membership one is reached
            # only through the true edge of the one before it, so the path criterion covers it
            ok = bool(edges) and cfg.path_avoiding(n, skip_edges=edges) is None
            if not ok:
                # .. unless the condition stands inside a comprehension / all(..) / any(..), which the flow graph does not take apart: there the
                # conjunct in front of it within one `and` is looked for directly
                for b in ast.walk(g.node):
                    if isinstance(b, ast.BoolOp) and isinstance(b.op, ast.And):
                        for j, v_ in enumerate(b.values):
                            if any(x is where for x in ast.walk(v_)) and any(known(u, True) for u in b.values[:j]):
                                ok = True
            res.add('%s :: first_order_match.%s :: asks(%s)#%d' % (MATCHER, name, src(subj, 30), i + 1), ok,
                    '`%s.is_svar()` holds wherever the table is asked' % stxt if ok else
                    'line %d asks the instantiation about `%s.name` (`%s`) although `%s` need not be a schematic variable: a fixed variable x of the pattern is '
                    'taken for an already matched ?x, and ?x + ?f x matches a + p a' % (where.lineno, src(subj, 30), src(where, 50), src(subj, 30)),
                    '%s:%d' % (MATCHER, where.lineno))
    return res


def rules(repo):
    return [rule_n1(repo), rule_n2(repo), rule_n3(repo), rule_n4(repo), rule_n5(repo), rule_n6(repo), rule_n7(repo), rule_n8(repo), rule_n9(repo),
            rule_n10(repo), rule_n11(repo), rule_n12(repo), rule_n13(repo), rule_n14(repo)]
