"""C18 - veriT step evaluation: truncating comparisons, hypotheses of premises, no unconditional acceptance.

smt/veriT cannot be imported in the test environment (the PyPI package `smt` shadows it), so no baseline
test runs this code; the source-level analysis is the only check that sees it."""
import ast

from ..core import RuleResult, need
from ..cfg import cfg_of
from ..flow import flow_of, path_base
from ..astutil import src, call_name, returns_of, walk_no_nested
from ..macros import macro_index
from . import macro_rules as mr

NOT_DECIDED = ('logical validity of each of the ~90 Alethe rule shapes (needs a semantic oracle); the LA/LIA '
               'coefficient arithmetic of la_generic (numerical)')
ASSUMPTIONS = ['Thm(prop, *hyps) builds hyps |- prop',
               'helper functions that raise VeriTException reject the step']


def rule_r3(repo):
    res = RuleResult('C18.R3', 'no evaluation accepts a clause taken from its arguments without any test or rejecting helper on the way', floor=70)
    for mi in macro_index(repo):
        if mi.eval is None or not mr.verit_macros(mi):
            continue
        f = mi.eval
        cfg = cfg_of(f.node)
        flow = flow_of(f.node)
        tests = [n for n in cfg.nodes if n.kind in ('test', 'iter')]
        params = f.params()
        argp = params[1] if len(params) > 1 else None
        for ret in returns_of(f.node):
            if not (isinstance(ret.value, ast.Call) and call_name(ret.value) == 'Thm' and ret.value.args):
                continue
            rn = cfg.node_for(ret)
            path = cfg.path_avoiding(rn, skip_nodes=tests)
            ok = True
            why = 'acceptance depends on at least one test'
            if path is not None:
                prop = ret.value.args[0]
                # a proposition *computed* by the rule (normal form, constructed equation) is not a claim
                claimed = isinstance(prop, (ast.Name, ast.Subscript, ast.Attribute)) or \
                    (isinstance(prop, ast.Call) and call_name(prop) in ('Or', 'And') and
                     all(isinstance(a, (ast.Starred, ast.Name, ast.Subscript)) for a in prop.args))
                roots = flow.resolve(prop)
                from_args = argp is not None and any(path_base(p) == argp for p in roots)
                rejecting_helper = False
                for n in path:
                    if n.kind != 'stmt':
                        continue
                    for c in ast.walk(n.ast):
                        if isinstance(c, ast.Call):
                            for t in repo.resolve_call(f, c):
                                # helpers of the reconstruction itself (kernel constructors such as Thm / Or
                                # raise only on ill-formed input and do not check the step)
                                if t.module.rel.startswith('smt/veriT/') and \
                                        any(isinstance(x, (ast.Raise, ast.Assert)) for x in ast.walk(t.node)):
                                    rejecting_helper = True
                if claimed and from_args and not rejecting_helper:
                    ok = False
                    why = 'return at line %d hands back the clause given in the arguments with no test and no rejecting helper on the path' % ret.lineno
                else:
                    why = 'straight-line, but the proposition is computed by the rule or a helper can reject'
            res.add('%s :: eval :: return@%s' % (mi.key, src(ret.value.args[0], 40)), ok, why, '%s:%d' % (f.module.rel, ret.lineno))
    return res


# confirmed exceptions for R4: (function, construct text) -> reason
R4_EXEMPT = {
    ('analyze_args', 'integer.int_eval(coeff.arg1) / integer.int_eval(coeff.arg)'):
        'the Farkas coefficients supplied with an la_generic step are only multipliers: any values are sound as long as the '
        'combination is checked exactly afterwards, so a rounding error here can only make a valid step fail',
    ('analyze_args', 'lcm * d / math.gcd(lcm, d)'):
        'same: least common denominator of the supplied coefficients',
}


def rule_r4(repo):
    from .c05 import inexact_sources
    res = RuleResult('C18.R4', 'the arithmetic evaluators of the reconstruction compute with integers and fractions only', floor=2)
    n_funcs = 0
    for f in mr.verit_eval_side_functions(repo):
        if f.module.rel != 'smt/veriT/la_generic.py':
            continue
        n_funcs += 1
        for n in ast.walk(f.node):
            pass
        found = inexact_sources(repo, f)
        # locate the construct text for the exception table
        for ln, what in found:
            text = None
            for x in walk_no_nested(f.node, include_root=False):
                if getattr(x, 'lineno', None) == ln and isinstance(x, ast.BinOp) and isinstance(x.op, (ast.Div, ast.Pow)):
                    text = src(x, 200)
                    break
            ex = R4_EXEMPT.get((f.qualname, text))
            res.add('smt/veriT/la_generic.py :: %s :: inexact(%s)' % (f.qualname, text or what), ex is not None,
                    'confirmed exception: ' + ex if ex else
                    '%s: floating point in the rounding / combination of linear inequalities (e.g. int(c / k) rounds toward zero where '
                    'c // k rounds down) lets an unsound step be accepted' % what, 'smt/veriT/la_generic.py:%d' % ln,
                    nontrivial=ex is None)
    need(n_funcs >= 10, 'la_generic.py: evaluation-side functions not found')
    res.info['functions_scanned'] = n_funcs
    return res


def rules(repo):
    r1 = mr.zip_rule(repo, 'C18.R1', mr.verit_eval_side_functions(repo), floor=9)
    r2 = mr.hyps_rule(repo, 'C18.R2', mr.verit_macros, floor=80)
    return [r1, r2, rule_r3(repo), rule_r4(repo)]
